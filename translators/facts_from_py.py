#!/usr/bin/env python3
"""T3: finite facts read from the Python sources with `ast` (fail-closed, exact-shape matching) -> coq/gen/Facts.v

  func_table      token method -> numpy function of auxiliary._func (in source order)
  number_table    token method -> conversion of auxiliary._number
  python_types / numpy_types   the two type maps of listener.py
  set_sites       every place where a set-valued expression (.free_symbols, .modes, set(...)-bound names) is iterated,
                  listed, zipped or stringified (order-sensitive uses); order-insensitive uses are not listed
  clear_sites     every call of _VAR.clear() / _PARAMS.clear() with its enclosing function
  raise_sites     every raise of BlackbirdErrorListener.syntaxError: exception class, message prefix, first two format
                  arguments; and whether the function can fall through
  footprints      for the read-only API (serialize, __call__, to_DiGraph, match_template, the property getters):
                  every store-writing statement with the root object written and whether that root is fresh
                  (constructed or deep-copied inside the function) or derived from a parameter
"""
import ast
import os
import sys


class FactsError(Exception):
    pass


def parse(path):
    return ast.parse(open(path, encoding="utf-8").read(), path)


def find_func(mod, name, cls=None):
    body = mod.body
    if cls:
        for n in body:
            if isinstance(n, ast.ClassDef) and n.name == cls:
                body = n.body
                break
        else:
            raise FactsError("class %s not found" % cls)
    for n in body:
        if isinstance(n, ast.FunctionDef) and n.name == name:
            return n
    raise FactsError("function %s not found" % name)


def strip_doc(body):
    if body and isinstance(body[0], ast.Expr) and isinstance(getattr(body[0], "value", None), ast.Constant) and isinstance(body[0].value.value, str):
        return body[1:]
    return body


# ----------------------------------------------------------------------------- tables
def func_table(aux):
    f = find_func(aux, "_func")
    out = []
    body = strip_doc(f.body)
    for st in body[:-1]:
        # if function.X(): return np.Y(_expression(arg))
        ok = (isinstance(st, ast.If) and not st.orelse and len(st.body) == 1 and isinstance(st.body[0], ast.Return)
              and isinstance(st.test, ast.Call) and isinstance(st.test.func, ast.Attribute)
              and isinstance(st.test.func.value, ast.Name) and st.test.func.value.id == "function" and not st.test.args)
        if not ok:
            raise FactsError("_func: unexpected statement at line %d" % st.lineno)
        r = st.body[0].value
        ok = (isinstance(r, ast.Call) and isinstance(r.func, ast.Attribute) and isinstance(r.func.value, ast.Name) and r.func.value.id == "np"
              and len(r.args) == 1 and ast.unparse(r.args[0]) == "_expression(arg)" and not r.keywords)
        if not ok:
            raise FactsError("_func: unexpected return at line %d: %s" % (st.lineno, ast.unparse(r)))
        out.append((st.test.func.attr, r.func.attr))
    if not isinstance(body[-1], ast.Raise):
        raise FactsError("_func does not end with raise")
    return out


def number_table(aux):
    f = find_func(aux, "_number")
    out = []
    body = strip_doc(f.body)
    for st in body[:-1]:
        ok = (isinstance(st, ast.If) and not st.orelse and len(st.body) == 1 and isinstance(st.body[0], ast.Return)
              and isinstance(st.test, ast.Call) and isinstance(st.test.func, ast.Attribute) and ast.unparse(st.test.func.value) == "number")
        if not ok:
            raise FactsError("_number: unexpected statement at line %d" % st.lineno)
        out.append((st.test.func.attr, ast.unparse(st.body[0].value)))
    return out


def dict_table(mod, name):
    for n in mod.body:
        if isinstance(n, ast.Assign) and len(n.targets) == 1 and isinstance(n.targets[0], ast.Name) and n.targets[0].id == name:
            if not isinstance(n.value, ast.Dict):
                raise FactsError("%s is not a dict literal" % name)
            return [(k.value, ast.unparse(v)) for k, v in zip(n.value.keys, n.value.values)]
    raise FactsError("%s not found" % name)


# ----------------------------------------------------------------------------- set iteration sites
SET_ATTRS = {"free_symbols", "modes"}
ORDER_FREE_CALLS = {"sorted", "set", "len", "frozenset", "bool", "any", "all", "min", "max", "sum"}


def set_sites(mods):
    """order-sensitive uses of set-valued expressions"""
    sites = []
    for fname, mod in mods:
        for fn, qual in walk_functions(mod):
            setnames = set()
            for node in ast.walk(fn):
                if isinstance(node, ast.Assign) and len(node.targets) == 1 and isinstance(node.targets[0], ast.Name):
                    v = node.value
                    if is_setexpr(v, setnames):
                        setnames.add(node.targets[0].id)
            parents = {}
            for node in ast.walk(fn):
                for ch in ast.iter_child_nodes(node):
                    parents[ch] = node
            for node in ast.walk(fn):
                if not is_setexpr(node, setnames):
                    continue
                par = parents.get(node)
                use = None
                if isinstance(par, ast.Call) and node in par.args and isinstance(par.func, ast.Name):
                    if par.func.id in ORDER_FREE_CALLS:
                        use = None
                    else:
                        use = par.func.id                    # list(..), zip(..), str(..), tuple(..), enumerate(..), dict(..)
                elif isinstance(par, (ast.For, ast.comprehension)) and par.iter is node:
                    use = "for"
                elif isinstance(par, ast.Starred):
                    use = "star"
                if use:
                    sites.append("%s:%s:%s(%s)" % (fname, qual, use, ast.unparse(node)))
    return sorted(set(sites))


SET_METHODS = {"union", "intersection", "difference", "symmetric_difference"}


def is_setexpr(node, setnames):
    if isinstance(node, ast.Attribute) and node.attr in SET_ATTRS:
        return True
    if isinstance(node, (ast.Set, ast.SetComp)):
        return True                                   # {a, b} and {f(x) for x in ...}
    if isinstance(node, ast.Call) and isinstance(node.func, ast.Name) and node.func.id in ("set", "frozenset"):
        return True
    if isinstance(node, ast.Call) and isinstance(node.func, ast.Attribute) and node.func.attr in SET_METHODS:
        return True
    if isinstance(node, ast.Name) and node.id in setnames:
        return True
    if isinstance(node, ast.BinOp) and isinstance(node.op, (ast.BitOr, ast.BitAnd, ast.Sub, ast.BitXor)) and (
            is_setexpr(node.left, setnames) or is_setexpr(node.right, setnames) or is_keysview(node.left) or is_keysview(node.right)):
        return True                                   # d.keys() - e.keys() is a plain set, too
    return False


def is_keysview(node):
    return isinstance(node, ast.Call) and isinstance(node.func, ast.Attribute) and node.func.attr in ("keys", "items") and not node.args


def walk_functions(mod):
    for n in mod.body:
        if isinstance(n, ast.FunctionDef):
            yield n, n.name
        elif isinstance(n, ast.ClassDef):
            for m in n.body:
                if isinstance(m, ast.FunctionDef):
                    yield m, "%s.%s" % (n.name, m.name)


# ----------------------------------------------------------------------------- clearing sites
def clear_sites(mods):
    out = []
    for fname, mod in mods:
        for fn, qual in walk_functions(mod):
            for node in ast.walk(fn):
                if isinstance(node, ast.Call) and isinstance(node.func, ast.Attribute) and node.func.attr == "clear" \
                        and isinstance(node.func.value, ast.Name) and node.func.value.id in ("_VAR", "_PARAMS"):
                    out.append("%s:%s:%s.clear" % (fname, qual, node.func.value.id))
    return sorted(out)


# ----------------------------------------------------------------------------- raise sites of the error listener
def raise_sites(err):
    f = find_func(err, "syntaxError", "BlackbirdErrorListener")
    sites = []
    bindings = {}
    for node in ast.walk(f):
        if isinstance(node, ast.Assign) and len(node.targets) == 1 and isinstance(node.targets[0], ast.Name):
            v = node.value
            if isinstance(v, ast.Constant) and isinstance(v.value, str):
                bindings.setdefault(node.targets[0].id, []).append(v.value)
    for node in ast.walk(f):
        if isinstance(node, ast.Raise):
            e = node.exc
            if not (isinstance(e, ast.Call) and isinstance(e.func, ast.Name)):
                raise FactsError("syntaxError: unexpected raise at line %d" % node.lineno)
            cls = e.func.id
            if len(e.args) != 1:
                raise FactsError("syntaxError: raise with %d arguments" % len(e.args))
            a = e.args[0]
            if not (isinstance(a, ast.Call) and isinstance(a.func, ast.Attribute) and a.func.attr == "format"):
                raise FactsError("syntaxError: message is not <fmt>.format(...) at line %d" % node.lineno)
            fmtnode = a.func.value
            if isinstance(fmtnode, ast.Constant):
                fmts = [fmtnode.value]
            elif isinstance(fmtnode, ast.Name) and fmtnode.id in bindings:
                fmts = bindings[fmtnode.id]
            else:
                raise FactsError("syntaxError: unknown format at line %d" % node.lineno)
            prefix_ok = all(s.startswith("Blackbird SyntaxError (line {}:{})") for s in fmts)
            args = [ast.unparse(x) for x in a.args[:2]]
            sites.append((cls, prefix_ok, args[0] if args else "", args[1] if len(args) > 1 else ""))
    last = f.body[-1]
    falls = not isinstance(last, ast.Raise)
    return sites, falls


# ----------------------------------------------------------------------------- write footprints
MUTATORS = {"append", "extend", "insert", "update", "clear", "pop", "remove", "add", "discard", "setdefault", "sort", "reverse",
            "popitem", "add_node", "add_edge", "add_nodes_from", "add_edges_from", "write"}
FRESH_CALLS = {"deepcopy", "list", "dict", "set", "tuple", "DiGraph", "Command", "array", "format", "join", "str", "sorted",
               "lambdify", "solve", "float", "int", "DiGraphMatcher", "enumerate", "zip", "range", "items", "data", "nodes",
               "to_DiGraph", "_asdict", "BlackbirdProgram", "ndindex", "numpy_to_blackbird", "_format_value", "_instantiate"}


def root_of(node):
    while isinstance(node, (ast.Subscript, ast.Attribute)):
        node = node.value
    if isinstance(node, ast.Call):
        return root_of(node.func) if isinstance(node.func, ast.Attribute) else None
    return node.id if isinstance(node, ast.Name) else None


def footprints_of(fn, qual):
    """(function, written root, fresh?) for every store write in fn (nested helper functions included)"""
    params = {a.arg for a in fn.args.args + fn.args.kwonlyargs}
    if fn.args.vararg:
        params.add(fn.args.vararg.arg)
    if fn.args.kwarg:
        params.add(fn.args.kwarg.arg)
    tainted = set(params)
    fresh = set()

    def expr_fresh(v):
        if isinstance(v, (ast.List, ast.Dict, ast.Set, ast.Tuple, ast.Constant, ast.ListComp, ast.DictComp, ast.SetComp, ast.JoinedStr, ast.BinOp, ast.Compare, ast.BoolOp, ast.UnaryOp)):
            return True
        if isinstance(v, ast.Call):
            f = v.func
            nm = f.attr if isinstance(f, ast.Attribute) else (f.id if isinstance(f, ast.Name) else None)
            if nm in FRESH_CALLS:
                return True
            return False
        return False

    def expr_tainted(v):
        r = root_of(v)
        return r in tainted if r is not None else False

    # fixed point over assignments and loop targets
    changed = True
    while changed:
        changed = False
        for node in ast.walk(fn):
            targets, value = [], None
            if isinstance(node, ast.Assign):
                targets, value = node.targets, node.value
            elif isinstance(node, (ast.For, ast.comprehension)):
                targets, value = [node.target], node.iter
            for t in targets:
                names = [n.id for n in ast.walk(t) if isinstance(n, ast.Name)] if not isinstance(t, (ast.Subscript, ast.Attribute)) else []
                for nm in names:
                    if value is not None and expr_fresh(value) and not isinstance(node, (ast.For, ast.comprehension)):
                        if nm not in fresh and nm not in params:
                            fresh.add(nm)
                            changed = True
                    elif value is not None:
                        r = root_of(value)
                        # iteration over / alias of something: inherits its status
                        src_fresh = (r in fresh and r not in tainted) or (isinstance(value, ast.Call) and expr_fresh(value) and all(
                            (root_of(a) in fresh or root_of(a) is None) for a in value.args))
                        if r is not None and r in tainted and nm not in tainted and not src_fresh:
                            tainted.add(nm)
                            changed = True
                        elif src_fresh and nm not in fresh and nm not in tainted:
                            fresh.add(nm)
                            changed = True
    out = []
    for node in ast.walk(fn):
        written = []
        if isinstance(node, (ast.Assign, ast.AugAssign, ast.AnnAssign)):
            ts = node.targets if isinstance(node, ast.Assign) else [node.target]
            for t in ts:
                if isinstance(t, (ast.Subscript, ast.Attribute)):
                    written.append(t)
                if isinstance(node, ast.AugAssign) and isinstance(t, ast.Name):
                    written.append(t)
        elif isinstance(node, ast.Delete):
            for t in node.targets:
                if isinstance(t, (ast.Subscript, ast.Attribute)):
                    written.append(t)
        elif isinstance(node, ast.Call) and isinstance(node.func, ast.Attribute) and node.func.attr in MUTATORS:
            written.append(node.func.value)
        for w in written:
            r = root_of(w)
            if r is None:
                out.append((qual, ast.unparse(w), False))
            else:
                is_fresh = r in fresh and r not in tainted
                out.append((qual, r, is_fresh))
    return sorted(set(out))


# ----------------------------------------------------------------------------- emission
def cs(s):
    out = []
    for ch in s:
        if ch == '"':
            out.append('""')
        elif 32 <= ord(ch) < 127:
            out.append(ch)
        else:
            out.append("?")
    return '"' + "".join(out) + '"'


def main():
    repo, dst = sys.argv[1], sys.argv[2]
    base = os.path.join(repo, "blackbird_python", "blackbird")
    aux = parse(os.path.join(base, "auxiliary.py"))
    lis = parse(os.path.join(base, "listener.py"))
    prg = parse(os.path.join(base, "program.py"))
    utl = parse(os.path.join(base, "utils.py"))
    err = parse(os.path.join(base, "error.py"))
    ini = parse(os.path.join(base, "__init__.py"))
    mods = [("auxiliary.py", aux), ("listener.py", lis), ("program.py", prg), ("utils.py", utl), ("__init__.py", ini)]
    L = ["(* GENERATED by translators/facts_from_py.py from the Python sources. Do not edit. *)",
         "From Coq Require Import List String.", "Import ListNotations.", "Local Open Scope string_scope.", ""]
    ft = func_table(aux)
    L.append("Definition func_table : list (string * string) := [%s]." % "; ".join("(%s, %s)" % (cs(a), cs(b)) for a, b in ft))
    nt = number_table(aux)
    L.append("Definition number_table : list (string * string) := [%s]." % "; ".join("(%s, %s)" % (cs(a), cs(b)) for a, b in nt))
    L.append("Definition python_types : list (string * string) := [%s]." % "; ".join("(%s, %s)" % (cs(a), cs(b)) for a, b in dict_table(lis, "PYTHON_TYPES")))
    L.append("Definition numpy_types : list (string * string) := [%s]." % "; ".join("(%s, %s)" % (cs(a), cs(b)) for a, b in dict_table(lis, "NUMPY_TYPES")))
    L.append("Definition set_sites : list string := [%s]." % "; ".join(cs(x) for x in set_sites(mods)))
    L.append("Definition clear_sites : list string := [%s]." % "; ".join(cs(x) for x in clear_sites(mods)))
    rs, falls = raise_sites(err)
    L.append("Definition raise_sites : list (string * bool * string * string) := [%s]." % "; ".join(
        "(%s, %s, %s, %s)" % (cs(c), "true" if ok else "false", cs(a), cs(b)) for c, ok, a, b in rs))
    L.append("Definition syntax_error_falls_through : bool := %s." % ("true" if falls else "false"))
    fps = []
    for name, cls, mod in [("serialize", "BlackbirdProgram", prg), ("__call__", "BlackbirdProgram", prg), ("is_template", "BlackbirdProgram", prg),
                           ("__len__", "BlackbirdProgram", prg), ("name", "BlackbirdProgram", prg), ("version", "BlackbirdProgram", prg),
                           ("modes", "BlackbirdProgram", prg), ("target", "BlackbirdProgram", prg), ("programtype", "BlackbirdProgram", prg),
                           ("operations", "BlackbirdProgram", prg), ("parameters", "BlackbirdProgram", prg), ("variables", "BlackbirdProgram", prg),
                           ("to_DiGraph", None, utl), ("match_template", None, utl), ("dumps", None, ini), ("numpy_to_blackbird", None, prg),
                           ("_format_value", None, prg)]:
        try:
            fn = find_func(mod, name, cls)
        except FactsError:
            if name in ("_format_value",):
                continue
            raise
        fps += footprints_of(fn, name)
    L.append("Definition footprints : list (string * string * bool) := [%s]." % "; ".join(
        "(%s, %s, %s)" % (cs(f), cs(r), "true" if fr else "false") for f, r, fr in fps))
    L.append("")
    open(dst, "w").write("\n".join(L))


if __name__ == "__main__":
    try:
        main()
    except (FactsError, OSError, SyntaxError, ValueError) as e:
        print("FactsError: %s" % e, file=sys.stderr)
        sys.exit(2)
