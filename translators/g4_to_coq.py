#!/usr/bin/env python3
"""T1: translate src/blackbird.g4 into coq/gen/G4Data.v (fail-closed).

Reads the ANTLR4 subset the grammar uses: parser rules, lexer rules, fragments, 'literals' with
escapes, [..] sets with ranges/escapes, ~set, '.', ?, *, +, |, parentheses, labels x+=, #Label,
<assoc=right>, -> skip, // and /* */ comments.  Anything else raises G4Error (the tie is broken).

Lexer rule bodies keep references to fragments / other lexer rules as Ref; the Coq recogniser
resolves them through lex_g.  The (directly) left-recursive parser rule is emitted in loop form
  A := (PRE* PRIM) (BIN (PRE* PRIM))*
and its alternatives (kind, operator tokens, associativity) are recorded so that the precedence
table can be recomputed in Coq.  The same module exports the grammar as a Python structure
(used by the harness generators), so generator and model read the grammar the same way.
"""
import os
import re
import sys


class G4Error(Exception):
    pass


# ----------------------------------------------------------------------------- tokenizer
TOKEN_RE = re.compile(r"""
    (?P<ws>\s+)
  | (?P<lcomment>//[^\n]*)
  | (?P<bcomment>/\*.*?\*/)
  | (?P<lit>'(?:\\.|[^'\\])*')
  | (?P<set>\[(?:\\.|[^\]\\])*\])
  | (?P<arrow>->)
  | (?P<pluseq>\+=)
  | (?P<opt><[^>]*>)
  | (?P<id>[A-Za-z_][A-Za-z_0-9]*)
  | (?P<punct>[:;|()?*+~.\#=])
""", re.X | re.S)


def tokenize(text):
    pos = 0
    out = []
    while pos < len(text):
        m = TOKEN_RE.match(text, pos)
        if not m:
            raise G4Error("cannot tokenize grammar at offset %d: %r" % (pos, text[pos:pos + 20]))
        kind = m.lastgroup
        if kind not in ("ws", "lcomment", "bcomment"):
            out.append((kind, m.group()))
        pos = m.end()
    return out


ESC = {"n": "\n", "r": "\r", "t": "\t", "\\": "\\", "'": "'", "]": "]", "-": "-", '"': '"', "f": "\f", "b": "\b"}


def unescape(s):
    out = []
    i = 0
    while i < len(s):
        c = s[i]
        if c == "\\":
            i += 1
            if i >= len(s):
                raise G4Error("dangling escape")
            e = s[i]
            if e == "u":
                out.append(chr(int(s[i + 1:i + 5], 16)))
                i += 4
            elif e in ESC:
                out.append(ESC[e])
            else:
                raise G4Error("unknown escape \\%s" % e)
        else:
            out.append(c)
        i += 1
    return out


def parse_set(body):
    """[..] body -> list of (lo, hi) code point ranges"""
    # keep track of which chars were escaped so that '-' escaped is literal
    items = []
    i = 0
    while i < len(body):
        c = body[i]
        if c == "\\":
            ch = unescape(body[i:i + 2] if body[i + 1] != "u" else body[i:i + 6])[0]
            i += 2 if body[i + 1] != "u" else 6
            items.append((ch, True))
        else:
            items.append((c, False))
            i += 1
    ranges = []
    k = 0
    while k < len(items):
        ch, _ = items[k]
        if k + 2 < len(items) and items[k + 1] == ("-", False):
            hi = items[k + 2][0]
            if ord(hi) < ord(ch):
                raise G4Error("bad range")
            ranges.append((ord(ch), ord(hi)))
            k += 3
        else:
            ranges.append((ord(ch), ord(ch)))
            k += 1
    return ranges


# ----------------------------------------------------------------------------- grammar AST
# ("tok", name) ("ref", name) ("lit", [chars]) ("set", neg, ranges) ("eps",) ("seq", [..]) ("alt", [..])
# ("star", x) ("plus", x) ("opt", x)

class Parser:
    def __init__(self, toks):
        self.t = toks
        self.i = 0

    def peek(self):
        return self.t[self.i] if self.i < len(self.t) else ("eof", "")

    def eat(self, kind=None, val=None):
        k, v = self.peek()
        if (kind and k != kind) or (val is not None and v != val):
            raise G4Error("expected %s %s, got %s %r" % (kind, val, k, v))
        self.i += 1
        return v

    def grammar(self):
        self.eat("id", "grammar")
        name = self.eat("id")
        self.eat("punct", ";")
        rules = []
        while self.peek()[0] != "eof":
            rules.append(self.rule())
        return name, rules

    def rule(self):
        frag = False
        if self.peek() == ("id", "fragment"):
            self.eat()
            frag = True
        name = self.eat("id")
        self.eat("punct", ":")
        alts = self.alternatives(top=True)
        skip = False
        if self.peek()[0] == "arrow":
            self.eat()
            cmd = self.eat("id")
            if cmd != "skip":
                raise G4Error("unsupported lexer command %s" % cmd)
            skip = True
        self.eat("punct", ";")
        return {"name": name, "fragment": frag, "alts": alts, "skip": skip}

    def alternatives(self, top=False):
        alts = [self.alternative(top)]
        while self.peek() == ("punct", "|"):
            self.eat()
            alts.append(self.alternative(top))
        return alts

    def alternative(self, top):
        """returns dict(elems=[..], label=?, assoc=?)"""
        assoc = None
        elems = []
        label = None
        if self.peek()[0] == "opt":
            o = self.eat()
            if o.replace(" ", "") != "<assoc=right>":
                raise G4Error("unsupported option %s" % o)
            assoc = "right"
        while True:
            k, v = self.peek()
            if k in ("eof",) or (k == "punct" and v in ";|)") or k == "arrow":
                break
            if k == "punct" and v == "#":
                if not top:
                    raise G4Error("label inside sub-rule")
                self.eat()
                label = self.eat("id")
                break
            elems.append(self.element())
        return {"elems": elems, "label": label, "assoc": assoc}

    def element(self):
        k, v = self.peek()
        if k == "id":
            self.eat()
            k2, v2 = self.peek()
            if k2 == "pluseq" or (k2 == "punct" and v2 == "="):
                # label: x+=atom or x=atom
                self.eat()
                atom = self.atom()
            else:
                atom = ("ref", v)
        else:
            atom = self.atom()
        return self.suffix(atom)

    def atom(self):
        k, v = self.peek()
        if k == "id":
            self.eat()
            return ("ref", v)
        if k == "lit":
            self.eat()
            return ("lit", unescape(v[1:-1]))
        if k == "set":
            self.eat()
            return ("set", False, parse_set(v[1:-1]))
        if k == "punct" and v == ".":
            self.eat()
            return ("set", True, [])
        if k == "punct" and v == "~":
            self.eat()
            inner = self.atom()
            if inner[0] == "set" and not inner[1]:
                return ("set", True, inner[2])
            if inner[0] == "lit" and len(inner[1]) == 1:
                return ("set", True, [(ord(inner[1][0]), ord(inner[1][0]))])
            raise G4Error("unsupported ~ operand")
        if k == "punct" and v == "(":
            self.eat()
            alts = self.alternatives()
            self.eat("punct", ")")
            for a in alts:
                if a["label"] or a["assoc"]:
                    raise G4Error("label/assoc in sub-rule")
            return ("alt", [("seq", a["elems"]) for a in alts])
        raise G4Error("unexpected %s %r" % (k, v))

    def suffix(self, atom):
        while True:
            k, v = self.peek()
            if k == "punct" and v == "?":
                self.eat()
                atom = ("opt", atom)
            elif k == "punct" and v == "*":
                self.eat()
                atom = ("star", atom)
            elif k == "punct" and v == "+":
                self.eat()
                atom = ("plus", atom)
            else:
                return atom


def read_grammar(path):
    text = open(path, encoding="utf-8").read()
    name, rules = Parser(tokenize(text)).grammar()
    lex = [r for r in rules if r["name"][0].isupper()]
    par = [r for r in rules if not r["name"][0].isupper()]
    names = [r["name"] for r in rules]
    if len(set(names)) != len(names):
        raise G4Error("duplicate rule")
    for r in par:
        if r["skip"] or r["fragment"]:
            raise G4Error("parser rule with lexer attributes")
    return {"name": name, "lexer": lex, "parser": par}


# ----------------------------------------------------------------------------- normal form
def simp(e):
    """flatten singleton seq/alt"""
    if e[0] == "seq":
        xs = [simp(x) for x in e[1]]
        if len(xs) == 1:
            return xs[0]
        if not xs:
            return ("eps",)
        return ("seq", xs)
    if e[0] == "alt":
        xs = [simp(x) for x in e[1]]
        if len(xs) == 1:
            return xs[0]
        return ("alt", xs)
    if e[0] in ("star", "plus", "opt"):
        return (e[0], simp(e[1]))
    return e


def grammar_model(g):
    """Returns the structure used both for Coq emission and by the Python generators."""
    lex = g["lexer"]
    par = g["parser"]
    lex_index = {r["name"]: i for i, r in enumerate(lex)}
    # token types: non-fragment lexer rules in order, numbered from 1 (ANTLR numbering when the grammar has
    # no implicit literal tokens and no tokens{} section)
    ttypes = {}
    n = 0
    for r in lex:
        if not r["fragment"]:
            n += 1
            ttypes[r["name"]] = n
    par_index = {r["name"]: i for i, r in enumerate(par)}

    def lex_body(e):
        k = e[0]
        if k == "ref":
            if e[1] not in lex_index:
                raise G4Error("lexer rule references unknown rule %s" % e[1])
            return ("ref", lex_index[e[1]])
        if k == "lit":
            if not e[1]:
                raise G4Error("empty literal")
            return simp(("seq", [("set", False, [(ord(c), ord(c))]) for c in e[1]]))
        if k == "set":
            return e
        if k == "eps":
            return e
        if k in ("seq", "alt"):
            return (k, [lex_body(x) for x in e[1]])
        if k in ("star", "plus", "opt"):
            return (k, lex_body(e[1]))
        raise G4Error("bad lexer element %r" % (e,))

    def par_body(e):
        k = e[0]
        if k == "ref":
            nm = e[1]
            if nm == "EOF":
                return ("tok", 0)
            if nm in ttypes:
                return ("tok", ttypes[nm])
            if nm in par_index:
                return ("ref", par_index[nm])
            raise G4Error("parser rule references unknown symbol %s" % nm)
        if k in ("lit", "set"):
            raise G4Error("literal or set in a parser rule is not supported")
        if k == "eps":
            return e
        if k in ("seq", "alt"):
            return (k, [par_body(x) for x in e[1]])
        if k in ("star", "plus", "opt"):
            return (k, par_body(e[1]))
        raise G4Error("bad parser element %r" % (e,))

    lex_rules = []
    for r in lex:
        if any(a["label"] or a["assoc"] for a in r["alts"]):
            raise G4Error("label in lexer rule")
        body = simp(("alt", [("seq", a["elems"]) for a in r["alts"]]))
        lex_rules.append({"name": r["name"], "fragment": r["fragment"], "skip": r["skip"],
                          "ttype": ttypes.get(r["name"], 0), "body": lex_body(body),
                          "literal": literal_of(r)})

    par_rules = []
    lrec = None
    for r in par:
        me = r["name"]
        firsts = [a["elems"][0] if a["elems"] else None for a in r["alts"]]
        is_lrec = any(f == ("ref", me) for f in firsts)
        if not is_lrec:
            if any(a["assoc"] for a in r["alts"]):
                raise G4Error("assoc outside a left-recursive rule")
            body = simp(("alt", [("seq", a["elems"]) for a in r["alts"]]))
            par_rules.append({"name": me, "body": par_body(body), "lrec": None})
            continue
        if lrec is not None:
            raise G4Error("more than one left-recursive rule")
        alts = []
        nalt = len(r["alts"])
        for idx, a in enumerate(r["alts"]):
            el = a["elems"]
            prec = nalt - idx          # ANTLR: precedence of the i-th of n alternatives is n-i+1 (1-based i)
            if el and el[0] == ("ref", me):
                if len(el) == 3 and el[2] == ("ref", me):
                    kind = "binary"
                    op = par_body(simp(el[1]))
                elif len(el) >= 2 and el[-1] != ("ref", me):
                    raise G4Error("suffix operators are not supported")
                else:
                    raise G4Error("unsupported left-recursive alternative")
                alts.append({"kind": kind, "op": op, "prec": prec, "assoc": a["assoc"] or "left", "label": a["label"]})
            elif el and el[-1] == ("ref", me) and len(el) == 2:
                alts.append({"kind": "prefix", "op": par_body(simp(el[0])), "prec": prec, "assoc": None, "label": a["label"]})
                if a["assoc"]:
                    raise G4Error("assoc on prefix alternative")
            else:
                if a["assoc"]:
                    raise G4Error("assoc on primary alternative")
                alts.append({"kind": "primary", "body": par_body(simp(("seq", el))), "prec": prec, "assoc": None, "label": a["label"]})
        prims = [a["body"] for a in alts if a["kind"] == "primary"]
        pres = [a["op"] for a in alts if a["kind"] == "prefix"]
        bins = [a["op"] for a in alts if a["kind"] == "binary"]
        if not prims:
            raise G4Error("left-recursive rule without primary alternative")
        prim = simp(("alt", prims))
        unit = ("seq", [("star", simp(("alt", pres))), prim]) if pres else prim
        body = ("seq", [unit, ("star", ("seq", [simp(("alt", bins)), unit]))]) if bins else unit
        lrec = {"rule": me, "alts": alts}
        par_rules.append({"name": me, "body": body, "lrec": alts,
                          "lrec_parts": {"prim": prim, "pre": simp(("alt", pres)) if pres else None,
                                         "bin": simp(("alt", bins)) if bins else None}})

    # desugar plus/opt
    def desugar(e):
        k = e[0]
        if k in ("seq", "alt"):
            return (k, [desugar(x) for x in e[1]])
        if k == "star":
            return ("star", desugar(e[1]))
        if k == "plus":
            d = desugar(e[1])
            return ("seq", [d, ("star", d)])
        if k == "opt":
            return ("alt", [("eps",), desugar(e[1])])
        return e

    for r in lex_rules:
        r["body"] = desugar(r["body"])
    for r in par_rules:
        r["body"] = desugar(r["body"])
        if r.get("lrec_parts"):
            r["lrec_parts"] = {k: (desugar(v) if v is not None else None) for k, v in r["lrec_parts"].items()}
    return {"lex": lex_rules, "par": par_rules, "ttypes": ttypes, "start": par_index.get("start", 0)}


def literal_of(r):
    """for `X : 'lit';` rules return the literal text (as in the .tokens file), else None"""
    if len(r["alts"]) == 1 and len(r["alts"][0]["elems"]) == 1 and r["alts"][0]["elems"][0][0] == "lit":
        return "".join(r["alts"][0]["elems"][0][1])
    return None


# ----------------------------------------------------------------------------- Coq emission
def coq_string(s):
    out = []
    for ch in s:
        if ch == '"':
            out.append('""')
        elif 32 <= ord(ch) < 127:
            out.append(ch)
        else:
            raise G4Error("non printable character in a name/literal: %r" % ch)
    return '"' + "".join(out) + '"'


def coq_ebnf(e, tokfmt):
    k = e[0]
    if k == "tok":
        return "(Tok %s)" % tokfmt(e)
    if k == "set":
        return "(Tok %s)" % tokfmt(e)
    if k == "ref":
        return "(Ref %d)" % e[1]
    if k == "eps":
        return "Eps"
    if k in ("seq", "alt"):
        xs = e[1]
        if not xs:
            if k == "seq":
                return "Eps"
            raise G4Error("empty alternative list")
        ctor = "Seq" if k == "seq" else "Alt"
        s = coq_ebnf(xs[-1], tokfmt)
        for x in reversed(xs[:-1]):
            s = "(%s %s %s)" % (ctor, coq_ebnf(x, tokfmt), s)
        return s
    if k == "star":
        return "(Star %s)" % coq_ebnf(e[1], tokfmt)
    raise G4Error("cannot emit %r" % (e,))


def fmt_cset(e):
    neg, ranges = e[1], e[2]
    return "(mkcs %s [%s])" % ("true" if neg else "false", "; ".join("(%d,%d)%%N" % r for r in ranges))


def fmt_tok(e):
    return "%d" % e[1]


def emit(model, src_sha):
    L = []
    A = L.append
    A("(* GENERATED by translators/g4_to_coq.py from src/blackbird.g4 (sha256 %s). Do not edit. *)" % src_sha)
    A("From Coq Require Import List NArith String.")
    A("Import ListNotations.")
    A("From BB Require Import Ebnf Chars.")
    A("Local Open Scope string_scope.")
    A("")
    A("Definition lex_rule_names : list string := [%s]." % "; ".join(coq_string(r["name"]) for r in model["lex"]))
    A("Definition lex_g (r:nat) : ebnf cset :=\n  match r with")
    for i, r in enumerate(model["lex"]):
        A("  | %d => %s" % (i, coq_ebnf(r["body"], fmt_cset)))
    A("  | _ => Alt Eps Eps\n  end.")
    A("(* (rule index, token type, skip) for the non-fragment rules, in grammar order *)")
    A("Definition lex_rules : list (nat * nat * bool) := [%s]." % "; ".join(
        "(%d, %d, %s)" % (i, r["ttype"], "true" if r["skip"] else "false")
        for i, r in enumerate(model["lex"]) if not r["fragment"]))
    A("Definition token_names : list (nat * string) := [%s]." % "; ".join(
        "(%d, %s)" % (r["ttype"], coq_string(r["name"])) for r in model["lex"] if not r["fragment"]))
    A("Definition token_literals : list (nat * string) := [%s]." % "; ".join(
        "(%d, %s)" % (r["ttype"], coq_string(r["literal"])) for r in model["lex"]
        if not r["fragment"] and r["literal"] is not None))
    A("")
    A("Definition parser_rule_names : list string := [%s]." % "; ".join(coq_string(r["name"]) for r in model["par"]))
    lrec_idx = None
    for i, r in enumerate(model["par"]):
        if r.get("lrec_parts"):
            lp = r["lrec_parts"]
            if lp["pre"] is None or lp["bin"] is None:
                raise G4Error("left-recursive rule without prefix or binary alternatives is not supported")
            lrec_idx = i
            A("(* the directly left-recursive rule  A : prim | pre A | A bin A  of the grammar file ... *)")
            A("Definition lrec_prim : ebnf nat := %s." % coq_ebnf(lp["prim"], fmt_tok))
            A("Definition lrec_pre : ebnf nat := %s." % coq_ebnf(lp["pre"], fmt_tok))
            A("Definition lrec_bin : ebnf nat := %s." % coq_ebnf(lp["bin"], fmt_tok))
    A("(* the grammar with the left-recursive rule in loop form (what the executable recogniser runs on) *)")
    A("Definition pg (r:nat) : ebnf nat :=\n  match r with")
    for i, r in enumerate(model["par"]):
        if i == lrec_idx:
            A("  | %d => Seq (Seq (Star lrec_pre) lrec_prim) (Star (Seq lrec_bin (Seq (Star lrec_pre) lrec_prim)))" % i)
        else:
            A("  | %d => %s" % (i, coq_ebnf(r["body"], fmt_tok)))
    A("  | _ => Alt Eps Eps\n  end.")
    if lrec_idx is not None:
        A("(* the grammar as written: the rule is left-recursive; proofs/GrammarP.v shows both derive the same words *)")
        A("Definition pg_lr (r:nat) : ebnf nat :=\n  match r with")
        A("  | %d => Alt lrec_prim (Alt (Seq lrec_pre (Ref %d)) (Seq (Ref %d) (Seq lrec_bin (Ref %d))))" % (lrec_idx, lrec_idx, lrec_idx, lrec_idx))
        A("  | r' => pg r'\n  end.")
    A("Definition parser_rule_count : nat := %d." % len(model["par"]))
    A("Definition start_rule : nat := %d." % model["start"])
    # precedence table of the left-recursive rule: (kind, operator tokens, precedence, right-assoc)
    for i, r in enumerate(model["par"]):
        if r["lrec"] is not None:
            A("Definition lrec_rule : nat := %d." % i)
            rows = []
            for a in r["lrec"]:
                kind = {"primary": 0, "prefix": 1, "binary": 2}[a["kind"]]
                ops = sorted(tok_set(a["op"])) if a["kind"] != "primary" else []
                rows.append("(%d, [%s], %d, %s)" % (kind, "; ".join(map(str, ops)), a["prec"],
                                                    "true" if a["assoc"] == "right" else "false"))
            A("(* (kind 0=primary 1=prefix 2=binary, operator token types, precedence, right-assoc) *)")
            A("Definition lrec_alts : list (nat * list nat * nat * bool) := [%s]." % "; ".join(rows))
    A("")
    return "\n".join(L)


def tok_set(e):
    if e[0] == "tok":
        return {e[1]}
    if e[0] in ("alt", "seq"):
        s = set()
        for x in e[1]:
            s |= tok_set(x)
        return s
    raise G4Error("operator is not a token set: %r" % (e,))


def main():
    import hashlib
    src, dst = sys.argv[1], sys.argv[2]
    if os.path.isdir(src):
        src = os.path.join(src, "src", "blackbird.g4")
    sha = hashlib.sha256(open(src, "rb").read()).hexdigest()
    text = emit(grammar_model(read_grammar(src)), sha)
    try:
        if open(dst).read() == text:
            return
    except OSError:
        pass
    open(dst, "w").write(text)


if __name__ == "__main__":
    try:
        main()
    except (G4Error, OSError, ValueError) as e:
        print("G4Error: %s" % e, file=sys.stderr)
        sys.exit(2)
