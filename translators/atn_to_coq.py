#!/usr/bin/env python3
"""T2: extract the generated artefacts of both targets into coq/gen/AtnData.v (fail-closed).

  * serialized ATNs: Python `serializedATN()` (lexer, parser), C++ `serializedATNSegment*` arrays (lexer, parser),
    the `atn:` line of the four .interp files;
  * the four .tokens files as (name-or-literal, number) lists;
  * literalNames / symbolicNames / ruleNames of the Python and C++ lexer and parser and of the .interp files.
Pure extraction of integers and strings; no interpretation happens here.
"""
import ast
import json
import os
import re
import sys


class AtnError(Exception):
    pass


def py_module(path):
    return ast.parse(open(path, encoding="utf-8").read(), path)


def py_atn(path):
    mod = py_module(path)
    for node in mod.body:
        if isinstance(node, ast.FunctionDef) and node.name == "serializedATN":
            parts = []
            for sub in ast.walk(node):
                if isinstance(sub, ast.Call) and isinstance(sub.func, ast.Attribute) and sub.func.attr == "write":
                    if len(sub.args) != 1 or not isinstance(sub.args[0], ast.Constant) or not isinstance(sub.args[0].value, str):
                        raise AtnError("unexpected buf.write argument in %s" % path)
                    parts.append((sub.lineno, sub.col_offset, sub.args[0].value))
            parts.sort()
            return [ord(c) for _, _, s in parts for c in s]
    raise AtnError("no serializedATN() in %s" % path)


def py_names(path, classname):
    mod = py_module(path)
    out = {}
    for node in mod.body:
        if isinstance(node, ast.ClassDef) and node.name == classname:
            for st in node.body:
                if isinstance(st, ast.Assign) and len(st.targets) == 1 and isinstance(st.targets[0], ast.Name):
                    nm = st.targets[0].id
                    if nm in ("literalNames", "symbolicNames", "ruleNames"):
                        if not isinstance(st.value, ast.List):
                            raise AtnError("%s.%s is not a list literal" % (classname, nm))
                        vals = []
                        for e in st.value.elts:
                            if not (isinstance(e, ast.Constant) and isinstance(e.value, str)):
                                raise AtnError("%s.%s has a non-literal element" % (classname, nm))
                            vals.append(e.value)
                        out[nm] = vals
    for k in ("literalNames", "symbolicNames", "ruleNames"):
        if k not in out:
            raise AtnError("%s lacks %s" % (path, k))
    return out


def cpp_atn(path):
    src = open(path, encoding="utf-8").read()
    segs = re.findall(r"static const uint16_t serializedATNSegment(\d+)\[\]\s*=\s*\{(.*?)\};", src, re.S)
    if not segs:
        raise AtnError("no serializedATNSegment in %s" % path)
    segs.sort(key=lambda s: int(s[0]))
    if [int(s[0]) for s in segs] != list(range(len(segs))):
        raise AtnError("segment numbering")
    # the insert calls must mention every segment once, in order
    ins = [int(x) for x in re.findall(r"_serializedATN\.insert\(_serializedATN\.end\(\),\s*serializedATNSegment(\d+),", src)]
    if ins != list(range(len(segs))):
        raise AtnError("segments are not appended in order in %s" % path)
    out = []
    for _, body in segs:
        for tok in body.replace("\n", " ").split(","):
            tok = tok.strip()
            if tok:
                out.append(int(tok, 0))
    return out


def c_strings(body):
    vals = []
    for m in re.finditer(r'"((?:\\.|[^"\\])*)"', body):
        s = m.group(1)
        s = re.sub(r"\\(.)", lambda mm: {"n": "\n", "t": "\t", "\\": "\\", '"': '"', "'": "'"}.get(mm.group(1), mm.group(1)), s)
        vals.append(s)
    return vals


def cpp_names(path, classname):
    src = open(path, encoding="utf-8").read()
    out = {}
    for key, cname in (("ruleNames", "_ruleNames"), ("literalNames", "_literalNames"), ("symbolicNames", "_symbolicNames")):
        m = re.search(r"std::vector<std::string>\s+%s::%s\s*=\s*\{(.*?)\};" % (classname, cname), src, re.S)
        if not m:
            raise AtnError("%s lacks %s" % (path, cname))
        out[key] = c_strings(m.group(1))
    return out


def interp(path):
    lines = open(path, encoding="utf-8").read().split("\n")
    sections = {}
    cur = None
    for ln in lines:
        if ln.endswith(":") and ln[:-1] in ("token literal names", "token symbolic names", "rule names", "channel names",
                                            "mode names", "atn"):
            cur = ln[:-1]
            sections[cur] = []
        elif cur is not None:
            sections[cur].append(ln)
    if "atn" not in sections:
        raise AtnError("no atn section in %s" % path)
    atn = json.loads("".join(sections["atn"]))

    def clean(xs):
        while xs and xs[-1] == "":
            xs = xs[:-1]
        return xs
    return {"atn": atn,
            "literalNames": clean(sections.get("token literal names", [])),
            "symbolicNames": clean(sections.get("token symbolic names", [])),
            "ruleNames": clean(sections.get("rule names", []))}


def tokens_file(path):
    out = []
    for ln in open(path, encoding="utf-8").read().split("\n"):
        if not ln:
            continue
        k, _, v = ln.rpartition("=")
        out.append((k, int(v)))
    return out


def norm_names(xs):
    """index 0 is the invalid type; '<INVALID>', '' and 'null' all mean 'no name'"""
    return ["" if x in ("<INVALID>", "null", "") else x for x in xs[1:]]


def coq_string(s):
    out = []
    for ch in s:
        if ch == '"':
            out.append('""')
        elif 32 <= ord(ch) < 127:
            out.append(ch)
        else:
            raise AtnError("non printable character in a name: %r" % s)
    return '"' + "".join(out) + '"'


def nlist(name, xs):
    body = "; ".join(str(x) for x in xs)
    return "Definition %s : list N := [%s]%%N." % (name, body)


def slist(name, xs):
    return "Definition %s : list string := [%s]." % (name, "; ".join(coq_string(x) for x in xs))


def tlist(name, xs):
    return "Definition %s : list (string * N) := [%s]." % (name, "; ".join("(%s, %d%%N)" % (coq_string(k), v) for k, v in xs))


def predict_sites(path):
    """(state set before the call, decision number) for every adaptivePredict call of the generated Python parser"""
    state, sites = None, []
    for ln in open(path, encoding="utf-8").read().split("\n"):
        m = re.search(r"self\.state = (\d+)", ln)
        if m:
            state = int(m.group(1))
        m = re.search(r"adaptivePredict\(self\._input,\s*(\d+),", ln)
        if m:
            if state is None:
                raise AtnError("adaptivePredict before any self.state assignment in %s" % path)
            sites.append((state, int(m.group(1))))
    if not sites:
        raise AtnError("no adaptivePredict call found in %s" % path)
    return sites


def decision_states(words):
    """decision number -> (state number of the decision state, state number of its loop-back state or the same number),
    read from the serialized ATN with the ANTLR runtime's own deserialiser"""
    from antlr4.atn.ATNDeserializer import ATNDeserializer
    from antlr4.atn.ATNState import StarLoopEntryState
    atn = ATNDeserializer().deserialize("".join(chr(w) for w in words))
    out = []
    for s in atn.decisionToState:
        lb = s.loopBackState.stateNumber if isinstance(s, StarLoopEntryState) and s.loopBackState is not None else s.stateNumber
        out.append((s.stateNumber, lb))
    return out


def plist(name, xs):
    return "Definition %s : list (N * N) := [%s]%%N." % (name, "; ".join("(%d, %d)" % (a, b) for a, b in xs))


def main():
    repo, dst = sys.argv[1], sys.argv[2]
    py = os.path.join(repo, "blackbird_python", "blackbird")
    cpp = os.path.join(repo, "blackbird_cpp")
    L = ["(* GENERATED by translators/atn_to_coq.py from the generated artefacts of both targets. Do not edit. *)",
         "From Coq Require Import List NArith String.", "Import ListNotations.", "Local Open Scope string_scope.", ""]
    L.append(nlist("atn_lexer_py", py_atn(os.path.join(py, "blackbirdLexer.py"))))
    L.append(nlist("atn_parser_py", py_atn(os.path.join(py, "blackbirdParser.py"))))
    L.append(nlist("atn_lexer_cpp", cpp_atn(os.path.join(cpp, "blackbirdLexer.cpp"))))
    L.append(nlist("atn_parser_cpp", cpp_atn(os.path.join(cpp, "blackbirdParser.cpp"))))
    for tag, d in (("py", py), ("cpp", cpp)):
        il = interp(os.path.join(d, "blackbirdLexer.interp"))
        ip = interp(os.path.join(d, "blackbird.interp"))
        L.append(nlist("atn_lexer_interp_%s" % tag, il["atn"]))
        L.append(nlist("atn_parser_interp_%s" % tag, ip["atn"]))
        L.append(slist("interp_lexer_literals_%s" % tag, norm_names(il["literalNames"])))
        L.append(slist("interp_lexer_symbolic_%s" % tag, norm_names(il["symbolicNames"])))
        L.append(slist("interp_lexer_rules_%s" % tag, il["ruleNames"]))
        L.append(slist("interp_parser_literals_%s" % tag, norm_names(ip["literalNames"])))
        L.append(slist("interp_parser_symbolic_%s" % tag, norm_names(ip["symbolicNames"])))
        L.append(slist("interp_parser_rules_%s" % tag, ip["ruleNames"]))
        L.append(tlist("tokens_parser_%s" % tag, tokens_file(os.path.join(d, "blackbird.tokens"))))
        L.append(tlist("tokens_lexer_%s" % tag, tokens_file(os.path.join(d, "blackbirdLexer.tokens"))))
    pl = py_names(os.path.join(py, "blackbirdLexer.py"), "blackbirdLexer")
    pp = py_names(os.path.join(py, "blackbirdParser.py"), "blackbirdParser")
    cl = cpp_names(os.path.join(cpp, "blackbirdLexer.cpp"), "blackbirdLexer")
    cp = cpp_names(os.path.join(cpp, "blackbirdParser.cpp"), "blackbirdParser")
    for tag, lx, pr in (("py", pl, pp), ("cpp", cl, cp)):
        L.append(slist("lexer_literals_%s" % tag, norm_names(lx["literalNames"])))
        L.append(slist("lexer_symbolic_%s" % tag, norm_names(lx["symbolicNames"])))
        L.append(slist("lexer_rules_%s" % tag, lx["ruleNames"]))
        L.append(slist("parser_literals_%s" % tag, norm_names(pr["literalNames"])))
        L.append(slist("parser_symbolic_%s" % tag, norm_names(pr["symbolicNames"])))
        L.append(slist("parser_rules_%s" % tag, pr["ruleNames"]))
    # the generated Python parser calls adaptivePredict(decision) right after setting the state of that decision
    L.append(plist("py_predict_sites", predict_sites(os.path.join(py, "blackbirdParser.py"))))
    try:
        L.append(plist("atn_decision_states", decision_states(py_atn(os.path.join(py, "blackbirdParser.py")))))
    except AtnError:
        raise
    except Exception as e:  # noqa: BLE001
        raise AtnError("the parser ATN cannot be deserialised: %s" % e)
    L.append("")
    open(dst, "w").write("\n".join(L))


if __name__ == "__main__":
    try:
        main()
    except (AtnError, OSError, ValueError, SyntaxError) as e:
        print("AtnError: %s" % e, file=sys.stderr)
        sys.exit(2)
