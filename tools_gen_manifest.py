#!/usr/bin/env python3
"""Regenerates MANIFEST.json from the table below (kept in one place so that it stays valid)."""
import json

CLAIMED = {
    "C14": dict(
        technique="Coq proof (generic EBNF recogniser + maximal-munch lexer, sound and complete for the regenerated grammar; kernel-computed artefact identities) + differential correspondence Python lexer/parser vs extracted model",
        text="Theorems (Closed under the global context): lex_spec (the model lexer returns THE token sequence prescribed by blackbird.g4 for every string), recognise_correct (the model recogniser decides membership for every token sequence), ATN/.interp/.tokens/name-table identities between both targets and the grammar, on data regenerated from the working tree each run. The shipped Python lexer and parser are tied to these oracles by differential testing on generated strings/sentences/mutations. C++ target: artefact level only (partial).",
        note="Trusted: Coq kernel, translators T1/T2, extraction (ExtrOcamlBasic), OCaml driver, ANTLR runtime executing the ATN; the left-recursion rewrite of `expression` done by T1; C++ cannot be executed here.",
        ref="5 C14"),
}

LOADER_NOTE = ("Trusted: Coq kernel; translator T1; extraction (ExtrOcamlBasic) + OCaml driver; the differential harness and its "
               "generators; mpmath as numeric oracle with a forward error bound; numpy/sympy/ANTLR runtime modelled, not verified. "
               "The model's recursive-descent parser is tied to the grammar by the proved recogniser (per input) and to ANTLR by the differential.")

CLAIMED["C06"] = dict(
    technique="Coq proof (loop = textual unrolling, by a substitution lemma, over the executable loader model) + differential correspondence and metamorphic unrolling predicate on the implementation",
    text="Theorems (closed): loop_unroll (executing a for-loop equals executing its body once per value with the variable replaced by the cast value; equality of outcomes incl. refusals), range_sem/range_sem_neg (a:b:c = a, a+c, ... below b), empty ranges contribute nothing, the loop variable is unbound and the environment unchanged after the loop, statements after the loop are unaffected, bad listed values are refused. The model is tied to the code by loading every generated loop script with both and comparing programs, and by checking loop == unrolled text on the implementation itself.",
    note=LOADER_NOTE, ref="5 C06")

NOT_YET = {
}


def main():
    props = [json.loads(l) for l in open("properties.jsonl")]
    checks = []
    na = []
    for p in props:
        pid = p["id"]
        if pid in CLAIMED:
            c = CLAIMED[pid]
            checks.append({
                "property_id": pid,
                "quick_cmd": "./check %s --tier quick" % pid,
                "thorough_cmd": "./check %s --tier thorough" % pid,
                "evidence_file": "/verif/evidence/%s.json" % pid,
                "replay_cmd_template": "./check %s --replay {path}" % pid,
                "engine": "bbcoq",
                "level_claimed": {"category": "proof", "text": c["text"], "design_ref": c["ref"]},
                "level_note": c["note"],
                "technique": c["technique"],
            })
        else:
            na.append({"property_id": pid, "reason": NOT_YET.get(pid, "not yet built in this round: the Coq model layer this property needs is still under construction (see DESIGN.md section 9); no check is registered rather than registering a test presented as a proof")})
    m = {
        "version": 1,
        "setup_cmd": "./setup.sh",
        "hooks": {"guard": "BLACKBIRD_VERIF", "enable": "no hooks are needed: checks drive the public API and the generated lexer/parser classes of /repo's working tree",
                  "baseline_off_cmd": "cd /repo && /venv/bin/python -m pytest -ra -q -p no:cacheprovider --timeout=900 --continue-on-collection-errors",
                  "source_commits": [], "add_only": True},
        "engines": [{"name": "bbcoq", "path": "/verif/coq", "serves_properties": sorted(CLAIMED),
                     "kind_free_text": "Coq 8.16.1 development (model + proofs + per-property theorem files), regenerated data files tied to /repo by translators, OCaml-extracted model binary driven by a Python differential harness"}],
        "checks": checks,
        "not_applicable": na,
        "notes": "See DESIGN.md. known_findings.json lists recorded and fixed defects.",
    }
    json.dump(m, open("MANIFEST.json", "w"), indent=1)


if __name__ == "__main__":
    main()
