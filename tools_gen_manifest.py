#!/usr/bin/env python3
"""Regenerates MANIFEST.json from the table below (kept in one place so that it stays valid)."""
import json

CLAIMED = {
    "C14": dict(
        technique="Coq proof (generic EBNF recogniser + maximal-munch lexer, sound and complete for the regenerated grammar; kernel-computed artefact identities) + differential correspondence Python lexer/parser vs extracted model",
        text="Theorems (Closed under the global context): lex_spec (the model lexer returns THE token sequence prescribed by blackbird.g4 for every string), recognise_correct (the model recogniser decides membership for every token sequence), ATN/.interp/.tokens/name-table identities between both targets and the grammar, on data regenerated from the working tree each run. The shipped Python lexer and parser are tied to these oracles by differential testing on generated strings/sentences/mutations. C++ target: artefact level only (partial).",
        note="Trusted: Coq kernel, translators T1/T2, extraction (ExtrOcamlBasic), OCaml driver, ANTLR runtime executing the ATN; the left-recursion rewrite of `expression` done by T1; C++ cannot be executed here.",
        ref="5 C14"),
}

LOADER_NOTE = ("Trusted: Coq kernel; translator T1; extraction (ExtrOcamlBasic) + OCaml driver; the differential harness and its "
               "generators; mpmath as numeric oracle with a forward error bound; numpy/sympy/ANTLR runtime modelled, not verified. "
               "The model's recursive-descent parser is tied to the grammar by the proved recogniser (per input) and to ANTLR by the differential.")

CLAIMED["C06"] = dict(
    technique="Coq proof (loop = textual unrolling, by a substitution lemma, over the executable loader model) + differential correspondence and metamorphic unrolling predicate on the implementation",
    text="Theorems (closed): loop_unroll (executing a for-loop equals executing its body once per value with the variable replaced by the cast value; equality of outcomes incl. refusals), range_sem/range_sem_neg (a:b:c = a, a+c, ... below b), empty ranges contribute nothing, the loop variable is unbound and the environment unchanged after the loop, statements after the loop are unaffected, bad listed values are refused. The model is tied to the code by loading every generated loop script with both and comparing programs, and by checking loop == unrolled text on the implementation itself.",
    note=LOADER_NOTE, ref="5 C06")

CLAIMED["C02"] = dict(
    technique="Coq proof over the executable loader model (metadata as written, one op per statement in order, mode union) + differential correspondence implementation vs extracted model on generated scripts",
    text="Theorems (closed): meta_as_written, exec_stmt_plain (one operation per executed statement with the written name, modes in order as integers, argument values), ops_append_only / ops_in_order, modes_union (also with includes). The model's answer for each generated script (metadata, declarations, every bracket style, positional/keyword/list arguments, Measure*, loops, parameters, registers) is compared field by field with the program the implementation loads.",
    note=LOADER_NOTE, ref="5 C02")
CLAIMED["C03"] = dict(
    technique="Coq proof (precedence-climbing parser = unique stratified tree; evaluator = arithmetic homomorphism; integer closure; true division) + differential correspondence with exact (mpmath) evaluation of the model's term under a forward error bound",
    text="Theorems (closed): pexpr_yield/strat/complete and strat_unique (the expression parser is the bijection between token strings and stratified trees: brackets, sign 9, ** 8 right-assoc, * / 7, + - 6 left-assoc), eval_hom_eq (the computed value denotes the ordinary arithmetic value in any structure interpreting the operations), int_closed_value/int_value, pow_neg_real, div_real, fn_real, idx_row_major. The implementation's numbers are compared with the exact value of the model's term (relative 1e-12, conditioning-aware), kinds exactly.",
    note=LOADER_NOTE + " Floating point is not modelled bit-exactly; real/complex arithmetic is symbolic in the model.", ref="5 C03")
CLAIMED["C05"] = dict(
    technique="Coq proof (cast and array-layout lemmas over the loader model) + differential correspondence on declaration-focused scripts",
    text="Theorems (closed): cast_scalar_kind/value (declared type, initialiser's value), array_layout and array_layout_rc (accepted arrays are 2-D with the declared element type, element (r,c) = c-th entry of the r-th written row, declared shape = actual shape), idx_row_col, refusal lemmas. Ragged rows and contradicting shapes must be refused by model and implementation alike; variables are compared element by element.",
    note=LOADER_NOTE, ref="5 C05")
CLAIMED["C11"] = dict(
    technique="Coq proof (strictness: a fault never becomes a value; refusal class and position for undefined names; cast refusals) + fault-injection correspondence over the fault-class x slot matrix",
    text="Theorems (closed): undefined_never_ok and its lifts through arguments, modes, declarations and loop lists, undefined_leftmost_refuse (class, identifier, line, column), cast refusals for complex into int/float and loop values not of the loop type. Each generated faulty script must be refused by the model and must raise in the implementation (BlackbirdSyntaxError naming identifier/line/column for undefined and reserved names).",
    note=LOADER_NOTE + " Include arity/keyword faults are exercised under C07.", ref="5 C11")
CLAIMED["C15"] = dict(
    technique="Coq proof (p-array registration and by-name evaluation in the loader model) + differential correspondence and serialise/re-load predicate on tdm scripts",
    text="Theorems (closed): pname_by_name, pname_eval, non_pname_by_value, pname_only_tdm_ptype, pnames_not_params. Generated tdm scripts are loaded by model and implementation (arguments are names, variables hold the arrays, p-names are not parameters) and the implementation's dump is re-loaded and compared exactly.",
    note=LOADER_NOTE + " The serialiser itself is not yet modelled in Coq; the round-trip clause is checked on the implementation (and through the model loader) only.", ref="5 C15")

CLAIMED["C10"] = dict(
    technique="Coq proof of the two oracles (grammar membership incl. left-recursion elimination; exact viable-prefix decision) on the regenerated grammar + differential fault enumeration (token edits) against load/loads",
    text="Theorems (closed): recognise_correct_lr (membership in the language of blackbird.g4 as written, for every token sequence), pg_lr_equiv (loop form = left-recursive rule), viable_prefix_pg (a token sequence is a prefix of a sentence iff the executable check says so; every rule productive), lex_spec (token positions). For every generated string (grammatical bases, all single-token deletions/insertions/substitutions/swaps/truncations, soups) the implementation must pass the syntax stage iff the oracle says sentence, raise BlackbirdSyntaxError otherwise, and report a token position not before the first non-viable token.",
    note="Trusted: Coq kernel; T1 (regroups the alternatives of `expression` into prim|pre E|E bin E); extraction + driver; the ANTLR error strategy/ALL(*) prediction and error.py are exercised, not modelled.", ref="5 C10")
CLAIMED["C16"] = dict(
    technique="Coq proof (executable edge construction mirroring to_DiGraph = Consec relation; acyclicity, reachability = wire chains, topological orders keep wire order) + differential correspondence with networkx graphs",
    text="Theorems (closed): edges_char, nodes_char, edges_forward_exec, acyclic_exec, reach_exec_iff_chain, topo_keeps_wire_order_exec — for every operation list of any length over any wires. The implementation's DiGraph (node set, node attributes, edge set) is compared with the extracted model on generated programs, and the four graph axioms are checked directly on the networkx object.",
    note="Trusted: Coq kernel; extraction + driver; harness; networkx; registers of transforms are read from the implementation's RegRefTransform objects.", ref="5 C16")

CLAIMED["C04"] = dict(
    technique="Coq proof (instantiation = substitution at every depth; parameter-set invariants; refusals) + differential correspondence with the model's instantiate and the metamorphic predicate instance == load(substituted text)",
    text="Theorems (closed): subst_term_den (the value of an instantiated argument is the symbolic argument's value under the assignment, in any arithmetic structure), inst_value_rel / inst_ops_rel / inst_vars_rel (every symbolic argument, also inside keyword lists and arrays, is replaced; nothing else changes), pars_invariant and pars_monotone (reported parameters cover all occurring ones), inst_closed and inst_denoted_pars_free (no parameter left), inst_missing_refused. Generated templates are instantiated by implementation and model and compared, and the instance is compared with the program loaded from the text with {p} replaced by (value). Recorded finding D16 (functions of parameters cannot be loaded).",
    note=LOADER_NOTE + " sympy.lambdify is trusted to evaluate instantiated expressions; the expansion p -> p_i_j of array-valued arguments is performed by the harness for the model; the theorem 'instance = denote(substituted script)' at script level is checked per case, not proved.", ref="5 C04")
CLAIMED["C07"] = dict(
    technique="Coq proof (call expansion = rename of the included program's operations over modes in increasing order; refusal lemmas; history independence) + differential correspondence over directory layouts and working directories, and the metamorphic predicate load(main) == load(inlined main)",
    text="Theorems (closed): expand_is_rename, expand_include_inv, sortZ_sorted/sortZ_perm (modes taken in increasing order), expand_modes, expand_independent_of_history / exec_stmt_history_independent (every call yields the same operations), arity/keyword refusals. Layouts with nested includes, relative/absolute/.. paths and repeated include lines are loaded from three working directories, compared with the model's include resolution and inlining and with the textually inlined program.",
    note=LOADER_NOTE + " The operating system's path resolution is trusted; the model normalises paths lexically (symlinks are outside the model).", ref="5 C07")

CLAIMED["C08"] = dict(
    technique="Coq proof (registers exact; function applied in ANY listed order = arithmetic value of the written expression; plain arguments unchanged) + differential correspondence in-process and under several hash seeds",
    text="Theorems (closed): c08_argument (an argument mentioning registers becomes a transform over exactly the written registers and, for every duplicate-free listing of them, the function applied to the measurement values in the listed order is the arithmetic value of the written expression), c08_plain_argument, transform_pairing / transform_order_irrelevant, eval_regs, exec_stmt_args (positional and keyword alike). The implementation's RegRefTransform objects are compared with the model (register set; func called with values in ITS listed order = model term at sample points) and across PYTHONHASHSEED values.",
    note=LOADER_NOTE + " sympy.lambdify is trusted. Mixed register+parameter arguments and registers inside keyword lists are outside the quantifier and not generated. A register stored in a variable first (float x = q0) is outside `env_plain` and not generated.", ref="5 C08")
CLAIMED["C18"] = dict(
    technique="Coq proof (lexer: comments, line ends; parser/evaluator blind to NEWLINE/TAB text and positions; blank lines) + metamorphic and differential correspondence over combinations of layout edits [partial: space runs and final newline by correspondence only]",
    text="Theorems (closed): comment_step (a '#' at a token start swallows the rest of the line as one skipped token), newline_step_LF/CR/CRLF, parser_layout_blind and denote_position_blind (token streams differing only in NEWLINE/TAB text and positions give the same program), pprogram_skips_newline / pscript_leading_newlines, avoids_sound with the concrete no-LF/CR/#/space facts for every token rule. Each generated variant (comments, blank lines, 1-3 spaces, LF/CRLF/CR, tab vs four spaces, final newline) is loaded by implementation and model and must equal the original's program. PARTIAL: the general separation lemma for space runs between arbitrary tokens and the final-newline clause are not proved (correspondence only). Recorded finding D29 (comment/blank line right after a loop header).",
    note="Trusted: Coq kernel; T1; extraction + driver; harness. The Python lexer is tied to the model lexer by C14's differential.", ref="5 C18")
CLAIMED["C19"] = dict(
    technique="Coq proof (order-independence of every modelled set-iteration site) + translator obligation listing the set-iteration sites of the sources + differential runs in separate interpreters under 8/64 hash seeds",
    text="Theorems (closed): set_sites_ok (the order-sensitive uses of Python sets in the sources are exactly the listed five; regenerated by T3 each run), transform_order_irrelevant / transform_pairs_order_irrelevant (the documented freedom: register listing order, always paired with the function), expand_include_modes_order + sortZ_perm_eq (include mode pairing independent of set order). Scripts with several overlapping-name parameters / registers per argument and includes on large unordered modes are loaded and serialised under several PYTHONHASHSEED values; observations and dump texts must be identical.",
    note="Trusted: Coq kernel; T3 (syntactic detection of set iteration: .free_symbols, .modes, set(...)-bound names used in for/list/zip/str); harness. 2^32 seeds cannot be enumerated; sympy's own canonical ordering is trusted to be hash-independent.", ref="5 C19")

CLAIMED["C12"] = dict(
    technique="Coq proof (process-wide tables as explicit state: the outcome of a load is independent of the tables it finds, for every history and every failure residue; the unrepaired algorithm is refuted) + translator obligation on the clearing sites + differential histories against pristine forked processes",
    text="Theorems (closed): load_history_independent / load_state_independent (for every history of earlier loads and whatever a failed load leaves behind, the outcome equals the pristine one), load_step_denote (namely the script's denotation), history_independence_refuted (without the clearing at the start of parse the property is false; witness), clear_sites_ok (the clearing sites in listener.py are those the model assumes; regenerated each run). Histories of loads (valid, templates, failing at every stage, options mentioning names, includes) run in one process; every step must equal its outcome in a pristine forked process and results must share no mutable object.",
    note="Trusted: Coq kernel; T3; harness; a forked child of a fresh interpreter counts as pristine. Threads are not modelled.", ref="5 C12")

SER_NOTE = ("Trusted: Coq kernel; extraction + driver; harness. The Coq serialiser prints exact decimals/expressions while the implementation prints CPython/numpy repr: "
            "float printing is an oracle (shortest repr round-trips), checked per case; the two serialisers are tied structurally (same skeleton: metadata, hoisted "
            "declarations A<k> with shapes, statements, argument classes, keyword names, modes) and semantically (the model loader reads the implementation's text as the "
            "original program). sympy's printer is trusted to re-parse to an equal expression (checked at sample points). lex(render(tokens)) = tokens is not proved.")
CLAIMED["C01"] = dict(
    technique="Coq proof (serialiser model mirroring program.py: AST-level round trip for every well-formed program and every generation; printing to tokens and parsing back is the identity up to positions) + differential round trips and structural tie to the implementation's text",
    text="Theorems (closed): ser_roundtrip / ser_denote (the script the serialiser writes - metadata, tdm variable block, hoisted array declarations, statements - denotes a program equivalent to the one serialised: names, modes, integers, booleans, strings, structure equal; real/complex/symbolic values equal in every arithmetic structure satisfying four elementary laws), ser_script_total, ser_generations_total (every later generation), term_expr_eval, parse_z_digits / parse_dec_text; UnparseP.unparse_parse_exact (tokens). For generated scripts: three generations of loads/dumps on the implementation must reproduce the program exactly, generation 2 and 3 texts must be identical, the model must read the first dump as the original program, and the dump must have the skeleton the Coq serialiser prescribes.",
    note=SER_NOTE, ref="5 C01, 10")
CLAIMED["C09"] = dict(
    technique="Coq proof (as C01: the round trip is proved for every well-formed program VALUE, independent of how it was assembled) + differential on API-built programs with extreme values",
    text="Theorems (closed): ser_roundtrip, ser_script_total, reload_equiv, ser_denote, unparse_parse_exact. Programs are assembled through the Python API from every supported kind (Python and numpy ints/floats/complex/bools, strings, lists, 2-D arrays with extreme elements, real sympy expressions) in positional/keyword/option position; the dump must be accepted and denote the same program both by the implementation's loader (exact comparison) and by the model's loader, and must be a fixed point of the model serialiser's structure.",
    note=SER_NOTE, ref="5 C09, 10")
CLAIMED["C13"] = dict(
    technique="Coq proof (heap/aliasing model: confined write footprints imply the frame property for every heap and every call sequence; deep-copied instances are separated) + translator obligation on the write footprints of the API + dynamic snapshot/identity checks [partial]",
    text="Theorems (closed): footprints_confined (every store write of serialize, __call__, to_DiGraph, match_template and the getters targets an object constructed or deep-copied inside the function; regenerated from the sources each run), frame_call, readonly_frame, program_unchanged (any sequence of such calls, interleaved with client writes to later-allocated objects, leaves everything reachable from the program unchanged), instances_separated / all_instances_separated, modify_inst*_alters_nothing_else. Dynamically: dump text, canonical content and operation keys of a template are compared before/after every call of random API call sequences; id-sets of mutable containers of instances must be disjoint; every container of every instance is then mutated and the template and siblings re-checked. PARTIAL: the footprint extraction is syntactic and copy.deepcopy is an oracle contract (DeepCopy).",
    note="Trusted: Coq kernel; T3 footprint analysis (syntactic, conservative); the DeepCopy contract for copy.deepcopy; harness.", ref="5 C13, 10")
CLAIMED["C17"] = dict(
    technique="Coq proof (reordering = graph isomorphism; the isomorphism is unique; affine solving recovers the values; structural edits admit no isomorphism) + differential on reordered instantiations and structural edits",
    text="Theorems (closed): match_template_reordered (for affine single-parameter templates and any per-mode-order-preserving reordering of an instantiation, whatever label-preserving homomorphism is used the bindings are the instantiation values, consistent, and reproduce the arguments), iso_unique (so VF2 may return any isomorphism), reorder_consec, match_inverts_inst / solve_inverts (over Q), label_change_rejected, order_change_rejected. Generated templates are instantiated with generic reals, reordered, matched (values to 1e-9, arguments reproduced) and single edits (gate, modes, per-mode order, version, target) must raise TemplateError.",
    note="Trusted: Coq kernel; harness; networkx VF2 finds an isomorphism when one exists; sympy.solve; version/target equality tests and the floating tolerance are not modelled.", ref="5 C17")

NOT_YET = {
}


def main():
    props = [json.loads(l) for l in open("properties.jsonl")]
    checks = []
    na = []
    for p in props:
        pid = p["id"]
        if pid in CLAIMED:
            c = CLAIMED[pid]
            checks.append({
                "property_id": pid,
                "quick_cmd": "./check %s --tier quick" % pid,
                "thorough_cmd": "./check %s --tier thorough" % pid,
                "evidence_file": "/verif/evidence/%s.json" % pid,
                "replay_cmd_template": "./check %s --replay {path}" % pid,
                "engine": "bbcoq",
                "level_claimed": {"category": "proof", "text": c["text"], "design_ref": c["ref"]},
                "level_note": c["note"],
                "technique": c["technique"],
            })
        else:
            na.append({"property_id": pid, "reason": NOT_YET.get(pid, "not yet built in this round: the Coq model layer this property needs is still under construction (see DESIGN.md section 9); no check is registered rather than registering a test presented as a proof")})
    m = {
        "version": 1,
        "setup_cmd": "./setup.sh",
        "hooks": {"guard": "BLACKBIRD_VERIF", "enable": "no hooks are needed: checks drive the public API and the generated lexer/parser classes of /repo's working tree",
                  "baseline_off_cmd": "cd /repo && /venv/bin/python -m pytest -ra -q -p no:cacheprovider --timeout=900 --continue-on-collection-errors",
                  "source_commits": [], "add_only": True},
        "engines": [{"name": "bbcoq", "path": "/verif/coq", "serves_properties": sorted(CLAIMED),
                     "kind_free_text": "Coq 8.16.1 development (model + proofs + per-property theorem files), regenerated data files tied to /repo by translators, OCaml-extracted model binary driven by a Python differential harness"}],
        "checks": checks,
        "not_applicable": na,
        "notes": "See DESIGN.md. known_findings.json lists recorded and fixed defects.",
    }
    json.dump(m, open("MANIFEST.json", "w"), indent=1)


if __name__ == "__main__":
    main()
