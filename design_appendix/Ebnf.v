From Coq Require Import List Arith Bool Lia.
Import ListNotations.

Inductive ebnf := Tok (t:nat) | Ref (r:nat) | Eps | Seq (a b:ebnf) | Alt (a b:ebnf) | Star (a:ebnf).

Section G.
Variable g : nat -> ebnf.

Inductive M : ebnf -> list nat -> Prop :=
| MTok t : M (Tok t) [t]
| MRef r w : M (g r) w -> M (Ref r) w
| MEps : M Eps []
| MSeq a b w1 w2 : M a w1 -> M b w2 -> M (Seq a b) (w1++w2)
| MAltL a b w : M a w -> M (Alt a b) w
| MAltR a b w : M b w -> M (Alt a b) w
| MStar0 a : M (Star a) []
| MStarS a w1 w2 : w1 <> [] -> M a w1 -> M (Star a) w2 -> M (Star a) (w1++w2).

(* all: option-valued bind over a list *)
Fixpoint bindl {A B} (f : A -> option (list B)) (l : list A) : option (list B) :=
  match l with
  | [] => Some []
  | x :: l' => match f x, bindl f l' with Some a, Some b => Some (a ++ b) | _, _ => None end
  end.

Lemma bindl_in {A B} (f : A -> option (list B)) l r y :
  bindl f l = Some r -> In y r <-> exists x ys, In x l /\ f x = Some ys /\ In y ys.
Proof.
  revert r; induction l as [|x l IH]; simpl; intros r H.
  - inversion H; subst. split; [intros []|intros (x&ys&[]&_)].
  - destruct (f x) as [a|] eqn:Hx; [|discriminate]. destruct (bindl f l) as [b|] eqn:Hb; [|discriminate].
    inversion H; subst. rewrite in_app_iff. split.
    + intros [Hy|Hy]. { exists x, a; auto. } apply (IH b eq_refl) in Hy. destruct Hy as (x1&ys&H1&H2&H3). exists x1, ys; auto.
    + intros (x1&ys&Hin&Hf&Hy). destruct Hin as [->|Hin]. { left; congruence. } right. apply (IH b eq_refl). exists x1, ys; auto.
Qed.

Lemma bindl_some {A B} (f : A -> option (list B)) l r x :
  bindl f l = Some r -> In x l -> exists ys, f x = Some ys.
Proof.
  revert r; induction l as [|x1 l IH]; simpl; intros r H Hin; [destruct Hin|].
  destruct (f x1) as [a|] eqn:Hf; [|discriminate]. destruct (bindl f l) as [b|] eqn:Hb; [|discriminate].
  destruct Hin as [->|Hin]; eauto.
Qed.

(* ends f e w = Some L : L lists every suffix w' such that w = p ++ w' and M e p *)
Fixpoint ends (f:nat) (e:ebnf) (w:list nat) {struct f} : option (list (list nat)) :=
  match f with
  | 0 => None
  | S f =>
    match e with
    | Tok t => match w with x :: w' => if Nat.eqb x t then Some [w'] else Some [] | [] => Some [] end
    | Eps => Some [w]
    | Ref r => ends f (g r) w
    | Seq a b => match ends f a w with None => None | Some l => bindl (ends f b) l end
    | Alt a b => match ends f a w, ends f b w with Some l1, Some l2 => Some (l1 ++ l2) | _, _ => None end
    | Star a =>
        match ends f a w with
        | None => None
        | Some l =>
          match bindl (fun w' => if Nat.ltb (length w') (length w) then ends f (Star a) w' else Some []) l with
          | None => None
          | Some l2 => Some (w :: l2)
          end
        end
    end
  end.

Theorem ends_sound : forall f e w L, ends f e w = Some L -> forall w', In w' L -> exists p, w = p ++ w' /\ M e p.
Proof.
  induction f as [|f IH]; intros e w L H w' Hin; [discriminate|]. destruct e; simpl in H.
  - destruct w as [|x w0].
    + inversion H; subst. destruct Hin.
    + destruct (Nat.eqb x t) eqn:E; inversion H; subst.
      * destruct Hin as [<-|Hin]; [|destruct Hin].
        apply Nat.eqb_eq in E; subst. exists [t]; split; [reflexivity|constructor].
      * destruct Hin.
  - destruct (IH _ _ _ H _ Hin) as (p&?&?). exists p; split; auto. constructor; auto.
  - inversion H; subst. destruct Hin as [<-|Hin]; [|destruct Hin]. exists []; split; auto. constructor.
  - destruct (ends f e1 w) as [l|] eqn:E1; [|discriminate].
    apply (bindl_in _ _ _ w' H) in Hin. destruct Hin as (x&ys&Hx&Hf&Hy).
    destruct (IH _ _ _ E1 _ Hx) as (p1&->&M1). destruct (IH _ _ _ Hf _ Hy) as (p2&->&M2).
    exists (p1++p2); split; [now rewrite app_assoc|constructor; auto].
  - destruct (ends f e1 w) as [l1|] eqn:E1; [|discriminate]. destruct (ends f e2 w) as [l2|] eqn:E2; [|discriminate].
    inversion H; subst. apply in_app_iff in Hin. destruct Hin as [Hin|Hin].
    + destruct (IH _ _ _ E1 _ Hin) as (p&?&?). exists p; split; auto. now apply MAltL.
    + destruct (IH _ _ _ E2 _ Hin) as (p&?&?). exists p; split; auto. now apply MAltR.
  - destruct (ends f e w) as [l|] eqn:E1; [|discriminate].
    match type of H with match ?b with _ => _ end = _ => destruct b as [l2|] eqn:E2; [|discriminate] end.
    inversion H; subst. destruct Hin as [<-|Hin]. { exists []; split; auto; constructor. }
    apply (bindl_in _ _ _ w' E2) in Hin. destruct Hin as (x&ys&Hx&Hf&Hy).
    destruct (Nat.ltb (length x) (length w)) eqn:Hlt; [|inversion Hf; subst; destruct Hy].
    destruct (IH _ _ _ E1 _ Hx) as (p1&->&M1). destruct (IH _ _ _ Hf _ Hy) as (p2&->&M2).
    exists (p1++p2); split; [now rewrite app_assoc|]. apply MStarS; auto.
    intros ->. apply Nat.ltb_lt in Hlt. simpl in Hlt. lia.
Qed.

Theorem ends_complete : forall e p, M e p -> forall f w' L, ends f e (p ++ w') = Some L -> In w' L.
Proof.
  induction 1; intros f w' L HL; (destruct f as [|f]; [discriminate|]); simpl in HL.
  - rewrite Nat.eqb_refl in HL. inversion HL; subst; simpl; auto.
  - eapply IHM; eauto.
  - inversion HL; subst; simpl; auto.
  - rewrite <- app_assoc in HL. destruct (ends f a (w1 ++ w2 ++ w')) as [l|] eqn:E1; [|discriminate].
    pose proof (IHM1 _ _ _ E1) as Hin1. destruct (bindl_some _ _ _ _ HL Hin1) as (ys&Hys).
    apply (bindl_in _ _ _ w' HL). exists (w2++w'), ys. split; auto. split; auto. eapply IHM2; eauto.
  - destruct (ends f a (w ++ w')) as [l1|] eqn:E1; [|discriminate]. destruct (ends f b (w ++ w')) as [l2|] eqn:E2; [|discriminate].
    inversion HL; subst. apply in_app_iff; left. eapply IHM; eauto.
  - destruct (ends f a (w ++ w')) as [l1|] eqn:E1; [|discriminate]. destruct (ends f b (w ++ w')) as [l2|] eqn:E2; [|discriminate].
    inversion HL; subst. apply in_app_iff; right. eapply IHM; eauto.
  - destruct (ends f a w') as [l|]; [|discriminate].
    match type of HL with match ?b with _ => _ end = _ => destruct b as [l2|]; [|discriminate] end.
    inversion HL; subst; simpl; auto.
  - rewrite <- app_assoc in HL. destruct (ends f a (w1 ++ w2 ++ w')) as [l|] eqn:E1; [|discriminate].
    match type of HL with match ?b with _ => _ end = _ => destruct b as [l2|] eqn:E2; [|discriminate] end.
    inversion HL; subst. right.
    pose proof (IHM1 _ _ _ E1) as Hin1. destruct (bindl_some _ _ _ _ E2 Hin1) as (ys&Hys).
    apply (bindl_in _ _ _ w' E2). exists (w2++w'), ys. split; auto. split; auto.
    assert (Hlt: Nat.ltb (length (w2 ++ w')) (length (w1 ++ w2 ++ w')) = true).
    { apply Nat.ltb_lt. rewrite !app_length. destruct w1 as [|c w1]; [exfalso; auto|simpl; lia]. }
    rewrite Hlt in Hys. eapply IHM2; eauto.
Qed.

Definition recognise (f:nat) (e:ebnf) (w:list nat) : option bool :=
  match ends f e w with None => None | Some L => Some (existsb (fun s => match s with [] => true | _ => false end) L) end.

Theorem recognise_correct f e w b : recognise f e w = Some b -> (b = true <-> M e w).
Proof.
  unfold recognise. destruct (ends f e w) as [L|] eqn:E; [|discriminate]. intros [= <-]. split.
  - intros Hex. apply existsb_exists in Hex as (s&Hin&Hs). destruct s; [|discriminate].
    destruct (ends_sound _ _ _ _ E _ Hin) as (p&->&HM). now rewrite app_nil_r.
  - intros HM. apply existsb_exists. exists []. split; auto. rewrite <- (app_nil_r w) in E. eapply ends_complete; eauto.
Qed.
End G.
Print Assumptions recognise_correct.
