From Coq Require Import List Arith Lia Relations.
Import ListNotations.

Section G.
Variable n : nat.                 (* number of operations *)
Variable W : nat -> list nat.     (* wires (modes and measured registers) of operation i *)

Definition share (i j:nat) : Prop := exists q, In q (W i) /\ In q (W j).
Definition Before (i j:nat) : Prop := i < j /\ j < n /\ share i j.
(* the edge relation built by to_DiGraph: consecutive operations on some wire *)
Definition Consec (i j:nat) : Prop :=
  i < j /\ j < n /\ exists q, In q (W i) /\ In q (W j) /\ forall k, i < k -> k < j -> ~ In q (W k).

Lemma between_dec (q i j:nat) :
  {k | i < k /\ k < j /\ In q (W k)} + {forall k, i < k -> k < j -> ~ In q (W k)}.
Proof.
  induction j as [|j IH].
  - right. intros; lia.
  - destruct IH as [(k&?&?&?)|No].
    + left. exists k. repeat split; auto.
    + destruct (le_lt_dec j i) as [Hle|Hlt].
      * right. intros; lia.
      * destruct (in_dec Nat.eq_dec q (W j)) as [Hin|Hn].
        -- left. exists j. repeat split; auto.
        -- right. intros k H1 H2. destruct (Nat.eq_dec k j) as [->|]; auto. apply No; lia.
Qed.

Theorem edge_forward i j : Consec i j -> i < j.
Proof. intros (H&_). exact H. Qed.

Lemma wire_path : forall d i j q, j - i <= d -> i < j -> j < n -> In q (W i) -> In q (W j) -> clos_trans nat Consec i j.
Proof.
  induction d as [|d IH]; intros i j q Hd Hij Hn Hi Hj; [lia|].
  destruct (between_dec q i j) as [(k&H1&H2&H3)|No].
  - apply t_trans with k; apply (IH _ _ q); auto; lia.
  - apply t_step. repeat split; auto. exists q. auto.
Qed.

Theorem reach_iff_chain i j : clos_trans nat Consec i j <-> clos_trans nat Before i j.
Proof.
  split; induction 1.
  - apply t_step. destruct H as (?&?&q&?&?&_). repeat split; auto. exists q; auto.
  - eapply t_trans; eauto.
  - destruct H as (?&?&q&?&?). apply (wire_path (y - x) x y q); auto.
  - eapply t_trans; eauto.
Qed.

Lemma reach_forward i j : clos_trans nat Consec i j -> i < j.
Proof. induction 1; [eapply edge_forward; eauto|lia]. Qed.
Theorem acyclic i : ~ clos_trans nat Consec i i.
Proof. intros H. apply reach_forward in H. lia. Qed.

(* every linear extension of the graph keeps the program order on every wire *)
Theorem topo_keeps_wire_order (pos : nat -> nat) :
  (forall i j, Consec i j -> pos i < pos j) ->
  forall i j, i < j -> j < n -> share i j -> pos i < pos j.
Proof.
  intros Hpos i j Hij Hn Hs.
  assert (R: clos_trans nat Consec i j) by (apply reach_iff_chain; apply t_step; repeat split; auto).
  clear Hij Hn Hs. induction R; [auto|lia].
Qed.
End G.
Print Assumptions topo_keeps_wire_order.
Print Assumptions reach_iff_chain.
