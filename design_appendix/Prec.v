From Coq Require Import List Arith Bool Lia.
Import ListNotations.

Inductive tok := TA (a:nat) | TL | TR | TAdd (s:bool) | TMul (m:bool) | TPow.
Inductive expr := Atom (a:nat) | Br (e:expr) | Sign (s:bool) (e:expr)
                | Pow (a b:expr) | Mul (m:bool) (a b:expr) | Add (s:bool) (a b:expr).

Fixpoint flat (e:expr) : list tok :=
  match e with
  | Atom a => [TA a]
  | Br e => TL :: flat e ++ [TR]
  | Sign s e => TAdd s :: flat e
  | Pow a b => flat a ++ TPow :: flat b
  | Mul m a b => flat a ++ TMul m :: flat b
  | Add s a b => flat a ++ TAdd s :: flat b
  end.

(* mirrors the generated expression(_p): primary/prefix, then the precedence loop *)
Fixpoint pexpr (f p:nat) (ts:list tok) {struct f} : option (expr * list tok) :=
  match f with 0 => None | S f =>
    match ts with
    | TA a :: r => ploop f p (Atom a) r
    | TL :: r => match pexpr f 0 r with Some (e, TR :: r') => ploop f p (Br e) r' | _ => None end
    | TAdd s :: r => match pexpr f 9 r with Some (e, r') => ploop f p (Sign s e) r' | None => None end
    | _ => None
    end end
with ploop (f p:nat) (e:expr) (ts:list tok) {struct f} : option (expr * list tok) :=
  match f with 0 => None | S f =>
    match ts with
    | TPow :: r => if p <=? 8 then match pexpr f 8 r with Some (b, r') => ploop f p (Pow e b) r' | None => None end else Some (e, ts)
    | TMul m :: r => if p <=? 7 then match pexpr f 8 r with Some (b, r') => ploop f p (Mul m e b) r' | None => None end else Some (e, ts)
    | TAdd s :: r => if p <=? 6 then match pexpr f 7 r with Some (b, r') => ploop f p (Add s e b) r' | None => None end else Some (e, ts)
    | _ => Some (e, ts)
    end end.

Definition level (e:expr) : nat :=
  match e with Add _ _ _ => 6 | Mul _ _ _ => 7 | Pow _ _ => 8 | Sign _ _ => 9 | _ => 10 end.
(* level at which the right-most operand of e was parsed *)
Definition rl (e:expr) : nat :=
  match e with Add _ _ _ => 7 | Mul _ _ _ => 8 | Pow _ _ => 8 | Sign _ _ => 9 | _ => 10 end.

(* the stratified tree grammar *)
Inductive WF : expr -> Prop :=
| WAtom a : WF (Atom a)
| WBr e : WF e -> WF (Br e)
| WSign s e : WF e -> 9 <= level e -> WF (Sign s e)
| WPow a b : WF a -> WF b -> 9 <= level a -> 8 <= level b -> WF (Pow a b)
| WMul m a b : WF a -> WF b -> 7 <= level a -> 8 <= level b -> WF (Mul m a b)
| WAdd s a b : WF a -> WF b -> 6 <= level a -> 7 <= level b -> WF (Add s a b).

Definition bprec (t:tok) : option nat :=
  match t with TPow => Some 8 | TMul _ => Some 7 | TAdd _ => Some 6 | _ => None end.
(* r does not start with a binary operator of precedence >= p *)
Definition nostart (p:nat) (r:list tok) : Prop :=
  match r with t :: _ => match bprec t with Some q => q < p | None => True end | [] => True end.
Definition lreq (q:nat) : nat := match q with 8 => 9 | _ => q end.
Definition inv (e:expr) (r:list tok) : Prop :=
  match r with t :: _ => match bprec t with Some q => lreq q <= level e | None => True end | [] => True end.

(* ---------- 1. yield ---------- *)
Lemma yield_mut : forall f,
  (forall p ts e r, pexpr f p ts = Some (e, r) -> ts = flat e ++ r) /\
  (forall p e0 ts e r, ploop f p e0 ts = Some (e, r) -> flat e0 ++ ts = flat e ++ r).
Proof.
  induction f as [|f [IHe IHl]]; split; intros; try discriminate.
  - simpl in H. destruct ts as [|t ts]; [discriminate|]. destruct t; try discriminate.
    + apply IHl in H. exact H.
    + destruct (pexpr f 0 ts) as [[e1 r1]|] eqn:E; [|discriminate].
      destruct r1 as [|t1 r1]; [discriminate|]. destruct t1; try discriminate.
      apply IHe in E. apply IHl in H. subst ts. simpl in H. rewrite <- H. simpl. now rewrite <- app_assoc.
    + destruct (pexpr f 9 ts) as [[e1 r1]|] eqn:E; [|discriminate].
      apply IHe in E. apply IHl in H. subst ts. simpl in H. exact H.
  - simpl in H. destruct ts as [|t ts]; [inversion H; subst; reflexivity|]. destruct t; try (inversion H; subst; reflexivity).
    + destruct (p <=? 6); [|inversion H; subst; reflexivity].
      destruct (pexpr f 7 ts) as [[b r1]|] eqn:E; [|discriminate]. apply IHe in E. apply IHl in H. subst ts.
      simpl in H. rewrite <- H. now rewrite <- app_assoc.
    + destruct (p <=? 7); [|inversion H; subst; reflexivity].
      destruct (pexpr f 8 ts) as [[b r1]|] eqn:E; [|discriminate]. apply IHe in E. apply IHl in H. subst ts.
      simpl in H. rewrite <- H. now rewrite <- app_assoc.
    + destruct (p <=? 8); [|inversion H; subst; reflexivity].
      destruct (pexpr f 8 ts) as [[b r1]|] eqn:E; [|discriminate]. apply IHe in E. apply IHl in H. subst ts.
      simpl in H. rewrite <- H. now rewrite <- app_assoc.
Qed.
Theorem pexpr_yield f p ts e r : pexpr f p ts = Some (e, r) -> ts = flat e ++ r.
Proof. apply yield_mut. Qed.

(* ---------- 2. the result is a stratified tree, and the parser stops only where it must ---------- *)
Lemma inv_hi e r : 9 <= level e -> inv e r.
Proof. intros H. unfold inv. destruct r as [|t r]; auto. destruct t; simpl; auto; lia. Qed.

Lemma strat_mut : forall f,
  (forall p ts e r, p <= 9 -> pexpr f p ts = Some (e, r) -> WF e /\ p <= level e /\ nostart p r) /\
  (forall p e0 ts e r, p <= 9 -> WF e0 -> p <= level e0 -> inv e0 ts -> ploop f p e0 ts = Some (e, r) ->
        WF e /\ p <= level e /\ nostart p r).
Proof.
  induction f as [|f [IHe IHl]]; split; intros; try discriminate.
  - simpl in H0. destruct ts as [|t ts]; [discriminate|]. destruct t; try discriminate.
    + apply (IHl p (Atom a) ts e r H); [constructor|simpl; lia|apply inv_hi; simpl; lia|exact H0].
    + destruct (pexpr f 0 ts) as [[e1 r1]|] eqn:E; [|discriminate].
      destruct r1 as [|t1 r1]; [discriminate|]. destruct t1; try discriminate.
      apply IHe in E; [|lia]. destruct E as (W1&_&_).
      apply (IHl p (Br e1) r1 e r H); [constructor; auto|simpl; lia|apply inv_hi; simpl; lia|exact H0].
    + destruct (pexpr f 9 ts) as [[e1 r1]|] eqn:E; [|discriminate].
      apply IHe in E; [|lia]. destruct E as (W1&L1&_).
      apply (IHl p (Sign s e1) r1 e r H); [constructor; auto|simpl; lia|apply inv_hi; simpl; lia|exact H0].
  - simpl in H3. destruct ts as [|t ts].
    { inversion H3; subst. repeat split; auto. }
    destruct t; try (inversion H3; subst; repeat split; auto; fail).
    + (* TAdd *) unfold inv in H2; simpl in H2.
      destruct (p <=? 6) eqn:P.
      * apply Nat.leb_le in P. destruct (pexpr f 7 ts) as [[b r1]|] eqn:E; [|discriminate].
        apply IHe in E; [|lia]. destruct E as (Wb&Lb&Nb).
        eapply IHl; [exact H| | | |exact H3]; cycle 0.
        -- constructor; auto.
        -- simpl; lia.
        -- unfold inv. unfold nostart in Nb. destruct r1 as [|t1 r1]; auto. destruct (bprec t1) as [q|] eqn:Q; auto.
           simpl. destruct t1; simpl in Q; inversion Q; subst; simpl; lia.
      * apply Nat.leb_gt in P. inversion H3; subst. repeat split; auto; simpl; lia.
    + (* TMul *) unfold inv in H2; simpl in H2.
      destruct (p <=? 7) eqn:P.
      * apply Nat.leb_le in P. destruct (pexpr f 8 ts) as [[b r1]|] eqn:E; [|discriminate].
        apply IHe in E; [|lia]. destruct E as (Wb&Lb&Nb).
        eapply IHl; [exact H| | | |exact H3]; cycle 0.
        -- constructor; auto.
        -- simpl; lia.
        -- unfold inv. unfold nostart in Nb. destruct r1 as [|t1 r1]; auto. destruct (bprec t1) as [q|] eqn:Q; auto.
           simpl. destruct t1; simpl in Q; inversion Q; subst; simpl in *; lia.
      * apply Nat.leb_gt in P. inversion H3; subst. repeat split; auto; simpl; lia.
    + (* TPow *) unfold inv in H2; simpl in H2.
      destruct (p <=? 8) eqn:P.
      * apply Nat.leb_le in P. destruct (pexpr f 8 ts) as [[b r1]|] eqn:E; [|discriminate].
        apply IHe in E; [|lia]. destruct E as (Wb&Lb&Nb).
        eapply IHl; [exact H| | | |exact H3]; cycle 0.
        -- constructor; auto.
        -- simpl; lia.
        -- unfold inv. unfold nostart in Nb. destruct r1 as [|t1 r1]; auto. destruct (bprec t1) as [q|] eqn:Q; auto.
           simpl. destruct t1; simpl in Q; inversion Q; subst; simpl in *; lia.
      * apply Nat.leb_gt in P. inversion H3; subst. repeat split; auto; simpl; lia.
Qed.
Theorem pexpr_strat f p ts e r : p <= 9 -> pexpr f p ts = Some (e, r) -> WF e /\ p <= level e /\ nostart p r.
Proof. intros Hp H. destruct (strat_mut f) as [A _]. eapply A; eauto. Qed.

(* ---------- 3. completeness: the parser inverts [flat] on stratified trees ---------- *)
Lemma mono_mut : forall f,
  (forall p ts x, pexpr f p ts = Some x -> pexpr (S f) p ts = Some x) /\
  (forall p e ts x, ploop f p e ts = Some x -> ploop (S f) p e ts = Some x).
Proof.
  induction f as [|f [IHe IHl]]; split; intros; try discriminate.
  - simpl in H. change (pexpr (S (S f)) p ts) with
      (match ts with
       | TA a :: r => ploop (S f) p (Atom a) r
       | TL :: r => match pexpr (S f) 0 r with Some (e, TR :: r') => ploop (S f) p (Br e) r' | _ => None end
       | TAdd s :: r => match pexpr (S f) 9 r with Some (e, r') => ploop (S f) p (Sign s e) r' | None => None end
       | _ => None end).
    destruct ts as [|t ts]; [discriminate|]. destruct t; try discriminate.
    + apply IHl; exact H.
    + destruct (pexpr f 0 ts) as [[e1 r1]|] eqn:E; [|discriminate]. rewrite (IHe _ _ _ E).
      destruct r1 as [|t1 r1]; [discriminate|]. destruct t1; try discriminate. apply IHl; exact H.
    + destruct (pexpr f 9 ts) as [[e1 r1]|] eqn:E; [|discriminate]. rewrite (IHe _ _ _ E). apply IHl; exact H.
  - simpl in H. change (ploop (S (S f)) p e ts) with
      (match ts with
       | TPow :: r => if p <=? 8 then match pexpr (S f) 8 r with Some (b, r') => ploop (S f) p (Pow e b) r' | None => None end else Some (e, ts)
       | TMul m :: r => if p <=? 7 then match pexpr (S f) 8 r with Some (b, r') => ploop (S f) p (Mul m e b) r' | None => None end else Some (e, ts)
       | TAdd s :: r => if p <=? 6 then match pexpr (S f) 7 r with Some (b, r') => ploop (S f) p (Add s e b) r' | None => None end else Some (e, ts)
       | _ => Some (e, ts) end).
    destruct ts as [|t ts]; [exact H|]. destruct t; try exact H.
    + destruct (p <=? 6); [|exact H]. destruct (pexpr f 7 ts) as [[b r1]|] eqn:E; [|discriminate]. rewrite (IHe _ _ _ E). apply IHl; exact H.
    + destruct (p <=? 7); [|exact H]. destruct (pexpr f 8 ts) as [[b r1]|] eqn:E; [|discriminate]. rewrite (IHe _ _ _ E). apply IHl; exact H.
    + destruct (p <=? 8); [|exact H]. destruct (pexpr f 8 ts) as [[b r1]|] eqn:E; [|discriminate]. rewrite (IHe _ _ _ E). apply IHl; exact H.
Qed.
Lemma pexpr_mono f f' p ts x : f <= f' -> pexpr f p ts = Some x -> pexpr f' p ts = Some x.
Proof. induction 1; auto. intros. apply mono_mut. auto. Qed.
Lemma ploop_mono f f' p e ts x : f <= f' -> ploop f p e ts = Some x -> ploop f' p e ts = Some x.
Proof. induction 1; auto. intros. apply mono_mut. auto. Qed.

Lemma nostart_weaken p q r : p <= q -> nostart p r -> nostart q r.
Proof. unfold nostart. destruct r as [|t r]; auto. destruct (bprec t); auto. lia. Qed.
Lemma nostart9 r : nostart 9 r.
Proof. unfold nostart. destruct r as [|t r]; auto. destruct t; simpl; auto; lia. Qed.
Lemma level_le_rl e : level e <= rl e. Proof. destruct e; simpl; lia. Qed.

Lemma ploop_stop f p e r : nostart p r -> ploop (S f) p e r = Some (e, r).
Proof.
  unfold nostart. simpl. destruct r as [|t r]; auto. destruct t; simpl; auto; intros H.
  - destruct (p <=? 6) eqn:P; auto. apply Nat.leb_le in P. lia.
  - destruct (p <=? 7) eqn:P; auto. apply Nat.leb_le in P. lia.
  - destruct (p <=? 8) eqn:P; auto. apply Nat.leb_le in P. lia.
Qed.

(* key lemma: having read the tokens of e, the parser is in its loop with accumulated tree e *)
Lemma resume : forall e, WF e -> forall p r f res, p <= level e -> p <= 9 -> nostart (rl e) r ->
  ploop f p e r = Some res -> exists f', pexpr f' p (flat e ++ r) = Some res.
Proof.
  induction 1; intros p r f res Hp H9 Hns Hl.
  - exists (S f). simpl. exact Hl.
  - (* Br *)
    destruct (IHWF 0 (TR :: r) 1 (e, TR :: r)) as (f1&E1); [lia|lia|apply nostart_weaken with 0; [lia|simpl; auto]|apply ploop_stop; simpl; auto|].
    exists (S (max f1 f)). simpl. rewrite <- app_assoc. simpl.
    rewrite (pexpr_mono f1 _ _ _ _ (Nat.le_max_l _ _) E1). eapply ploop_mono; [apply Nat.le_max_r|exact Hl].
  - (* Sign *)
    destruct (IHWF 9 r 1 (e, r)) as (f1&E1); [lia|lia|apply nostart_weaken with 9; [apply (Nat.le_trans _ (level e)); [lia|apply level_le_rl]|apply nostart9]|apply ploop_stop; apply nostart9|].
    exists (S (max f1 f)). simpl.
    rewrite (pexpr_mono f1 _ _ _ _ (Nat.le_max_l _ _) E1). eapply ploop_mono; [apply Nat.le_max_r|exact Hl].
  - (* Pow *) simpl in Hp, Hns.
    destruct (IHWF2 8 r 1 (b, r)) as (f2&E2); [lia|lia|apply nostart_weaken with 8; [apply (Nat.le_trans _ (level b)); [lia|apply level_le_rl]|exact Hns]|apply ploop_stop; exact Hns|].
    simpl. rewrite <- app_assoc. simpl.
    apply (IHWF1 p (TPow :: flat b ++ r) (S (max f2 f)) res); [lia|lia| |].
    + unfold nostart; simpl. pose proof (level_le_rl a). lia.
    + simpl. assert (P: (p <=? 8) = true) by (apply Nat.leb_le; lia). rewrite P.
      rewrite (pexpr_mono f2 _ _ _ _ (Nat.le_max_l _ _) E2). eapply ploop_mono; [apply Nat.le_max_r|exact Hl].
  - (* Mul *) simpl in Hp, Hns.
    destruct (IHWF2 8 r 1 (b, r)) as (f2&E2); [lia|lia|apply nostart_weaken with 8; [apply (Nat.le_trans _ (level b)); [lia|apply level_le_rl]|exact Hns]|apply ploop_stop; exact Hns|].
    simpl. rewrite <- app_assoc. simpl.
    apply (IHWF1 p (TMul m :: flat b ++ r) (S (max f2 f)) res); [lia|lia| |].
    + unfold nostart; simpl. destruct a; simpl in *; lia.
    + simpl. assert (P: (p <=? 7) = true) by (apply Nat.leb_le; lia). rewrite P.
      rewrite (pexpr_mono f2 _ _ _ _ (Nat.le_max_l _ _) E2). eapply ploop_mono; [apply Nat.le_max_r|exact Hl].
  - (* Add *) simpl in Hp, Hns.
    destruct (IHWF2 7 r 1 (b, r)) as (f2&E2); [lia|lia|apply nostart_weaken with 7; [apply (Nat.le_trans _ (level b)); [lia|apply level_le_rl]|exact Hns]|apply ploop_stop; exact Hns|].
    simpl. rewrite <- app_assoc. simpl.
    apply (IHWF1 p (TAdd s :: flat b ++ r) (S (max f2 f)) res); [lia|lia| |].
    + unfold nostart; simpl. destruct a; simpl in *; lia.
    + simpl. assert (P: (p <=? 6) = true) by (apply Nat.leb_le; lia). rewrite P.
      rewrite (pexpr_mono f2 _ _ _ _ (Nat.le_max_l _ _) E2). eapply ploop_mono; [apply Nat.le_max_r|exact Hl].
Qed.

Theorem pexpr_complete e p r : WF e -> p <= level e -> p <= 9 -> nostart p r ->
  exists f, pexpr f p (flat e ++ r) = Some (e, r).
Proof.
  intros W Hp H9 Hn. apply (resume e W p r 1 (e, r)); auto.
  - apply nostart_weaken with p; auto. apply (Nat.le_trans _ (level e)); auto. apply level_le_rl.
  - apply ploop_stop; auto.
Qed.

(* uniqueness of the stratified reading follows *)
Corollary strat_unique e1 e2 : WF e1 -> WF e2 -> flat e1 = flat e2 -> e1 = e2.
Proof.
  intros W1 W2 E.
  destruct (pexpr_complete e1 0 [] W1) as (f1&P1); [lia|lia|simpl; auto|].
  destruct (pexpr_complete e2 0 [] W2) as (f2&P2); [lia|lia|simpl; auto|].
  rewrite E in P1. apply (pexpr_mono _ (max f1 f2)) in P1; [|apply Nat.le_max_l].
  apply (pexpr_mono _ (max f1 f2)) in P2; [|apply Nat.le_max_r]. congruence.
Qed.
Print Assumptions strat_unique.
Example ex1 : pexpr 20 0 [TAdd false; TA 2; TPow; TA 2] = Some (Pow (Sign false (Atom 2)) (Atom 2), []).
Proof. reflexivity. Qed.
Example ex2 : pexpr 20 0 [TA 2; TPow; TA 3; TPow; TAdd false; TA 1; TAdd true; TA 4; TMul true; TA 5]
  = Some (Add true (Pow (Atom 2) (Pow (Atom 3) (Sign false (Atom 1)))) (Mul true (Atom 4) (Atom 5)), []).
Proof. reflexivity. Qed.
