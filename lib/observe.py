"""Canonical observations of implementation programs and their comparison with model observations."""
import json

import mpmath as mp
import numpy as np
import sympy as sym

import numerics as nx
from numerics import zval

POINTS = [mp.mpf("0.7133"), mp.mpf("1.2917"), mp.mpf("0.4361"), mp.mpf("1.8123"), mp.mpf("0.9377")]


def sym_points(names, k):
    """deterministic sample point number k for a sorted list of symbol names"""
    names = sorted(names)
    return {n: POINTS[(i * 2 + k) % len(POINTS)] + mp.mpf(k) / 17 for i, n in enumerate(names)}


def classify(v):
    """kind of an implementation value"""
    from blackbird.listener import RegRefTransform
    if isinstance(v, RegRefTransform):
        return "trf"
    if isinstance(v, (bool, np.bool_)):
        return "bool"
    if isinstance(v, (int, np.integer)):
        return "int"
    if isinstance(v, (float, np.floating)):
        return "float"
    if isinstance(v, (complex, np.complexfloating)):
        return "complex"
    if isinstance(v, str):
        return "str"
    if isinstance(v, sym.Expr):
        return "sym"
    if isinstance(v, np.ndarray):
        return "arr"
    if isinstance(v, (list, tuple)):
        return "list"
    return "other:" + type(v).__name__


def cmp_number(path, mv, iv, out, stats, kind_strict=True):
    """model numeric value (kind, term) vs implementation number"""
    k = mv["k"]
    ik = classify(iv)
    if k == "int":
        if ik != "int" and kind_strict:
            out.append("%s: kind %s, expected int" % (path, ik))
            return
        z = zval(mv["v"])
        same = (int(iv) == z) if ik == "int" else (ik in ("float", "complex") and complex(iv) == z)
        if not same:
            out.append("%s: value %r, expected %d" % (path, iv, zval(mv["v"])))
        return
    if ik not in ("int", "float", "complex") or (kind_strict and ik != k):
        out.append("%s: kind %s, expected %s" % (path, ik, k))
        return
    try:
        val, err = nx.ev(mv["t"])
    except nx.Undefined as e:
        stats["undefined_terms"] = stats.get("undefined_terms", 0) + 1
        return
    ok, well = nx.close(complex(iv) if ik == "complex" else (float(iv) if ik == "float" else int(iv)), val, err)
    stats["numeric_compared"] = stats.get("numeric_compared", 0) + 1
    if not well:
        stats["ill_conditioned"] = stats.get("ill_conditioned", 0) + 1
    if not ok:
        out.append("%s: value %r, expected %s (exact value of the written expression)" % (path, iv, mp.nstr(val, 17)))


def term_syms(t, acc=None):
    if acc is None:
        acc = {"par": set(), "reg": set()}
    if t[0] in ("par", "reg"):
        acc[t[0]].add(t[1])
    else:
        for x in t[1:]:
            if isinstance(x, list):
                term_syms(x, acc)
    return acc


def cmp_symbolic(path, mt, expr, out, stats, symbols=None, func=None):
    """model term with free symbols vs sympy expression (or a transform's function over `symbols`)"""
    ms = term_syms(mt)
    mnames = ms["par"] | ms["reg"]
    defined = 0
    for k in range(3):
        try:
            nx.ev(mt, sym_points(mnames, k))
            defined += 1
        except nx.Undefined:
            pass
    if not defined:
        # the written expression leaves the range of doubles (or the real domain) at every sample point: unspecified
        stats["undefined_terms"] = stats.get("undefined_terms", 0) + 1
        return
    if func is None:
        inames = {str(s) for s in expr.free_symbols}
        if inames != mnames:
            out.append("%s: free symbols %s, expected %s" % (path, sorted(inames), sorted(mnames)))
            return
        order = sorted(inames)
        f = sym.lambdify([sym.Symbol(n) for n in order], expr, modules="mpmath")
    else:
        order = symbols
        f = func
    for k in range(3):
        pt = sym_points(mnames, k)
        try:
            val, err = nx.ev(mt, pt)
        except nx.Undefined:
            stats["undefined_terms"] = stats.get("undefined_terms", 0) + 1
            continue
        try:
            if func is None:
                iv = f(*[pt[n] for n in order])
            else:
                iv = f(*[float(pt[n]) for n in order])
            iv = mp.mpmathify(complex(iv)) if not isinstance(iv, (mp.mpf, mp.mpc)) else iv
        except Exception as e:  # noqa: BLE001
            out.append("%s: symbolic value cannot be evaluated at %s: %s" % (path, {n: float(v) for n, v in pt.items()}, e))
            return
        d = abs(iv - val)
        if d > max(mp.mpf(1e-9) * abs(val), 4096 * err, mp.mpf(1e-12)):
            out.append("%s: symbolic value %s at %s, expected %s" % (path, mp.nstr(iv, 15), {n: float(v) for n, v in pt.items()}, mp.nstr(val, 15)))
            return
    stats["symbolic_compared"] = stats.get("symbolic_compared", 0) + 1


def cmp_value(path, mv, iv, out, stats, lax_kind=False):
    k = mv["k"]
    ik = classify(iv)
    if k in ("int", "float", "complex"):
        cmp_number(path, mv, iv, out, stats, kind_strict=not lax_kind)
    elif k == "bool":
        if ik != "bool" or bool(iv) != mv["v"]:
            out.append("%s: %r, expected bool %s" % (path, iv, mv["v"]))
    elif k == "str":
        if ik != "str" or iv != mv["v"]:
            out.append("%s: %r, expected str %r" % (path, iv, mv["v"]))
    elif k == "pname":
        if ik != "str" or iv != mv["v"]:
            out.append("%s: %r, expected the array name %r" % (path, iv, mv["v"]))
    elif k == "list":
        if ik != "list" or len(iv) != len(mv["e"]):
            out.append("%s: %r, expected a list of %d values" % (path, iv, len(mv["e"])))
        else:
            for i, (a, b) in enumerate(zip(mv["e"], iv)):
                cmp_value("%s[%d]" % (path, i), a, b, out, stats, lax_kind)
    elif k == "sym":
        if ik != "sym":
            out.append("%s: kind %s (%r), expected a symbolic expression" % (path, ik, iv))
        else:
            cmp_symbolic(path, mv["t"], iv, out, stats)
    elif k == "trf":
        if ik != "trf":
            out.append("%s: kind %s (%r), expected a register transform" % (path, ik, iv))
        else:
            ms = term_syms(mv["t"])
            want = sorted(int(r[1:]) for r in ms["reg"])
            got = list(iv.regrefs)
            if sorted(got) != want or len(set(got)) != len(got):
                out.append("%s: transform registers %s, expected %s" % (path, got, want))
            elif ms["par"]:
                stats["mixed_transform"] = stats.get("mixed_transform", 0) + 1
            else:
                # map register number -> model symbol text (q1 and q01 would coincide; generators avoid that)
                by_num = {int(r[1:]): r for r in ms["reg"]}
                cmp_symbolic(path, mv["t"], None, out, stats, symbols=[by_num[n] for n in got], func=iv.func)
    elif k == "arr":
        if ik != "arr":
            out.append("%s: kind %s, expected an array" % (path, ik))
            return
        if iv.ndim != 2 or iv.shape != (mv["r"], mv["c"]):
            out.append("%s: array shape %s, expected (%d, %d)" % (path, iv.shape, mv["r"], mv["c"]))
            return
        has_sym = any(e["k"] == "sym" for e in mv["e"])
        want_kind = {"int": "i", "float": "f", "complex": "c"}.get(mv["ty"])
        if has_sym:
            if iv.dtype.kind != "O":
                out.append("%s: array dtype %s, expected object (template parameters inside)" % (path, iv.dtype))
                return
        elif want_kind and iv.dtype.kind != want_kind and not lax_kind:
            out.append("%s: array dtype %s, expected element type %s" % (path, iv.dtype, mv["ty"]))
            return
        flat = iv.reshape(-1)
        for i, (a, b) in enumerate(zip(mv["e"], flat)):
            cmp_value("%s[%d,%d]" % (path, i // mv["c"], i % mv["c"]), a, b, out, stats, lax_kind=has_sym or lax_kind)
    else:
        out.append("%s: unknown model kind %s" % (path, k))


def cmp_kv(path, mkv, idict, out, stats, lax_kind=False):
    if not isinstance(idict, dict) or [k for k, _ in mkv] != list(idict.keys()):
        out.append("%s: keys %s, expected %s" % (path, list(idict.keys()) if isinstance(idict, dict) else idict, [k for k, _ in mkv]))
        return
    for k, v in mkv:
        cmp_value("%s.%s" % (path, k), v, idict[k], out, stats, lax_kind)


def cmp_prog(mp_, ip, stats, check_vars=True, lax_kind=False):
    """model program (parsed JSON "v") vs implementation BlackbirdProgram -> list of differences"""
    out = []
    if ip.name != mp_["name"]:
        out.append("name %r, expected %r" % (ip.name, mp_["name"]))
    if ip.version != mp_["version"]:
        out.append("version %r, expected %r" % (ip.version, mp_["version"]))
    if ip.target["name"] != mp_["target"]:
        out.append("target %r, expected %r" % (ip.target["name"], mp_["target"]))
    cmp_kv("target.options", mp_["target_opts"], ip.target["options"], out, stats)
    if ip.programtype["name"] != mp_["type"]:
        out.append("type %r, expected %r" % (ip.programtype["name"], mp_["type"]))
    cmp_kv("type.options", mp_["type_opts"], ip.programtype["options"], out, stats)
    ops = ip.operations
    if len(ops) != len(mp_["ops"]) or len(ip) != len(mp_["ops"]):
        out.append("%d operations (len %d), expected %d" % (len(ops), len(ip), len(mp_["ops"])))
    for i, (mo, io) in enumerate(zip(mp_["ops"], ops)):
        p = "op[%d]" % i
        if io.get("op") != mo["op"]:
            out.append("%s: gate %r, expected %r" % (p, io.get("op"), mo["op"]))
        im = io.get("modes")
        wm = [zval(m) for m in mo["modes"]]
        if not isinstance(im, list) or any(classify(m) != "int" for m in im) or [int(m) for m in im] != wm:
            out.append("%s: modes %r, expected %s" % (p, im, wm))
        if mo["args"] is None:
            if "args" in io and (io["args"] or io.get("kwargs")):
                out.append("%s: has arguments %r %r, expected none" % (p, io.get("args"), io.get("kwargs")))
        else:
            if "args" not in io or "kwargs" not in io:
                out.append("%s: no arguments, expected %d positional" % (p, len(mo["args"]["pos"])))
                continue
            if len(io["args"]) != len(mo["args"]["pos"]):
                out.append("%s: %d positional arguments, expected %d" % (p, len(io["args"]), len(mo["args"]["pos"])))
            for j, (a, b) in enumerate(zip(mo["args"]["pos"], io["args"])):
                cmp_value("%s.args[%d]" % (p, j), a, b, out, stats, lax_kind)
            cmp_kv("%s.kwargs" % p, mo["args"]["kw"], io["kwargs"], out, stats, lax_kind)
    wm = sorted(zval(m) for m in mp_["modes"])
    try:
        gm = sorted(int(m) for m in ip.modes)
    except Exception:  # noqa: BLE001
        gm = None
    if gm != wm:
        out.append("mode set %r, expected %s" % (ip.modes, wm))
    if set(ip.parameters) != set(mp_["params"]):
        out.append("free parameters %s, expected %s" % (sorted(ip.parameters), sorted(mp_["params"])))
    if ip.is_template() != bool(mp_["params"]):
        out.append("is_template() %s, expected %s" % (ip.is_template(), bool(mp_["params"])))
    if check_vars:
        iv = ip.variables
        mv = dict((k, v) for k, v in mp_["vars"])
        if set(iv.keys()) != set(mv.keys()):
            out.append("variables %s, expected %s" % (sorted(iv.keys()), sorted(mv.keys())))
        else:
            for k in mv:
                cmp_value("var.%s" % k, mv[k], iv[k], out, stats, lax_kind)
    return out


def enc(text):
    return ",".join(str(ord(c)) for c in text)


def model_loads(model, text, cwd="/", files=None):
    fields = ["LOADS", enc(cwd), enc(text)]
    for p, t in (files or {}).items():
        fields += [enc(p), enc(t)]
    return json.loads(model.ask(*fields))


def model_load(model, path, cwd="/", files=None):
    fields = ["LOAD", enc(cwd), enc(path)]
    for p, t in (files or {}).items():
        fields += [enc(p), enc(t)]
    return json.loads(model.ask(*fields))
