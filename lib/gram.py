"""Grammar-driven generation of token sequences and texts, read from the same translator (T1) the model uses."""
import importlib.util
import os
import random

from framework import REPO, VERIF

_spec = importlib.util.spec_from_file_location("g4_to_coq", os.path.join(VERIF, "translators", "g4_to_coq.py"))
g4 = importlib.util.module_from_spec(_spec)
_spec.loader.exec_module(g4)


class Grammar:
    def __init__(self, repo=REPO):
        self.model = g4.grammar_model(g4.read_grammar(os.path.join(repo, "src", "blackbird.g4")))
        self.lex = self.model["lex"]
        self.par = self.model["par"]
        self.ttypes = self.model["ttypes"]            # name -> type
        self.tname = {v: k for k, v in self.ttypes.items()}
        self.tname[0] = "EOF"
        self.rule_index = {r["name"]: i for i, r in enumerate(self.par)}
        self.skip_types = {r["ttype"] for r in self.lex if r["skip"]}
        self._min = None

    # ------------------------------------------------------------------ minimal derivation sizes (for termination)
    def min_sizes(self):
        if self._min is not None:
            return self._min
        INF = 10 ** 9
        m = [INF] * len(self.par)

        def size(e):
            k = e[0]
            if k == "tok":
                return 1
            if k == "ref":
                return m[e[1]]
            if k == "eps":
                return 0
            if k == "seq":
                return min(INF, sum(size(x) for x in e[1]))
            if k == "alt":
                return min(size(x) for x in e[1])
            if k == "star":
                return 0
            raise ValueError(k)
        changed = True
        while changed:
            changed = False
            for i, r in enumerate(self.par):
                s = size(r["body"])
                if s < m[i]:
                    m[i] = s
                    changed = True
        self._min = (m, size)
        return self._min

    def derive(self, rng, rule=None, budget=40):
        """random derivation of rule -> list of token types (EOF = 0 included for start)."""
        m, size = self.min_sizes()
        if rule is None:
            rule = self.model["start"]
        out = []

        def go(e, budget):
            k = e[0]
            if k == "tok":
                out.append(e[1])
            elif k == "ref":
                go(self.par[e[1]]["body"], budget)
            elif k == "eps":
                pass
            elif k == "seq":
                n = len(e[1])
                for x in e[1]:
                    go(x, max(0, budget // n))
            elif k == "alt":
                opts = [x for x in e[1] if size(x) <= max(budget, 0)]
                if not opts:
                    mn = min(size(x) for x in e[1])
                    opts = [x for x in e[1] if size(x) == mn]
                go(rng.choice(opts), budget)
            elif k == "star":
                if size(e[1]) > 10 ** 8:
                    return
                reps = 0
                while budget > size(e[1]) and rng.random() < 0.6 and reps < 6:
                    b = max(size(e[1]), budget // 2)
                    before = len(out)
                    go(e[1], b)
                    if len(out) == before:
                        break       # empty iteration: M requires non-empty iterations; same word anyway
                    budget -= b
                    reps += 1
        go(("ref", rule), budget)
        return out

    def derive_cov(self, rng, maxdepth=9, rule=None):
        """random derivation recording every decision of the EBNF (which alternative / whether a repetition goes on)
        together with the token that follows the decision point: -> (kinds, set of (decision id, choice, next token)).
        These triples are what a generated LL parser switches on."""
        m, size = self.min_sizes()
        if rule is None:
            rule = self.model["start"]
        out = []
        events = []

        def go(e, depth, path):
            k = e[0]
            if k == "tok":
                out.append(e[1])
            elif k == "ref":
                go(self.par[e[1]]["body"], depth + 1, ("r", e[1]))
            elif k == "eps":
                pass
            elif k == "seq":
                for i, x in enumerate(e[1]):
                    go(x, depth, path + (i,))
            elif k == "alt":
                idx = list(range(len(e[1])))
                if depth >= maxdepth:
                    mn = min(size(x) for x in e[1])
                    idx = [i for i in idx if size(e[1][i]) == mn]
                i = rng.choice(idx)
                events.append((path, i, len(out)))
                go(e[1][i], depth, path + ("a", i))
            elif k == "star":
                reps = 0
                while depth < maxdepth and size(e[1]) < 10 ** 8 and reps < 4 and rng.random() < 0.45:
                    before = len(out)
                    events.append((path, 1, before))
                    go(e[1], depth, path + ("s",))
                    if len(out) == before:
                        break
                    reps += 1
                events.append((path, 0, len(out)))
        go(("ref", rule), 0, ())
        cov = {(p, c, out[pos] if pos < len(out) else 0) for p, c, pos in events}
        return out, cov

    def enumerate_rule(self, rule, max_len, limit=200000):
        """all token sequences of length <= max_len derivable from rule (sets of tuples); may be truncated by limit."""
        memo = {}

        def lang(e, n, depth):
            # returns set of tuples of length <= n
            key = (id(e), n)
            k = e[0]
            if k == "tok":
                return {(e[1],)} if n >= 1 else set()
            if k == "eps":
                return {()}
            if k == "ref":
                kk = ("r", e[1], n)
                if kk in memo:
                    return memo[kk]
                if depth > 3 * max_len + 6:
                    return set()
                memo[kk] = set()       # cut cycles (left recursion is already removed)
                r = lang(self.par[e[1]]["body"], n, depth + 1)
                memo[kk] = r
                return r
            if k == "seq":
                acc = {()}
                for x in e[1]:
                    nxt = set()
                    for a in acc:
                        for b in lang(x, n - len(a), depth + 1):
                            if len(a) + len(b) <= n:
                                nxt.add(a + b)
                                if len(nxt) > limit:
                                    raise OverflowError
                    acc = nxt
                return acc
            if k == "alt":
                s = set()
                for x in e[1]:
                    s |= lang(x, n, depth + 1)
                return s
            if k == "star":
                acc = {()}
                frontier = {()}
                while frontier:
                    nxt = set()
                    for a in frontier:
                        for b in lang(e[1], n - len(a), depth + 1):
                            if b and len(a) + len(b) <= n and a + b not in acc:
                                nxt.add(a + b)
                    acc |= nxt
                    if len(acc) > limit:
                        raise OverflowError
                    frontier = nxt
                return acc
            raise ValueError(k)
        return lang(("ref", rule), max_len, 0)


# ---------------------------------------------------------------------- lexemes
FIXED = {}


def lexeme_table(gr, model, rng):
    """For every non-skip token type a list of texts that lex to exactly that one token (verified with the model
    lexer, so the table follows the grammar file)."""
    tab = {}
    cands = {
        "INT": ["0", "1", "7", "42", "007", "123456"],
        "FLOAT": ["1.0", "0.5", "3.25", "1e3", "2E-2", "12.5e+1", "10.0"],
        "COMPLEX": ["1j", "2.5J", "1+2j", "3-1.5j", "+2j", "-0.5e1J", "1e1+2e-1j"],
        "STR": ['"a"', '""', '"hello world"', '"x#y"', '"1+2"'],
        "BOOL": ["True", "False"],
        "SEQUENCE": ["1,2", "1.5,2,3"],
        "NEWLINE": ["\n", "\r\n", "\r"],
        "TAB": ["    ", "\t"],
        "REGREF": ["q0", "q1", "q12"],
        "MEASURE": ["Measure", "MeasureX", "MeasureHomodyne"],
        "NAME": ["x", "alpha", "Sgate", "a_1", "BSgate", "p0", "ab", "n", "fora", "q"],
        "DEVICE": ["x.y", "1abc", "dev_1.2", "_u"],
        "ANY": ["$", "@", "!", ";", "%", "~", "?", "\\", "&", "`", "^", "<", ">", "'", "_"],
    }
    for r in gr.lex:
        if r["fragment"] or r["skip"]:
            continue
        name = r["name"]
        opts = list(cands.get(name, []))
        if r["literal"] is not None:
            opts.append(r["literal"])
        good = []
        for t in opts:
            try:
                toks = model.lex(t)
            except Exception:
                continue
            if len(toks) == 1 and toks[0][0] == r["ttype"] and toks[0][2] == len(t):
                good.append(t)
        tab[r["ttype"]] = good
    return tab


def render(kinds, tab, rng, eof=True):
    """text for a token type sequence; separators chosen so that the lexer re-reads the same kinds
    (caller verifies).  TAB and NEWLINE get no adjacent spaces."""
    NL = None
    parts = []
    prev = None
    for k in kinds:
        if k == 0:
            continue
        opts = tab.get(k)
        if not opts:
            return None
        s = rng.choice(opts) if rng.random() < 0.5 else opts[0]
        if prev is not None:
            if prev[0] in ("\n", "\r", "\t") or prev == "    " or s[0] in ("\n", "\r", "\t") or s == "    ":
                sep = ""
            else:
                sep = " "
            parts.append(sep)
        parts.append(s)
        prev = s
    return "".join(parts)
