"""Run batches through lib/worker.py in pristine subprocesses (hash seed, cwd), in parallel."""
import json
import os
import subprocess
from concurrent.futures import ThreadPoolExecutor

from framework import PY, REPO, VERIF

WORKER = os.path.join(VERIF, "lib", "worker.py")


def run_batch(items, seed="0", cwd=None, timeout=600, extra=None, env_extra=None):
    env = dict(os.environ)
    env.update(env_extra or {})
    env["PYTHONHASHSEED"] = str(seed)
    env["BB_REPO"] = REPO
    env["PYTHONPATH"] = os.path.join(REPO, "blackbird_python")
    r = subprocess.run([PY, WORKER], input=json.dumps(dict({"items": items, "cwd": cwd}, **(extra or {}))), capture_output=True, text=True,
                       env=env, timeout=timeout)
    if r.returncode != 0:
        raise RuntimeError("worker failed: " + r.stderr[-500:])
    return json.loads(r.stdout)


def run_many(jobs, workers=16):
    """jobs: list of (items, seed, cwd) -> list of results in order"""
    with ThreadPoolExecutor(max_workers=workers) as ex:
        futs = [ex.submit(run_batch, j[0], j[1], j[2], env_extra=(j[3] if len(j) > 3 else None)) for j in jobs]
        return [f.result() for f in futs]
