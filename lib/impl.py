"""In-process drivers of the implementation under /repo (always the working tree, never an installed copy)."""
import os
import sys
import warnings

from framework import REPO

_pp = os.path.join(REPO, "blackbird_python")
if _pp not in sys.path:
    sys.path.insert(0, _pp)
os.environ.setdefault("PYTHONHASHSEED", "0")
warnings.filterwarnings("ignore")

import antlr4  # noqa: E402
from antlr4.error.ErrorListener import ErrorListener  # noqa: E402

import blackbird  # noqa: E402
from blackbird.blackbirdLexer import blackbirdLexer  # noqa: E402
from blackbird.blackbirdParser import blackbirdParser  # noqa: E402
import blackbird.auxiliary as _aux  # noqa: E402

assert os.path.realpath(blackbird.__file__).startswith(os.path.realpath(REPO)), blackbird.__file__


class _Collect(ErrorListener):
    def __init__(self):
        self.errors = []

    def syntaxError(self, recognizer, offendingSymbol, line, column, msg, e):
        self.errors.append((line, column, getattr(offendingSymbol, "tokenIndex", -1) if offendingSymbol is not None else -1, msg))


def lex(text):
    """token stream of the shipped Python lexer: (type, start, stop_exclusive, line, column); lexer errors collected"""
    lx = blackbirdLexer(antlr4.InputStream(text))
    lx.removeErrorListeners()
    col = _Collect()
    lx.addErrorListener(col)
    toks = []
    while True:
        tk = lx.nextToken()
        if tk.type == -1:
            break
        toks.append((tk.type, tk.start, tk.stop + 1, tk.line, tk.column))
    return toks, col.errors


def parse_verdict(text):
    """run the shipped parser alone (no Blackbird listener): (accepted, errors)"""
    lx = blackbirdLexer(antlr4.InputStream(text))
    lx.removeErrorListeners()
    stream = antlr4.CommonTokenStream(lx)
    p = blackbirdParser(stream)
    p.removeErrorListeners()
    col = _Collect()
    p.addErrorListener(col)
    try:
        tree = p.start()
    except Exception as e:  # noqa: BLE001
        # the generated parser must answer with a verdict; any other exception is reported as an error of its own kind
        return None, [(0, 0, -1, "parser raised %s: %s" % (type(e).__name__, str(e)[:80]))], None, stream
    return (len(col.errors) == 0), col.errors, tree, stream


def parse_verdict_fresh(text):
    """parse_verdict with the parser in the state of a fresh process: the generated module keeps its automaton, prediction caches
    and the error handler's follow-set caches in class attributes, so what an earlier parse left there can hide (or cause) an error.
    A second copy of the generated module is executed from its source file for this one parse."""
    import importlib.util
    import blackbird.blackbirdParser as mod
    spec = importlib.util.spec_from_file_location("blackbird._fresh_blackbirdParser", mod.__file__)
    fresh = importlib.util.module_from_spec(spec)
    spec.loader.exec_module(fresh)
    lx = blackbirdLexer(antlr4.InputStream(text))
    lx.removeErrorListeners()
    p = fresh.blackbirdParser(antlr4.CommonTokenStream(lx))
    p.removeErrorListeners()
    col = _Collect()
    p.addErrorListener(col)
    try:
        p.start()
    except Exception as e:  # noqa: BLE001
        return None, [(0, 0, -1, "parser raised %s: %s" % (type(e).__name__, str(e)[:80]))]
    return (len(col.errors) == 0), col.errors


def reset_tables():
    """isolate single-load observations from the process-wide tables (C12 has its own check)"""
    _aux._VAR.clear()
    _aux._PARAMS.clear()


def loads(text):
    reset_tables()
    return blackbird.loads(text)


_FILE_DIR = None


def load_via_file(text):
    """the same script through blackbird.load: written byte for byte to a scratch file (ASCII texts only: load decodes ASCII)"""
    global _FILE_DIR
    import atexit
    import os
    import shutil
    import tempfile
    if _FILE_DIR is None:
        _FILE_DIR = tempfile.mkdtemp(prefix="bbverif.", dir="/var/tmp")
        atexit.register(shutil.rmtree, _FILE_DIR, True)
    path = os.path.join(_FILE_DIR, "script.xbb")
    with open(path, "w", newline="", encoding="ascii") as f:
        f.write(text)
    reset_tables()
    return blackbird.load(path)
