"""C12 — each load is independent of every earlier load in the process."""
import json
import os
import random
import shutil
import tempfile

import framework as fw
import observe
import subproc
from framework import Result, finish, proof_obligations
from gen_script import Gen

PROP = "C12"
NEEDS = ["model/Tables.v", "proofs/TablesP.v", "gen/Facts.v", "proofs/FactsP.v", "extract/Extract.v"]
H = "name h\nversion 1.0\n"


def pool(rng, scratch):
    """scripts of every flavour: valid, templates, failing at each stage, metadata options mentioning names"""
    items = []
    names = ["n", "x", "alpha", "k", "p0", "m"]
    for nm in names:
        v = rng.randint(2, 9)
        items.append(("binds-%s" % nm, {"text": H + "int %s = %d\nOp(%s) | 0\n" % (nm, v, nm)}))
        items.append(("fails-after-binding-%s" % nm, {"text": H + "int %s = %d\nOp(undefined_name) | 0\n" % (nm, v)}))
        items.append(("fails-in-loop-%s" % nm, {"text": H + "int %s = %d\nfor int i in [0, 1]\n    Op(zzz, i) | 0\n" % (nm, v)}))
        items.append(("loopvar-%s" % nm, {"text": H + "for int %s in [4, 5]\n    Op(%s, www) | 0\n" % (nm, nm)}))
        items.append(("meta-mentions-%s" % nm, {"text": "name h\nversion 1.0\ntarget dev (shots=%s)\nVac | 0\n" % nm}))
        items.append(("type-mentions-%s" % nm, {"text": "name h\nversion 1.0\ntype tdm (temporal_modes=%s + 1)\nVac | 0\n" % nm}))
        items.append(("uses-%s" % nm, {"text": H + "Op(%s) | 0\n" % nm}))
        items.append(("template-%s" % nm, {"text": H + "Op({%s}, 2 * {%s}) | 0\n" % (nm, nm)}))
        items.append(("array-%s" % nm, {"text": H + "float array %s =\n    1, 2\nOp(%s) | 0\n" % (nm, nm)}))
        items.append(("bad-mode-%s" % nm, {"text": H + "float %s = 0.5\nOp | %s\n" % (nm, nm)}))
        # failures of every exception class after the name has been bound (TypeError, ValueError, IndexError, ZeroDivisionError ...)
        items.append(("fails-cast-after-binding-%s" % nm, {"text": H + "int %s = %d\nfloat zz9 = 2j\nOp(1) | 0\n" % (nm, v)}))
        items.append(("fails-index-after-binding-%s" % nm, {"text": H + "int %s = %d\nint array AA =\n    1, 2\nOp(AA[%d]) | 0\n" % (nm, v, v + 5)}))
        items.append(("fails-loopvalue-after-binding-%s" % nm, {"text": H + "int %s = %d\nfor int i in [1, 2.5]\n    Op(i) | 0\n" % (nm, v)}))
        items.append(("fails-mode-after-binding-%s" % nm, {"text": H + "int %s = %d\nOp(1) | 0.5\n" % (nm, v)}))
        items.append(("fails-arity-after-binding-%s" % nm, {"text": H + "int %s = %d\nint array AB[2, 2] =\n    1, 2, 3\nOp(1) | 0\n" % (nm, v)}))
    items.append(("syntax-error", {"text": H + "int n = 3\nOp(1 2) | 0\n"}))
    # syntax errors at the very first token, at the end of the text, and a lexical one (state of a parser or lexer that
    # survived an earlier failure shows on exactly these)
    items.append(("syntax-error-first-token", {"text": "prog name prog\nversion 1.0\nVac | 0\n"}))
    items.append(("syntax-error-first-token-2", {"text": "= name prog\nversion 1.0\nVac | 0\n"}))
    items.append(("syntax-error-missing-name", {"text": "version 1.0\nVac | 0\n"}))
    items.append(("leading-blank-1", {"text": "\n" + H + "Vac | 0\n"}))
    items.append(("leading-blank-2", {"text": "\n\n" + H + "Sgate(0.5) | 0\nMeasureFock() | 0\n"}))
    items.append(("syntax-error-missing-name-after-blank", {"text": "\n\nversion 1.0\nVac | 0\n"}))
    items.append(("syntax-error-eof", {"text": H + "Op(1, 2\n"}))
    items.append(("syntax-error-char", {"text": H + "Op(1 ? 2) | 0\n"}))
    items.append(("syntax-error-late", {"text": H + "int n = 3\nfloat array x =\n    1, 2\nOp | \n"}))
    items.append(("tdm-parray", {"text": "name t\nversion 1.0\ntype tdm (temporal_modes=1)\nfloat array p0 =\n    1, 2\nSgate(p0) | 0\n"}))
    items.append(("tdm-parray-fails", {"text": "name t\nversion 1.0\ntype tdm (temporal_modes=1)\nfloat array p0 =\n    1, 2\nSgate(p0, qqq) | 0\n"}))
    items.append(("tdm-p0-by-value", {"text": "name t\nversion 1.0\nfloat array p0 =\n    3, 4\nSgate(p0) | 0\n"}))
    items.append(("cast-error", {"text": H + "int n = 4\nfloat x = 1+2j\n"}))
    items.append(("cast-error-computed", {"text": H + "float x = 2*1j\nOp(x) | 0\n"}))
    items.append(("cast-error-computed-int", {"text": H + "int k = (1+2j)**2\nOp(k) | 0\n"}))
    items.append(("cast-error-computed-array", {"text": H + "int array A =\n    3*1j, 1\nOp(A) | 0\n"}))
    items.append(("scalar-of-bare-type-array", {"text": H + "array x = 3\nOp(x) | 0\n"}))
    items.append(("scalar-of-bare-type-array-big", {"text": H + "int n = 64\narray x = n\nOp(x) | 0\nfloat array A =\n    1, 2\nOp(A) | 1\n"}))
    items.append(("declares-complex", {"text": H + "complex z = 1+2j\nstr s = \"a\"\nbool b = True\nOp(z, s, b) | 0\n"}))
    items.append(("declares-two-floats", {"text": H + "float a1 = 0.5\nfloat a2 = 1.5\nint a3 = 2\nOp(a1, a2, a3) | 0\n"}))
    # includes: a subroutine used by two different main files, and a failing include
    d = os.path.join(scratch, "inc")
    os.makedirs(d, exist_ok=True)
    open(os.path.join(d, "sub.xbb"), "w").write("name sub\nversion 1.0\nint n = 7\nRgate(n) | 3\nRgate({a}) | 5\n")
    open(os.path.join(d, "bad.xbb"), "w").write("name bad\nversion 1.0\nint k = 7\nRgate(undefined_in_include) | 3\n")
    open(os.path.join(d, "m1.xbb"), "w").write('name m1\nversion 1.0\ninclude "sub.xbb"\nsub(a=1) | [0, 1]\nsub(a=2) | [1, 0]\n')
    open(os.path.join(d, "m2.xbb"), "w").write('name m2\nversion 1.0\ninclude "sub.xbb"\nsub(a=3) | [4, 2]\nOp(n) | 0\n')
    open(os.path.join(d, "m3.xbb"), "w").write('name m3\nversion 1.0\ninclude "bad.xbb"\nVac | 0\n')
    for f in ("m1", "m2", "m3"):
        items.append(("include-" + f, {"path": os.path.join(d, f + ".xbb")}))
    # two projects with the same relative layout but different subroutines, loaded through relative paths
    for proj, gate in (("PA", "Sgate"), ("PB", "BSgate")):
        pd = os.path.join(scratch, proj)
        os.makedirs(os.path.join(pd, "lib"), exist_ok=True)
        open(os.path.join(pd, "lib", "sub.xbb"), "w").write("name Sub\nversion 1.0\n%s({x}) | 4\nRgate(1) | 9\n" % gate)
        open(os.path.join(pd, "main.xbb"), "w").write('name main\nversion 1.0\ninclude "lib/sub.xbb"\nSub(x=0.5) | [0, 1]\n')
        items.append(("relative-include-" + proj, {"path": "main.xbb", "cwd": pd}))
    # measured-register arguments: structurally equal expressions in different scripts (objects built for one load must
    # not be handed to another)
    items.append(("regref-a", {"text": H + "MeasureX | 0\nZgate(2*q0) | 1\n"}))
    items.append(("regref-b", {"text": H + "MeasureX | 0\nXgate(2*q0) | 2\nDgate(0.3, phi=2*q0) | 3\n"}))
    items.append(("regref-c", {"text": H + "MeasureX | 0\nMeasureP | 1\nBSgate(q0 + q1, 2*q0) | [2, 3]\n"}))
    # scripts whose evaluation touches process-wide numeric settings: divisions, poles (log(0) is -inf, not an error), overflow
    items.append(("numeric-division", {"text": H + "float half = 1 / 2\nOp(half / 4, 3 / 0.5) | 0\n"}))
    items.append(("numeric-pole-log", {"text": H + "Op(log(0)) | 0\n"}))
    items.append(("numeric-pole-arctanh", {"text": H + "Op(arctanh(1)) | 0\n"}))
    items.append(("numeric-pole-pow", {"text": H + "Op(0.0 ** -1) | 0\n"}))
    items.append(("numeric-overflow", {"text": H + "Op(exp(1000), 1e200 * 1e200) | 0\n"}))
    items.append(("numeric-invalid", {"text": H + "Op(sqrt(-1), arcsin(2)) | 0\n"}))
    # names of the implementation's own namespaces used as Blackbird identifiers: a template parameter, variable or loop variable
    # called np, sym, Symbol, copy, ... must stay a Blackbird name and leave the modules that evaluate later scripts alone
    for nm in module_names():
        items.append(("ns-template-%s" % nm, {"text": H + "Sgate({%s}, 0.1) | 0\nRgate(2 * {%s} + 1) | 1\n" % (nm, nm)}))
        items.append(("ns-variable-%s" % nm, {"text": H + "float %s = 0.5\nfor int i in 0:2\n    Sgate(%s * i) | i\n" % (nm, nm)}))
        items.append(("ns-regarg-%s" % nm, {"text": H + "MeasureX | 0\nZgate(q0 * 2, %s=q0 + 1) | 1\n" % nm}))
    items.append(("ns-arith", {"text": H + "float u = 2 ** 3 / 4 - 1\nOp(sin(u) + pi, sqrt(2) * u, -u) | 0\nMeasureX | 0\nZgate(2 * q0 + 1) | 1\nSgate({w} / 3 - 1) | 2\n"}))
    items.append(("empty-brackets-a", {"text": "name ea\nversion 1.0\ntarget X ()\nVac() | 0\nMeasureFock() | 1\n"}))
    items.append(("empty-brackets-b", {"text": "name eb\nversion 1.0\ntype tdm ()\nMeasureHomodyne() | 0\nVac() | [1, 2]\n"}))
    for nm in ["n", "x"]:
        fp = os.path.join(scratch, "meta_%s.xbb" % nm)
        open(fp, "w").write("name h\nversion 1.0\ntarget dev (shots=%s)\nVac | 0\n" % nm)
        items.append(("meta-mentions-%s-file" % nm, {"path": fp}))
    items.append(("op-named-like-include", {"text": H + "Sub(x=1) | [0, 1]\nsub(a=1) | [2, 3]\n"}))
    for i in range(10):
        g = Gen(rng, allow_params=(i % 2 == 0))
        try:
            items.append(("random", {"text": g.script()}))
        except Exception:  # noqa: BLE001
            pass
    return items


def module_names():
    """module-level names of the package's modules that are also valid Blackbird identifiers"""
    import importlib
    import re
    import sys
    for mn in ("blackbird", "blackbird.auxiliary", "blackbird.listener", "blackbird.program", "blackbird.utils", "blackbird.error"):
        importlib.import_module(mn)
    out = set()
    for mn, mod in list(sys.modules.items()):
        if mn == "blackbird" or mn.startswith("blackbird.") and not mn.endswith(("Lexer", "Parser", "Listener", "tests")):
            out |= {k for k in vars(mod) if re.fullmatch(r"[A-Za-z][A-Za-z0-9_]*", k)}
    reserved = {"name", "version", "target", "type", "include", "for", "in", "pi", "array", "float", "complex", "int", "str", "bool", "True", "False",
                "sqrt", "sin", "cos", "tan", "exp", "log"}
    pref = ["np", "sym", "Symbol", "var", "os", "re", "copy", "antlr4", "nx", "math", "sys"]
    names = [n for n in pref if n in out] + sorted(n for n in out - set(pref) - reserved if len(n) <= 22 and not re.fullmatch(r"q\d+", n))
    return names[:14]


def strip(o):
    """outcome without the dump (compared separately) -> canonical JSON"""
    return json.dumps({k: v for k, v in o.items()}, sort_keys=True)


def run(tier, seed):
    res = Result(PROP, tier, seed)
    rng = random.Random(seed)
    status = fw.build()
    proof_obligations(res, status, "props/C12.v", NEEDS, translators=("g4_to_coq", "facts_from_py"))
    quick = tier == "quick"
    scratch = tempfile.mkdtemp(prefix="bbverif.", dir="/var/tmp")
    ok = True
    try:
        items = pool(rng, scratch)
        # pristine outcome of every pool entry (each in its own forked child)
        chunks = [items[i::8] for i in range(8)]
        prist = subproc.run_many([([{"kind": "pristine", "steps": [s for _, s in ch]}], 0, None) for ch in chunks])
        pristine = {}
        for ch, r in zip(chunks, prist):
            for (tag, step), o in zip(ch, r[0]):
                pristine[json.dumps(step, sort_keys=True)] = o
        # histories
        hists = []
        if not quick:
            # all ordered pairs
            for a in items:
                for b in items:
                    hists.append([a, b])
        # always: all ordered pairs (and some triples) among the entries that involve files / includes / names of includes
        special = [it for it in items if it[0].startswith(("include-", "relative-include-", "op-named-like", "regref-", "empty-brackets-"))]
        num = [it for it in items if it[0].startswith("numeric-")] + [it for it in items if it[0] in ("binds-n", "cast-error", "fails-after-binding-n")] \
            + [it for it in items if it[0].startswith(("cast-error-computed", "declares-", "scalar-of-bare-type"))]
        for a in num:
            for b in num:
                hists.append([a, b])
        for a in special:
            for b in special:
                hists.append([a, b])
                if a is not b:
                    hists.append([a, b, a])
        # ... a script that uses a name of the implementation's own namespace, then scripts that compute
        ns = [it for it in items if it[0].startswith("ns-") and it[0] != "ns-arith"]
        arith = [it for it in items if it[0] in ("ns-arith", "numeric-division", "regref-c")]
        for a in ns:
            for b in arith:
                hists.append([a, b])
        # ... and among the scripts that fail in the lexer/parser (plus one valid script and one failing later)
        syn = [it for it in items if it[0].startswith(("syntax-error", "leading-blank"))] + [it for it in items if it[0] in ("binds-n", "fails-after-binding-n")]
        for a in syn:
            for b in syn:
                hists.append([a, b])
        # ... and every way of failing after binding a name, followed by the scripts whose metadata mention that name
        for nm in ["n", "x", "alpha", "k", "p0", "m"]:
            fails = [it for it in items if it[0].startswith("fails-") and it[0].endswith("-" + nm)] + [it for it in items if it[0] in ("bad-mode-" + nm, "loopvar-" + nm, "binds-" + nm, "array-" + nm)]
            later = [it for it in items if it[0] in ("meta-mentions-" + nm, "type-mentions-" + nm, "uses-" + nm, "meta-mentions-%s-file" % nm)]
            for a in fails:
                for b in later:
                    hists.append([a, b])
        n = 150 if quick else 3000
        for _ in range(n):
            ln = rng.randint(2, 4 if quick else 6)
            hists.append([rng.choice(items) for _ in range(ln)])
        jobs = []
        per = max(1, len(hists) // 16)
        groups = [hists[i:i + per] for i in range(0, len(hists), per)]
        for gp in groups:
            jobs.append(([{"kind": "history", "steps": [s for _, s in h]} for h in gp], 0, None))
        results = subproc.run_many(jobs)
        for gp, r in zip(groups, results):
            for h, hr in zip(gp, r):
                res.case(json.dumps([s for _, s in h]), len(h) >= 2, {"history": [t for t, _ in h]} if len(res.samples) < 4 else None)
                res.count("history-len-%d" % len(h))
                for idx, ((tag, step), o) in enumerate(zip(h, hr["steps"])):
                    want = pristine[json.dumps(step, sort_keys=True)]
                    if strip(o) != strip(want):
                        ok = False
                        res.violate("step %d (%s) of history %s: outcome %s differs from its outcome in a pristine process %s"
                                    % (idx, tag, [t for t, _ in h], summary(o), summary(want)),
                                    {"check": "history", "steps": [s for _, s in h], "tags": [t for t, _ in h], "step": idx})
                        break
                if hr["shared"]:
                    ok = False
                    res.violate("programs returned by loads %s of history %s share mutable objects" % (hr["shared"][0], [t for t, _ in h]),
                                {"check": "history-shared", "steps": [s for _, s in h], "tags": [t for t, _ in h]})
                if len(res.violations) >= 5:
                    break
            if len(res.violations) >= 5:
                break
        # histories in which the FILE SYSTEM changes between loads (an included file is edited, broken, restored, while the main file
        # keeps its content, size and modification time): each load must see the files as they are at that moment
        fc = os.path.join(scratch, "fc")
        os.makedirs(fc, exist_ok=True)
        mainp, gatep = os.path.join(fc, "main.xbb"), os.path.join(fc, "gate.xbb")
        versions = {"v1": "name gate\nversion 1.0\nSgate(0.1) | 0\n", "v2": "name gate\nversion 1.0\nSgate(0.7) | 0\nVac | 1\n",
                    "bad": "name gate\nversion 1.0\nSgate(0.7 | 0\n", "tpl": "name gate\nversion 1.0\nSgate({a}) | 0\n"}
        maintext = 'name main\nversion 1.0\ninclude "gate.xbb"\ngate | 3\n'
        wmain = {"write": mainp, "content": maintext, "mtime": 1600000000}
        for order in (["v1", "v2", "bad", "v1"], ["bad", "v1", "tpl", "v2"], ["v2", "v2", "v1", "bad"]):
            steps = [wmain]
            for v in order:
                steps += [{"write": gatep, "content": versions[v]}, {"path": mainp}, {"text": 'name t\nversion 1.0\ninclude "%s"\ngate | 5\n' % gatep}]
            got = subproc.run_batch([{"kind": "history", "steps": steps}], 0, None)[0]["steps"]
            for k, st in enumerate(steps):
                if "write" in st:
                    continue
                alone = [s2 for s2 in steps[:k] if "write" in s2] + [st]
                want = subproc.run_batch([{"kind": "history", "steps": alone}], 0, None)[0]["steps"][-1]
                res.case("file-change:%s:%d" % ("-".join(order), k), True, None)
                res.count("file-change-history")
                if strip(got[k]) != strip(want):
                    ok = False
                    res.violate("after the included file was changed (versions %s), load %d gives %s; a pristine process that sees the same files gives %s"
                                % (order, k, summary(got[k]), summary(want)), {"check": "file-change", "steps": steps, "step": k})
                    break
        # process-wide interpreter settings: with the DEFAULT recursion limit a very deep expression fails in a pristine process and
        # must fail the same way after any other load (and the other way round for a script that loads)
        deep = {"text": H + "float x = " + "+".join(["1.0"] * 1500) + "\nOp(x) | 0\n"}
        flat = {"text": H + "".join("Sgate(0.1, [%d]) | %d\n" % (k, k % 7) if False else "Sgate((0.1), (%d)) | %d\n" % (k, k % 7) for k in range(700))}
        small = {"text": H + "Op(1 + 2) | 0\n"}
        for hist in ([flat, deep], [deep, flat, deep], [small, deep, small], [flat, small, deep]):
            got = subproc.run_batch([{"kind": "history", "steps": hist}], 0, None, extra={"reclimit": 1000})[0]["steps"]
            for k, st in enumerate(hist):
                want = subproc.run_batch([{"kind": "history", "steps": [st]}], 0, None, extra={"reclimit": 1000})[0]["steps"][0]
                res.case("reclimit:%d:%d" % (len(hist), k) + st["text"][:40], True, None)
                res.count("default-recursion-limit")
                if strip(got[k]) != strip(want):
                    ok = False
                    res.violate("with the interpreter's default recursion limit, load %d of a history gives %s; alone in a pristine process it gives %s"
                                % (k, summary(got[k]), summary(want)), {"check": "reclimit", "steps": hist, "step": k})
                    break
        res.oblige("correspondence: every load in a history has its pristine-process outcome; results share no mutable state", "correspondence", ok)
        # the model agrees with the pristine outcomes on the text-only entries (ties Tables/denote to the code)
        if status.bbmodel_ok:
            model = fw.Model()
            agree = True
            for tag, step in items:
                if "text" not in step:
                    continue
                mo = observe.model_loads(model, step["text"])
                want = pristine[json.dumps(step, sort_keys=True)]
                if mo["out"] == "ok" and want["out"] != "ok" or mo["out"] == "refuse" and want["out"] == "ok":
                    agree = False
                    res.violate("the model and a pristine process disagree on %s: model %s, implementation %s" % (tag, mo["out"], summary(want)),
                                {"check": "history", "steps": [step], "tags": [tag], "step": 0})
            res.oblige("correspondence: model outcome = pristine outcome on the pool", "correspondence", agree)
            model.close()
    finally:
        shutil.rmtree(scratch, ignore_errors=True)
    return finish(res, level="proof", trusted=fw.TRUSTED_COMMON + ["a forked child of a freshly started interpreter is a pristine process", "threads are not modelled (histories are sequential calls in one thread)"],
                  rule="pool of ~80 scripts/files (valid, templates, arrays, tdm p-arrays, failing at the syntax stage / undefined name / inside a loop / "
                       "inside an include / bad mode / bad cast, scripts whose target/type options mention names bound by other scripts); histories "
                       "of 2-4 (thorough: 2-6, plus all ordered pairs) loads executed in one process; every step's canonical outcome (program "
                       "content, dump text or exception class and message) must equal its outcome in a pristine forked process; results of one "
                       "history must share no mutable object")


def summary(o):
    if o.get("working_directory_changed_by_the_load"):
        return "%s, and the load left the process in another working directory (%s)" % (summary({k: v for k, v in o.items() if k != "working_directory_changed_by_the_load"}), o["working_directory_changed_by_the_load"])
    if o.get("out") == "ok":
        return "ok(%s)" % json.dumps(o["obs"]["target"])[:80]
    return "%s: %s" % (o.get("cls"), (o.get("msg") or "")[:80])


def replay(rep):
    inp = rep["input"]
    steps = inp["steps"]
    if inp.get("check") == "reclimit":
        k = inp["step"]
        got = subproc.run_batch([{"kind": "history", "steps": steps}], 0, None, extra={"reclimit": 1000})[0]["steps"][k]
        want = subproc.run_batch([{"kind": "history", "steps": [steps[k]]}], 0, None, extra={"reclimit": 1000})[0]["steps"][0]
        print("same as pristine:", strip(got) == strip(want))
        return 0 if strip(got) == strip(want) else 1
    if inp.get("check") == "file-change":
        k = inp["step"]
        for st in steps:
            if "write" in st:
                os.makedirs(os.path.dirname(st["write"]), exist_ok=True)
        got = subproc.run_batch([{"kind": "history", "steps": steps[:k + 1]}], 0)[0]["steps"][k]
        alone = [s2 for s2 in steps[:k] if "write" in s2] + [steps[k]]
        want = subproc.run_batch([{"kind": "history", "steps": alone}], 0)[0]["steps"][-1]
        print("same as pristine:", strip(got) == strip(want))
        return 0 if strip(got) == strip(want) else 1
    a = subproc.run_batch([{"kind": "history", "steps": steps}], 0)[0]
    b = subproc.run_batch([{"kind": "pristine", "steps": steps}], 0)[0]
    bad = [i for i, (x, y) in enumerate(zip(a["steps"], b)) if strip(x) != strip(y)]
    print("steps differing from pristine:", bad, "shared:", a["shared"])
    return 1 if bad or a["shared"] else 0
