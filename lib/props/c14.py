"""C14 — shipped lexers/parsers recognise exactly the language of blackbird.g4."""
import json
import os
import random
import time

import framework as fw
from framework import Result, finish, proof_obligations

PROP = "C14"
NEEDS = ["model/Ebnf.v", "model/Chars.v", "model/Lexer.v", "gen/G4Data.v", "gen/AtnData.v", "proofs/LrecP.v", "proofs/GrammarP.v",
         "proofs/EbnfP.v", "proofs/LexerP.v", "proofs/ArtefactsP.v", "extract/Extract.v", "proofs/LexTotalP.v"]

ALPHABET = list("0123456789") + list("eEjJqpixnaMTFu") + list("+-*/=.,:\"()[]{}|#_ \t\n\r") + ["é", " ", "\U0001F600", "\x00", "\x7f", "'", "$", ";"]


def artefact_diff():
    """Direct comparison of the artefacts (the predicate of the 'identical automata' clause), used to produce a
    concrete replay when an identity theorem no longer checks."""
    import importlib.util
    spec = importlib.util.spec_from_file_location("atn_to_coq", os.path.join(fw.VERIF, "translators", "atn_to_coq.py"))
    t2 = importlib.util.module_from_spec(spec)
    spec.loader.exec_module(t2)
    py = os.path.join(fw.REPO, "blackbird_python", "blackbird")
    cpp = os.path.join(fw.REPO, "blackbird_cpp")
    diffs = []
    try:
        srcs = {
            "lexer": [("blackbirdLexer.py", t2.py_atn(os.path.join(py, "blackbirdLexer.py"))),
                      ("blackbirdLexer.cpp", t2.cpp_atn(os.path.join(cpp, "blackbirdLexer.cpp"))),
                      ("python blackbirdLexer.interp", t2.interp(os.path.join(py, "blackbirdLexer.interp"))["atn"]),
                      ("cpp blackbirdLexer.interp", t2.interp(os.path.join(cpp, "blackbirdLexer.interp"))["atn"])],
            "parser": [("blackbirdParser.py", t2.py_atn(os.path.join(py, "blackbirdParser.py"))),
                       ("blackbirdParser.cpp", t2.cpp_atn(os.path.join(cpp, "blackbirdParser.cpp"))),
                       ("python blackbird.interp", t2.interp(os.path.join(py, "blackbird.interp"))["atn"]),
                       ("cpp blackbird.interp", t2.interp(os.path.join(cpp, "blackbird.interp"))["atn"])],
        }
        for which, lst in srcs.items():
            base_name, base = lst[0]
            for nm, other in lst[1:]:
                if other != base:
                    idx = next((i for i, (a, b) in enumerate(zip(base, other)) if a != b), min(len(base), len(other)))
                    diffs.append("%s ATN differs between %s and %s at word %d (%s vs %s; lengths %d/%d)" % (
                        which, base_name, nm, idx, base[idx] if idx < len(base) else None,
                        other[idx] if idx < len(other) else None, len(base), len(other)))
        toks = [("python blackbird.tokens", os.path.join(py, "blackbird.tokens")), ("python blackbirdLexer.tokens", os.path.join(py, "blackbirdLexer.tokens")),
                ("cpp blackbird.tokens", os.path.join(cpp, "blackbird.tokens")), ("cpp blackbirdLexer.tokens", os.path.join(cpp, "blackbirdLexer.tokens"))]
        from gram import Grammar
        g = Grammar()
        expected = [(r["name"], r["ttype"]) for r in g.lex if not r["fragment"]] + \
                   [("'%s'" % r["literal"], r["ttype"]) for r in g.lex if not r["fragment"] and r["literal"] is not None]
        for nm, p in toks:
            got = t2.tokens_file(p)
            if got != expected:
                d = [x for x in got if x not in expected] + [x for x in expected if x not in got]
                diffs.append("%s does not match the token numbering of blackbird.g4: %s" % (nm, d[:4]))
        diffs += cpp_switch_fallthroughs(os.path.join(cpp, "blackbirdParser.cpp"))
    except Exception as e:  # noqa: BLE001
        diffs.append("artefacts unreadable: %s" % e)
    return diffs


def cpp_switch_fallthroughs(path):
    """the C++ target renders the alternatives of a decision as `case X: { ... break; }` blocks: a block that does not end with
    break / throw / return / continue runs on into the next alternative (the Python target has if / elif chains and cannot)"""
    import re
    text = open(path).read()
    out = []
    for m in re.finditer(r"case [^\n{}]*:\s*\{", text):
        depth, i = 1, m.end()
        while depth and i < len(text):
            depth += {"{": 1, "}": -1}.get(text[i], 0)
            i += 1
        body = text[m.end():i - 1].strip()
        last = body.rsplit(";", 2)[-2].strip() if body.count(";") >= 1 else body
        rest = text[i:i + 80].lstrip()
        if not re.search(r"(^|\W)(break|return[^;]*|continue|throw[^;]*)$", last) and not rest.startswith("default:\n      break;") and not re.match(r"default:\s*break;", rest):
            line = text.count("\n", 0, m.start()) + 1
            out.append("blackbirdParser.cpp line %d: the alternative `%s` does not leave its switch (it runs on into `%s`)" % (line, m.group(0).strip(" {"), rest[:40].replace("\n", " ")))
    return out


def sweep_cases(quick):
    """every code point of a range, placed in the lexical contexts where character classes matter"""
    cps = list(range(0, 0x250)) + [0x2028, 0x2029, 0x3000, 0xFEFF, 0xFFFF, 0x10000, 0x1F600, 0x10FFFF]
    if not quick:
        cps = list(range(0, 0x3000)) + list(range(0xD7F0, 0xD800)) + list(range(0xE000, 0xE010)) + list(range(0xFFF0, 0x10010)) + [0x1F600, 0x10FFFF]
    for c in cps:
        if 0xD800 <= c <= 0xDFFF:
            continue
        ch = chr(c)
        for ctx in ('"a%sb" x', "#x%sy\nz", "%s", "a%s1", "1%s2", " %s ", "q1%s", "Measure%s"):
            yield ("sweep", ctx % ch)


def lex_cases(rng, gr, tab, n_struct, n_random):
    """texts for the lexer differential: rendered random sentences, their layout-noised variants, random strings"""
    from gram import render
    out = []
    for _ in range(n_struct):
        kinds = gr.derive(rng, budget=rng.choice([10, 20, 40, 80]))
        t = render(kinds, tab, rng)
        if t is None:
            continue
        out.append(("sentence", t))
        # layout noise: comments, spaces, different newlines
        noisy = t.replace("\n", rng.choice(["\n", "\r\n", "\r", " # c\n", "  \n"]))
        out.append(("noisy", noisy))
    for _ in range(n_random):
        ln = rng.choice([1, 2, 3, 5, 8, 13, 30])
        out.append(("random", "".join(rng.choice(ALPHABET) for _ in range(ln))))
    return out


def mutate(rng, kinds, ntypes):
    ks = list(kinds)
    body = len(ks) - 1  # keep EOF last
    op = rng.choice(["del", "ins", "sub", "swap", "trunc"])
    if body <= 0:
        op = "ins"
    if op == "del":
        del ks[rng.randrange(body)]
    elif op == "ins":
        ks.insert(rng.randrange(body + 1), rng.randrange(1, ntypes + 1))
    elif op == "sub":
        ks[rng.randrange(body)] = rng.randrange(1, ntypes + 1)
    elif op == "swap" and body >= 2:
        i = rng.randrange(body - 1)
        ks[i], ks[i + 1] = ks[i + 1], ks[i]
    elif op == "trunc":
        ks = ks[:rng.randrange(body)] + [0]
    return op, ks


def compare_lexer(res, model, impl, kind, text):
    mt = model.lex(text)
    it, errs = impl.lex(text)
    canon = "L|" + text
    res.case(canon, len(mt) >= 2, None)
    res.count("lexer:" + kind)
    if mt != it:
        idx = next((i for i, (a, b) in enumerate(zip(mt, it)) if a != b), min(len(mt), len(it)))
        res.violate("Python lexer token stream differs from the stream prescribed by blackbird.g4 at token %d: grammar %s, lexer %s"
                    % (idx, mt[idx] if idx < len(mt) else None, it[idx] if idx < len(it) else None),
                    {"check": "lexer", "text": text})
        return False
    return True


def compare_parser(res, model, impl, gr, text, kind):
    """text -> kinds via the model lexer (visible tokens) ; model verdict vs Python parser verdict"""
    mt = model.lex(text)
    kinds = [t[0] for t in mt if t[0] not in gr.skip_types] + [0]
    mv = model.recognise(kinds)
    if kind == "loop-shape":
        iv, errs = impl.parse_verdict_fresh(text)      # the parser as a fresh process has it (no caches from earlier parses)
    else:
        iv, errs, _, _ = impl.parse_verdict(text)
    res.case("P|" + ",".join(map(str, kinds)), len(kinds) >= 6, None)
    res.count("parser:%s:%s" % (kind, "sentence" if mv else "non-sentence"))
    if mv != iv:
        res.violate("Python parser %s a token sequence that blackbird.g4 %s (first parser error: %s)"
                    % ("gives no verdict on" if iv is None else "accepts" if iv else "rejects", "does not derive" if not mv else "derives", errs[:1]),
                    {"check": "parser", "text": text, "kinds": kinds})
        return False
    return True


def loop_shape_texts():
    """every repetition count (0..3) of every comma-separated list of the grammar, with the optional separators present and
    absent, and each with one comma dropped or doubled: what the parser does after a loop body has run depends on code (the
    error handler's sync states) that one-iteration sentences never reach"""
    H = "name s\nversion 1.0\n"
    out = []
    for npos in range(4):
        for nkw in range(4):
            for sep in (", ", " "):
                pos = ", ".join(str(k + 1) for k in range(npos))
                kw = ", ".join("k%d=%d" % (k, k) for k in range(nkw))
                body = pos + (sep if npos and nkw else "") + kw
                out.append(H + "Foo(%s) | 0\n" % body)
                out.append(H + "Foo(%s) | 0\nFoo(%s) | 1\n" % (body, body))
                if ", " in body:
                    i = body.index(", ")
                    out.append(H + "Foo(%s) | 0\n" % (body[:i] + " " + body[i + 2:]))
                    j = body.rindex(", ")
                    out.append(H + "Foo(%s) | 0\n" % (body[:j] + " " + body[j + 2:]))
                    out.append(H + "Foo(%s) | 0\n" % (body[:j] + ", , " + body[j + 2:]))
    for hdr in ["2:6", "2:6:2", "2:6.0", "0:q1", "0:10:0.5", "2:n", "2::3", "2:\"a\"", "0:True", "0:3:pi", "1:2j", "0:4:q0", "2.0:6", "0:3:", "0:(3)", "0:-3"]:
        out.append(H + "for int i in %s\n    Foo | i\n" % hdr)
        out.append(H + "int n = 3\nfor int i in %s\n    Foo | i\nVac | 0\n" % hdr)
    for n in range(4):
        items = ", ".join(str(k) for k in range(n))
        nocomma = " ".join(str(k) for k in range(n))
        for form in ("Foo(a=[%s]) | 0\n", "Foo | [%s]\n", "Foo | (%s)\n", "Foo | %s\n", "for int i in [%s]\n    Foo | i\n", "for int i in %s\n    Foo | i\n",
                     "float array A =\n    %s\n", "float array A[%s] =\n    1\n", "float array A =\n    %s\n    %s\n".replace("%s\n    %s", "%s\n    1, 2"),
                     "target d (%s)\nFoo | 0\n".replace("%s", "KW")):
            if "KW" in form:
                kws = ", ".join("k%d=%d" % (k, k) for k in range(n))
                out.append("name s\nversion 1.0\n" + form.replace("KW", kws))
                out.append("name s\nversion 1.0\n" + form.replace("KW", kws.replace(", ", " ")))
                continue
            out.append(H + form % items)
            out.append(H + form % nocomma)
            out.append(H + form % (items + ","))
    return out


def run(tier, seed):
    res = Result(PROP, tier, seed)
    rng = random.Random(seed)
    status = fw.build()
    proof_obligations(res, status, "props/C14.v", NEEDS, translators=("g4_to_coq", "atn_to_coq"))
    quick = tier == "quick"
    # --- artefact clause: when an identity no longer checks, exhibit the differing word
    art_broken = [b for b in res.broken if "ArtefactsP" in b or "AtnData" in b or "atn_to_coq" in b or "C14" in b]
    if art_broken:
        for d in artefact_diff():
            res.violate(d, {"check": "artefacts", "detail": d}, kind="configuration")
    # --- the C++ rule functions (no C++ runtime here: a structural scan): every alternative of a switch leaves it explicitly
    try:
        ft = cpp_switch_fallthroughs(os.path.join(fw.REPO, "blackbird_cpp", "blackbirdParser.cpp"))
    except Exception as e:  # noqa: BLE001
        ft = ["blackbirdParser.cpp unreadable: %s" % e]
    res.oblige("C++ parser: the alternatives of every decision are exclusive (no case block runs on into the next)", "correspondence", not ft, "; ".join(ft[:2]))
    for d in ft:
        if not art_broken:
            res.violate(d, {"check": "artefacts", "detail": d}, kind="configuration")
    # --- differential part needs the model binary and a readable grammar
    if status.bbmodel_ok and "g4_to_coq" not in status.translator_errors:
        import impl
        from gram import Grammar, lexeme_table, render
        model = fw.Model()
        gr = Grammar()
        tab = lexeme_table(gr, model, rng)
        missing = [gr.tname[t] for t, v in tab.items() if not v]
        res.extra["token_kinds_without_lexeme"] = missing
        n_struct, n_rand, n_par = (250, 1500, 1200) if quick else (4000, 60000, 40000)
        ok_l = True
        for kind, text in list(sweep_cases(quick)) + lex_cases(rng, gr, tab, n_struct, n_rand):
            try:
                ok_l &= compare_lexer(res, model, impl, kind, text)
            except fw.ModelError as e:
                res.oblige("model answers LEX", "correspondence", False, str(e)[:200])
                break
            if len(res.violations) > 5:
                break
        res.oblige("correspondence: Python lexer = model lexer on generated strings", "correspondence", ok_l)
        # parser: sentences, mutations, and exhaustive small sentences of expression in thorough
        ok_p = True
        ntypes = max(gr.tname)
        samples = 0
        t_end = time.time() + (60 if quick else 1500)
        # decision coverage: derivations are sampled until (decision point, choice, next token) triples saturate; every
        # sentence that adds a triple is compared, with three single-token mutations of it
        seen_cov = set()
        covering = []
        kept = 0
        rc = random.Random(seed + 2)
        for i in range(20000 if quick else 400000):
            kinds, cov = gr.derive_cov(rc, maxdepth=rc.choice([5, 7, 9, 11]))
            if len(kinds) > 400 or cov <= seen_cov:
                continue
            seen_cov |= cov
            kept += 1
            covering.append(list(kinds))
            variants = [("decision", kinds)] + [("decision-mut-%s" % o, k) for o, k in (mutate(rc, kinds, ntypes) for _ in range(3))]
            for kind, ks in variants:
                text = render(ks, tab, rc)
                if text is None:
                    continue
                try:
                    ok_p &= compare_parser(res, model, impl, gr, text, kind)
                except fw.ModelError as e:
                    res.oblige("model answers RECOG", "correspondence", False, str(e)[:200])
                    break
            if len(res.violations) > 5:
                break
        for text in loop_shape_texts():
            try:
                ok_p &= compare_parser(res, model, impl, gr, text, "loop-shape")
            except fw.ModelError as e:
                res.oblige("model answers RECOG", "correspondence", False, str(e)[:200])
                break
        # every single-token deletion of the shortest covering sentences (a parser that silently skips a mandatory token accepts one of these)
        budget = 2500 if quick else 60000
        done = 0
        for ks in sorted(covering, key=len):
            if done >= budget or len(res.violations) > 5:
                break
            for pos in range(len(ks) - 1):
                text = render(ks[:pos] + ks[pos + 1:], tab, rc)
                if text is None:
                    continue
                done += 1
                try:
                    ok_p &= compare_parser(res, model, impl, gr, text, "decision-delete-every")
                except fw.ModelError as e:
                    res.oblige("model answers RECOG", "correspondence", False, str(e)[:200])
                    break
        res.extra["systematic_deletions"] = done
        res.extra["decision_triples_covered"] = len(seen_cov)
        res.extra["decision_covering_sentences"] = kept
        t_end = time.time() + (60 if quick else 1500)
        for i in range(n_par):
            if time.time() > t_end:
                break
            kinds = gr.derive(rng, budget=rng.choice([8, 16, 30, 60]))
            kind = "derived"
            if rng.random() < 0.6:
                op, kinds = mutate(rng, kinds, ntypes)
                kind = "mut-" + op
            text = render(kinds, tab, rng)
            if text is None:
                continue
            try:
                ok_p &= compare_parser(res, model, impl, gr, text, kind)
            except fw.ModelError as e:
                res.oblige("model answers RECOG", "correspondence", False, str(e)[:200])
                break
            if samples < 4:
                res.samples.append({"text": text, "kind": kind})
                samples += 1
            if len(res.violations) > 5:
                break
        if not quick:
            # every sentence of `expression` up to 6 tokens, embedded as a statement argument
            try:
                ei = gr.rule_index["expression"]
                sents = sorted(gr.enumerate_rule(ei, 5))
                res.extra["exhaustive_expression_sentences_len<=5"] = len(sents)
                head = [gr.ttypes[x] for x in ("PROGNAME", "NAME", "NEWLINE", "VERSION", "FLOAT", "NEWLINE", "NAME", "LBRAC")]
                tail = [gr.ttypes[x] for x in ("RBRAC", "APPLY", "INT", "NEWLINE")] + [0]
                rs = random.Random(seed + 1)
                if len(sents) > 30000:
                    sents = rs.sample(sents, 30000)
                for s in sents:
                    text = render(head + list(s) + tail, tab, rs)
                    if text is None:
                        continue
                    ok_p &= compare_parser(res, model, impl, gr, text, "exhaustive-expression")
                    if len(res.violations) > 5:
                        break
            except OverflowError:
                res.extra["exhaustive_expression_sentences_len<=5"] = "overflow"
        res.oblige("correspondence: Python parser verdict = model recogniser on generated token strings", "correspondence", ok_p)
        model.close()
    else:
        res.oblige("model binary available for the differential", "correspondence", False,
                   "; ".join("%s: %s" % kv for kv in list(status.translator_errors.items())[:2]) or "bbmodel not built")
    return finish(res, level="proof", trusted=fw.TRUSTED_COMMON + [
        "C++ target: covered at artefact level only (ATN words, names, .tokens, .interp); it cannot be executed here",
        "T1 presents the left-recursive rule `expression` in loop form (PRE* PRIM)(BIN PRE* PRIM)*"],
        rule="parser decision coverage: derivations sampled until the (EBNF decision point, choice, following token) triples saturate, "
             "each covering sentence and three single-token mutations compared; lexer: rendered random derivations of the grammar (+layout noise) and random strings over a boundary alphabet; "
             "parser: random derivations and their single-token deletions/insertions/substitutions/swaps/truncations "
             "(thorough: every `expression` sentence of <=5 tokens); non-trivial = >=2 tokens (lexer) / >=6 tokens (parser); distinct by text / kind sequence",
        assumptions=["the ANTLR runtime executes the shipped ATN faithfully on inputs not sampled",
                     "C++ runtime behaviour is not observed"])


def replay(rep):
    import impl
    res = Result(PROP, "quick", rep.get("seed", 0))
    status = fw.build()
    inp = rep.get("input", {})
    if inp.get("check") == "artefacts":
        d = artefact_diff()
        for x in d:
            print("still differs:", x)
        return 1 if d else 0
    model = fw.Model()
    from gram import Grammar
    gr = Grammar()
    if inp.get("check") == "lexer":
        ok = compare_lexer(res, model, impl, "replay", inp["text"])
    else:
        ok = compare_parser(res, model, impl, gr, inp["text"], "replay")
    for v in res.violations:
        print(v["what"])
    return 0 if ok else 1
