"""C05 — variables have their declared type; arrays keep written layout and shape."""
import loadcmp
from gen_script import Gen

PROP = "C05"
NEEDS = ["model/Syntax.v", "model/Parser.v", "model/Values.v", "model/Eval.v", "model/Loader.v", "proofs/EvalP.v",
         "extract/Extract.v"]
HDR = "name d\nversion 1.0\n"


def elem(rng, ty):
    if ty == "int":
        return rng.choice(["%d" % rng.randint(0, 99), "-%d" % rng.randint(1, 9), "%d + %d" % (rng.randint(0, 5), rng.randint(0, 5)), "2 ** %d" % rng.randint(0, 4)])
    if ty == "float":
        return rng.choice(["%d.%d" % (rng.randint(0, 9), rng.randint(0, 99)), "%d" % rng.randint(0, 9), "-%d.5" % rng.randint(0, 9), "pi / %d" % rng.randint(1, 4), "%de-%d" % (rng.randint(1, 9), rng.randint(1, 3))])
    return rng.choice(["%d+%dj" % (rng.randint(0, 9), rng.randint(0, 9)), "%dj" % rng.randint(1, 9), "%d.5" % rng.randint(0, 9), "%d" % rng.randint(0, 9), "-%d-%d.5j" % (rng.randint(0, 9), rng.randint(0, 9)), "2 * (1+%dj)" % rng.randint(1, 4)])


def array_text(rng, ty, name, rows, cols, shape, params=(), ragged=None):
    lines = []
    k = 0
    for r in range(rows):
        n = cols
        if ragged is not None and r == ragged[0]:
            n = ragged[1]
        row = []
        for c in range(n):
            if (r, c) in params:
                row.append("{p%d}" % k if rng.random() < 0.5 else "{par_%d}" % k)
                k += 1
            else:
                row.append(elem(rng, ty))
        lines.append("    " + ", ".join(row))
    sh = "" if shape is None else "[%s]" % ", ".join(map(str, shape))
    return "%s array %s%s =\n%s\n" % (ty, name, sh, "\n".join(lines))


def int_from_float_cases(rng, quick):
    """int scalars initialised with a non-integer float.  The model leaves this conversion unspecified (the property's quantifier
    asks for type-compatible initialisers), so this is an implementation-level predicate, pinned to the conversion the declared
    type map performs: the int type's own conversion of the float value, i.e. truncation towards zero, whatever the magnitude
    and however close to the next integer the value lies.  The value is then used as argument and as mode."""
    lits = ["2.7", "-2.7", "0.999999", "2.9999999999999996", "28.999999999999996", "100000.75", "-100000.75", "123456.5", "99999.99999",
            "5e4 + 0.6", "0.29*100", "0.1*30", "0.57*100", "1.1*1.1*100", "4.35*100", "7.000000001", "-0.5", "1e6 + 0.999", "33.5"]
    rng.shuffle(lits)
    for lit in lits[: (8 if quick else len(lits))]:
        text = HDR + "int v = %s\nfloat w = %s\nOp(v, w, a=v, l=[v, 1]) | 0\nfor int i in 0:2\n    Op(v + i) | i\n" % (lit, lit)

        def pred(impl, text=text, lit=lit):
            try:
                p = impl.loads(text)
            except Exception as e:  # noqa: BLE001
                return None           # refusing the declaration is within the property
            w = p.variables.get("w")
            try:
                want = int(float(w))
            except Exception:  # noqa: BLE001
                return None
            v = p.variables.get("v")
            got = [v, p.operations[0]["args"][0], p.operations[0]["kwargs"]["a"], p.operations[0]["kwargs"]["l"][0], p.operations[2]["args"][0] - 1]
            if any((not hasattr(g, "__index__")) or int(g) != want for g in got):
                return "int v = %s (float value %r): the variable and its uses hold %r, the int conversion of the value is %d" % (lit, w, got, want)
            return None
        yield {"tag": "int-from-float", "pred": pred, "key": text, "input": {"check": "pred", "tag": "int-from-float", "text": text}}


def cases(rng, quick, gr):
    # scalars of every type with type-compatible initialisers
    inits = {"int": ["5", "-3", "2 + 3 * 4", "2 ** 10", "7 - 9"], "float": ["1.5", "3", "-2.5e-1", "pi", "sqrt(2)", "7 / 2", "2 ** -1"],
             "complex": ["1+2j", "3", "2.5", "-1j", "2 * (1+1j)", "exp(1j)"], "bool": ["True", "False"], "str": ['"abc"', '""', '"a b"', '"x\ty"', '"a  b   c"', '"\t"', '" lead and trail  "']}
    for ty, lst in inits.items():
        for init in lst:
            use = "Op(v) | 0\n" if ty not in ("int",) else "Op(v, v + 1) | v * 0\n"
            yield {"tag": "scalar-" + ty, "text": HDR + "%s v = %s\n%s" % (ty, init, use)}
    # computed initialisers: the variable holds a value of the DECLARED (Python) type, not merely an equal number
    comp = {"int": ["2 * 3", "n + 1", "2 ** 3", "B[2]", "B[1] * 2", "7 - 9", "-n"], "float": ["n / 2", "sqrt(16)", "B[0] * 0.5", "x + 1", "2 ** -1", "pi * 2", "-x"],
            "complex": ["x * 1j", "B[1] + 2j", "exp(1j)", "(1+1j) ** 2", "n + 0j"]}
    for ty, lst in comp.items():
        for init in lst:
            text = HDR + "int n = 3\nfloat x = 0.5\nint array B =\n    4, 5, 6\n%s v = %s\nOp(v) | 0\n" % (ty, init)

            def pred(impl, text=text, ty=ty, init=init):
                try:
                    p = impl.loads(text)
                except Exception:  # noqa: BLE001
                    return None
                v = p.variables["v"]
                want = {"int": int, "float": float, "complex": complex}[ty]
                if type(v) is not want:
                    return "%s v = %s: the variable holds a %s, not a value of the declared type %s" % (ty, init, type(v).__name__, ty)
                for nm, t in (("n", int), ("x", float)):
                    if type(p.variables[nm]) is not t:
                        return "%s: holds a %s" % (nm, type(p.variables[nm]).__name__)
                return None
            yield {"tag": "scalar-type-exact", "text": text, "pred": pred, "input": {"check": "pred", "tag": "scalar-type-exact", "text": text}}
    # rows mixing integer literals above 2**53 with float-valued elements in an int array (converted element by element)
    for big in [9007199254740993, 2 ** 62 + 1, -(2 ** 60) - 3]:
        for other in ["4 / 2", "2.0", "6 / 3 + 0"]:
            text = HDR + "int array A =\n    %d, %s\nint first = A[0]\nOp(A[0], A) | 0\n" % (big, other)

            def pred(impl, text=text, big=big):
                try:
                    p = impl.loads(text)
                except Exception:  # noqa: BLE001
                    return None
                a = p.variables["A"]
                if int(a[0, 0]) != big or int(p.variables["first"]) != big or int(p.operations[0]["args"][0]) != big:
                    return "int array element written %d is loaded as %d" % (big, int(a[0, 0]))
                return None
            yield {"tag": "mixed-row-big-int", "text": text, "pred": pred, "input": {"check": "pred", "tag": "mixed-row-big-int", "text": text}}
    # declarations around for loops: a variable (scalar or array) declared AFTER a loop whose loop variable had the same name is an
    # ordinary variable; declarations between and inside other constructs keep their values
    for nm in ["k", "U", "m"]:
        for hdr in ["0:3", "[3, 4]", "0:1"]:
            yield {"tag": "after-loop-same-name", "text": HDR + "int shots = 5\nfor int %s in %s\n    Vac | %s\nint %s = 7\nRgate(%s + 1) | %s\nfloat last = %s / 2\n" % (nm, hdr, nm, nm, nm, nm, nm)}
            yield {"tag": "after-loop-same-name", "text": HDR + "for int %s in %s\n    Vac | %s\ncomplex array %s[3, 2] =\n    1, 2j\n    3, 4+1j\n    5, 6\nRgate(%s[3], %s) | 1\ncomplex last = %s[5]\n" % (nm, hdr, nm, nm, nm, nm, nm)}
    # complex into int/float must be refused (literal and computed); covered in C11 too
    for ty in ["int", "float"]:
        for init in ["1+2j", "2 * (1+1j)", "1j * 1j"]:
            yield {"tag": "scalar-complex-refused", "text": HDR + "%s v = %s\nOp(v) | 0\n" % (ty, init)}
    # arrays: all shapes r x c <= 5 x 5 (quick: a sample), with/without declared shape, every in-range index
    shapes = [(r, c) for r in range(1, 6) for c in range(1, 6)]
    if quick:
        shapes = rng.sample(shapes, 12)
    for (r, c) in shapes:
        for ty in ["int", "float", "complex"]:
            for shape in [None, (r, c)]:
                t = HDR + array_text(rng, ty, "A", r, c, shape)
                idx = ", ".join("A[%d]" % k for k in range(r * c))
                yield {"tag": "array-%s" % ty, "text": t + "Op(A, %s) | 0\n" % idx}
    # array entries that are bare references to variables whose NAMES read like numbers (inf, nan, j, E, oo, ...), and such names
    # left undeclared (refused, not read as numbers)
    NUMLIKE = ["inf", "nan", "NaN", "Infinity", "infinity", "INF", "j", "J", "infj", "nanj", "e", "E", "I", "oo", "zoo", "N", "Inf", "NAN", "tau", "Pi"]
    for k in range(10 if quick else 60):
        a, b, c, d = rng.sample(NUMLIKE, 4)
        decl = "float %s = 2.5\nfloat %s = 0.5\nint %s = 7\ncomplex %s = 3-1j\n" % (a, b, c, d)
        yield {"tag": "array-number-like-names", "text": HDR + decl + "float array A[2, 2] =\n    %s, 1.5\n    %s, -%s\nint array B =\n    %s, 2, -%s\ncomplex array C =\n    1j, %s\n    2*%s, %s\nOp(A, B, C, A[0], A[2], B[0], C[1], C[3]) | 0\n" % (a, b, a, c, c, d, d, a)}
        ty = rng.choice(["float", "complex", "int"])
        yield {"tag": "array-number-like-undeclared", "text": HDR + "%s array A =\n    1, %s\nOp(A) | 0\n" % (ty, a)}
    # a scalar declaration of the bare type keyword "array" (the grammar admits it as a vartype): no scalar value is of that type
    for init in ["3", "1", "True", "2.5", '"s"', "-2", "0", "2 * 3", "n"]:
        yield {"tag": "scalar-of-bare-type-array", "text": HDR + "int n = 4\narray x = %s\nOp(x) | 0\n" % init}
    yield from int_from_float_cases(rng, quick)
    # wrong declared shape, ragged rows, transposed shape: must be refused
    for _ in range(120 if quick else 2500):
        r, c = rng.randint(1, 4), rng.randint(1, 4)
        ty = rng.choice(["int", "float", "complex"])
        kind = rng.choice(["wrong-shape", "ragged", "transposed", "ragged-divisible", "one-dim-shape", "ragged-fitting-shape", "ragged-fitting-shape"])
        if kind == "ragged-fitting-shape":
            # the number of rows and the total number of elements agree with the declared shape, the row lengths do not
            if r < 2 or c < 2:
                continue
            lens = [c] * r
            i, j = rng.sample(range(r), 2)
            d = rng.randint(1, c - 1)
            lens[i] += d
            lens[j] -= d
            use_p = rng.random() < 0.3
            rows = ["    " + ", ".join(("{w%d}" % k if use_p and k == 0 and n_ > 1 else elem(rng, ty)) for k in range(n_)) for n_ in lens]
            t = "%s array A[%d, %d] =\n%s\n" % (ty, r, c, "\n".join(rows))
            yield {"tag": kind, "text": HDR + t + "Op(A) | 0\n"}
            continue
        # (some of these arrays hold template parameters among their elements: the declared shape and the row lengths bind them too)
        pp = ()
        if r * c >= 2 and rng.random() < 0.5:
            pp = tuple(rng.sample([(a, b) for a in range(r) for b in range(c)], rng.randint(1, min(3, r * c - 1))))
        if kind == "wrong-shape":
            t = array_text(rng, ty, "A", r, c, rng.choice([(r + 1, c), (r, c + 1), (c + 1, r), (r * c, 1) if c > 1 else (r + 2, c), (1, r * c) if r > 1 else (r, c + 2)]), params=pp)
        elif kind == "transposed":
            if r == c:
                continue
            t = array_text(rng, ty, "A", r, c, (c, r), params=pp)
        elif kind == "one-dim-shape":
            t = array_text(rng, ty, "A", r, c, (r * c,), params=pp)
        elif kind == "ragged":
            if r < 2:
                continue
            t = array_text(rng, ty, "A", r, c, None, ragged=(rng.randrange(r), c + 1), params=pp)
        else:
            # rows 3,1 -> total divisible by the number of rows
            t = "%s array A =\n    %s\n    %s\n" % (ty, ", ".join(elem(rng, ty) for _ in range(3)), elem(rng, ty))
        yield {"tag": kind + ("-with-parameters" if pp and kind in ("wrong-shape", "transposed", "one-dim-shape", "ragged") else ""), "text": HDR + t + "Op(A) | 0\n"}
    # template parameters at every subset of <= 3 positions
    for _ in range(60 if quick else 3000):
        r, c = rng.randint(1, 3), rng.randint(1, 3)
        cells = [(i, j) for i in range(r) for j in range(c)]
        ps = set(rng.sample(cells, min(len(cells), rng.randint(1, 3))))
        if len(cells) == 1:
            continue
        ty = rng.choice(["float", "complex", "int"])
        t = array_text(rng, ty, "A", r, c, rng.choice([None, (r, c)]), params=ps)
        yield {"tag": "array-params", "text": HDR + t + "Op(A) | 0\n"}
    # arrays called p<digits> in a tdm program are arrays like any other: rows and columns as written
    for r, c in [(2, 2), (2, 3), (3, 1), (3, 2)]:
        for shp in ("", "[%d, %d]" % (r, c)):
            rows = "\n".join("    " + ", ".join(str(10 * i + j) for j in range(c)) for i in range(r))
            yield {"tag": "tdm-parray-layout", "text": "name t\nversion 1.0\ntype tdm (temporal_modes=2)\nint array p1%s =\n%s\nfloat array p0 =\n    0.5, 1.5\nOp(p1[%d], p0[1]) | 0\n" % (shp, rows, r * c - 1)}
    # whole-array parameter with a declared shape
    for r, c in [(1, 1), (2, 2), (2, 3), (3, 1)]:
        yield {"tag": "array-template", "text": HDR + "float array A[%d, %d] =\n    {U}\nOp(A) | 0\n" % (r, c)}
    yield {"tag": "array-template-noshape", "text": HDR + "float array A =\n    {U}\nOp(A) | 0\n"}
    # random mixes
    for i in range(300 if quick else 10000):
        g = Gen(rng, allow_loops=False, allow_params=(i % 3 == 0))
        try:
            lines = g.header() + [""]
            for _ in range(rng.randint(1, 4)):
                lines.append(g.scalar_decl() if rng.random() < 0.5 else g.array_decl(with_params=(i % 3 == 0)))
            lines.append(g.statement(2))
            text = "\n".join(lines) + "\n"
        except Exception:  # noqa: BLE001
            continue
        yield {"tag": "random-decls", "text": text}


def run(tier, seed):
    return loadcmp.run_property(
        PROP, tier, seed, cases, NEEDS,
        rule="scalar declarations of the five types with compatible initialisers; arrays of the three element types for shapes "
             "r x c <= 5 x 5 with and without declared shape, read back through every index; wrong/transposed/1-D declared shapes "
             "and ragged rows (must be refused); template parameters at subsets of <= 3 positions; whole-array parameters; random "
             "declaration mixes. Compared: variables (kind, dtype, shape, every element) and the operation arguments")


def replay(rep):
    return loadcmp.replay_load(PROP, rep)
