"""C06 — a for-loop is equivalent to its textual unrolling."""
import loadcmp
from gen_script import Gen

PROP = "C06"
NEEDS = ["model/Syntax.v", "model/Parser.v", "model/Values.v", "model/Eval.v", "model/Loader.v", "proofs/LoopP.v", "extract/Extract.v"]
HDR = "name l\nversion 1.0\n"


def lit(ty, v):
    if ty == "int":
        return "(%d)" % v if v >= 0 else "(-%d)" % -v
    if ty == "float":
        return "(%s)" % repr(float(v))
    if ty == "bool":
        return "True" if v else "False"
    return '"%s"' % v


def loop_case(rng):
    """(loop script, unrolled script) sharing prefix and suffix; body uses the loop variable in modes, arguments,
    keyword arguments and array indices"""
    ty = rng.choice(["int", "int", "int", "float", "bool", "str"])
    x = rng.choice(["i", "j", "k", "idx", "m"])
    nval = rng.randint(0, 3)
    pre = ["int n = %d" % nval, 'str sv = "xy"', "bool bv = True", "float fv = 1.25", "int array A =\n    1, 2, 3, 4, 5, 6, 7, 8, 9, 10, 11, 12", "Vac | n"]
    post = ["Rgate(n + 1) | n", "MeasureX | 0"]
    if ty in ("int", "float") and rng.random() < 0.6:
        a, b = rng.randint(0, 4), rng.randint(0, 7)
        c = rng.choice([None, 1, 2, 3])
        if ty == "int" and rng.random() < 0.08:
            # range bounds around 2**63 and 2**64 (Python integers; the values are a, a+c, ... exactly)
            base = rng.choice([2 ** 63 - 2, 2 ** 63 + 1, 2 ** 64 - 3, 2 ** 64 + 1, 2 ** 53 - 1])
            a, b = base + a, base + b
            bigint = True
        hdr = "%d:%d" % (a, b) + ("" if c is None else ":%d" % c)
        vals = list(range(a, b, c or 1))
        if ty == "float":
            vals = [float(v) for v in vals]
    else:
        n = rng.randint(1, 4)
        if ty == "int":
            vals = [rng.randint(0, 6) for _ in range(n)]
            items = [rng.choice([str(v), "%d + %d" % (v - v // 2, v // 2), "(%d)" % v]) for v in vals]
            # value-preserving casts: bools and integral floats listed in an int loop are bound as ints
            for k, v in enumerate(vals):
                r = rng.random()
                if v in (0, 1) and r < 0.3:
                    items[k] = "True" if v else "False"
                elif r < 0.12:
                    items[k] = rng.choice(["%d.0" % v, "%d / 2" % (2 * v), "%de0" % v])
            if rng.random() < 0.08:
                # an integer beyond 64 bits among the values: used as a plain argument only (the body below is replaced)
                k = rng.randrange(n)
                vals[k] = rng.choice([2 ** 63, 2 ** 64 + 5, -2 ** 63 - 1, 10 ** 20])
                items[k] = str(vals[k])
                bigint = True
        elif ty == "float":
            vals = [rng.choice([0.5, 1.25, 2.0, 3.5, 7.0]) for _ in range(n)]
            if rng.random() < 0.2:
                vals = rng.choice([[0.0, -0.0], [-0.0, 0.0, 1.5, -0.0], [1.25, 1.25, -0.0, 0.0]])        # equal values in a row; zeros of both signs
                n = len(vals)
            items = [repr(v) if rng.random() < 0.7 else ("%d" % int(v) if v == int(v) else repr(v)) for v in vals]
            for k, v in enumerate(vals):
                if v == 0:
                    items[k] = repr(v)          # the sign of a zero is part of the value: written as it is
                elif rng.random() < 0.15:
                    items[k] = rng.choice(["%r / 2" % (2 * v), "%r * 1" % v, "%r + 0" % v])       # computed (numpy) values
        elif ty == "bool":
            vals = [rng.random() < 0.5 for _ in range(n)]
            items = ["True" if v else "False" for v in vals]
        else:
            vals = [rng.choice(["a", "b", "xy", ""]) for _ in range(n)]
            items = ['"%s"' % v for v in vals]
        # listed values given by variables declared before the loop (of every type)
        var = {"int": ("n", nval), "float": ("fv", 1.25), "bool": ("bv", True), "str": ("sv", "xy")}[ty]
        for k in range(n):
            if rng.random() < 0.15:
                items[k], vals[k] = var
        hdr = rng.choice(["[%s]", "(%s)", "%s"]) % ", ".join(items)
        if hdr.startswith("((") or (hdr.startswith("(") and items[0].startswith("(")):
            hdr = "[%s]" % ", ".join(items)
    nst = rng.randint(1, 4)
    body = []
    if locals().get("bigint"):
        body = ["Fock(%s) | 0" % "{x}", "Kgate(k={x}, l=[{x}, 1]) | 1"][: rng.randint(1, 2)]
        nst = 0
    for _ in range(nst):
        r = rng.random()
        if ty == "int":
            form = rng.choice(["Sgate({x}, 0.5) | {x}", "BSgate(a={x}) | {x}, {x} + 1", "Dgate(A[{x}], {x} * 2 + n) | [n, {x} + 4]",
                               "MeasureX(phi={x} / 2) | ({x})", "Kgate(l=[{x}, 1]) | 0", "Vac | {x}",
                               "Rgate(sin(A[{x}]), cos({x})) | {x}", "Sgate(r=exp({x}), l=[sqrt({x} + 1), 1]) | 1", "Dgate(sqrt(A[{x}] + {x})) | 0"])
        elif ty == "float":
            form = rng.choice(["Sgate({x}, 0.5) | 0", "Rgate(a={x} * 2) | n", "Dgate({x} / 4 + 1, l=[{x}]) | [0, 1]",
                               "Dgate(sqrt({x}), cos({x})) | 0", "Sgate(r=exp({x})) | 1", "Rgate(log({x} + 1) * 2, l=[tanh({x})]) | n"])
        elif ty == "bool":
            form = rng.choice(["Sgate({x}) | 0", "Kgate(flag={x}) | n", "Op(1, {x}) | 2"])
        else:
            form = rng.choice(["Sgate({x}) | 0", "Kgate(label={x}) | n", "Op(1, {x}, l=[{x}, 2]) | 2"])
        body.append(form)
    loop = "for %s %s in %s\n" % (ty, x, hdr) + "\n".join("    " + b.replace("{x}", x) for b in body)
    unrolled = []
    for v in vals:
        for b in body:
            unrolled.append(b.replace("{x}", lit(ty, v)))
    t_loop = HDR + "\n".join(pre + [loop] + post) + "\n"
    t_unr = HDR + "\n".join(pre + unrolled + post) + "\n"
    return ty, t_loop, t_unr


def ops_digest(p):
    out = []
    for o in p.operations:
        out.append((o["op"], [repr(a) for a in o.get("args", [])], sorted((k, repr(v)) for k, v in o.get("kwargs", {}).items()),
                    [int(m) for m in o["modes"]], "args" in o))
    return out


def cases(rng, quick, gr):
    n = 350 if quick else 10000
    for _ in range(n):
        ty, t_loop, t_unr = loop_case(rng)

        def pred(impl, a=t_loop, b=t_unr):
            try:
                pa = impl.loads(a)
            except Exception as e:  # noqa: BLE001
                return "a valid loop script was refused (%s: %s)" % (type(e).__name__, str(e)[:100])
            pb = impl.loads(b)
            da, db = ops_digest(pa), ops_digest(pb)
            if da != db:
                i = next((k for k, (u, v) in enumerate(zip(da, db)) if u != v), min(len(da), len(db)))
                return "loop differs from its textual unrolling at operation %d: %s vs %s" % (i, da[i] if i < len(da) else None, db[i] if i < len(db) else None)
            if set(pa.variables) != set(pb.variables):
                return "variables after the loop %s differ from the unrolled script's %s (loop variable visible?)" % (sorted(pa.variables), sorted(pb.variables))
            return None
        yield {"tag": "loop-%s" % ty, "text": t_loop, "pred": pred, "input": {"check": "unroll", "text": t_loop, "unrolled": t_unr}}
    # the listed values are evaluated once, before the first iteration: a loop variable named like an earlier variable that the
    # list itself mentions (the values are those computed with the OUTER variable)
    for nm, v0 in (("k", 1), ("m", 2), ("idx", 0)):
        for items, vals in (("[%s, %s + 2, %s + 4]", [v0, v0 + 2, v0 + 4]), ("(%s, %s * 2 + 1, %s)", [v0, v0 * 2 + 1, v0]), ("%s + 1, %s + 1", [v0 + 1, v0 + 1])):
            hdr = items.replace("%s", nm)
            body = ["Dgate(0.5 * {x} + 1, phi={x}) | {x}", "MeasureX | [{x}, 9]"]
            t_loop = HDR + "int %s = %d\nVac | %s\nfor int %s in %s\n" % (nm, v0, nm, nm, hdr) + "\n".join("    " + b.replace("{x}", nm) for b in body) + "\nVac | 8\n"
            t_unr = HDR + "int %s = %d\nVac | %s\n" % (nm, v0, nm) + "\n".join(b.replace("{x}", "(%d)" % v) for v in vals for b in body) + "\nVac | 8\n"

            def pred(impl, a=t_loop, b=t_unr):
                try:
                    pa = impl.loads(a)
                except Exception as e:  # noqa: BLE001
                    return "a valid loop script was refused (%s: %s)" % (type(e).__name__, str(e)[:100])
                da, db = ops_digest(pa), ops_digest(impl.loads(b))
                if da != db:
                    i = next((k for k, (u, v) in enumerate(zip(da, db)) if u != v), min(len(da), len(db)))
                    return "loop over values that mention the shadowed variable differs from its unrolling at operation %d: %s vs %s" % (i, da[i] if i < len(da) else None, db[i] if i < len(db) else None)
                return None
            yield {"tag": "shadowed-name-in-list", "pred": pred, "key": t_loop, "input": {"check": "unroll", "text": t_loop, "unrolled": t_unr}}
    # a loop variable called like a free template parameter that the script uses before / after the loop ({m} and m are
    # different names: inside the body m is the loop value, the parameter stays free)
    for nm in ("m", "k", "idx", "p0", "lambda"):
        for ty, hdr, vals in (("int", "[1, 2]", ["1", "2"]), ("int", "0:3", ["0", "1", "2"]), ("float", "[0.5, 1.25]", ["0.5", "1.25"])):
            for where in ("before", "after", "both"):
                body = ["Sgate({x}, 0) | 0", "Kgate(l=[{x}, 1], a={x} * 2) | 1"] + (["MeasureFock() | {x}"] if ty == "int" else [])
                tmpl = "Dgate({%s}, 0.1) | 0\n" % nm
                head = HDR + (tmpl if where in ("before", "both") else "")
                tail = (("Rgate(2 * {%s} + 1) | 1\n" % nm) if where in ("after", "both") else "") + "Vac | 3\n"
                t_loop = head + "for %s %s in %s\n" % (ty, nm, hdr) + "\n".join("    " + b.replace("{x}", nm) for b in body) + "\n" + tail
                t_unr = head + "\n".join(b.replace("{x}", v) for v in vals for b in body) + "\n" + tail

                def pred(impl, a=t_loop, b=t_unr):
                    try:
                        pa = impl.loads(a)
                    except Exception as e:  # noqa: BLE001
                        return "a valid loop script was refused (%s: %s)" % (type(e).__name__, str(e)[:100])
                    da, db = ops_digest(pa), ops_digest(impl.loads(b))
                    if da != db:
                        i = next((k for k, (u, v) in enumerate(zip(da, db)) if u != v), min(len(da), len(db)))
                        return "loop whose variable is called like a free parameter differs from its unrolling at operation %d: %s vs %s" % (i, da[i] if i < len(da) else None, db[i] if i < len(db) else None)
                    return None
                yield {"tag": "loop-variable-named-like-parameter", "pred": pred, "key": t_loop, "input": {"check": "unroll", "text": t_loop, "unrolled": t_unr}}
    # bad listed values: must be refused
    bad = [("int", '"a"'), ("int", "1.5"), ("int", "2j"), ("float", '"x"'), ("float", "1j"), ("str", "1"), ("str", "True"),
           ("bool", "2"), ("bool", '"t"'), ("int", '"5"'), ("float", '"1.5"'), ("complex", '"1"'),
           ("float", "{a}"), ("int", "2 * {a}"), ("float", "q0"), ("int", "q1 + 1"),
           ("int", "3.0000000001"), ("int", "2 * 1.000000001"), ("bool", "1.000000001"), ("int", "1 - 1e-12"), ("int", "0.9999999999")]
    for ty, v in bad:
        for pos in range(3):
            vals = ["0", "1", "0"] if ty != "str" else ['"a"', '"b"', '"c"']
            if ty == "bool":
                vals = ["True", "False", "True"]
            vals[pos] = v
            t_bad = HDR + "MeasureX | 0\nMeasureX | 1\nfor %s i in [%s]\n    Op(i) | 0\nVac | 1\n" % (ty, ", ".join(vals)) if "q" in v else HDR + "for %s i in [%s]\n    Op(i) | 0\nVac | 1\n" % (ty, ", ".join(vals))
            if "{" in v or "q" in v:
                # a symbolic value (template parameter, measured register) is not a value of the loop type: judged on the implementation
                def pred(impl, t=t_bad, v=v, ty=ty):
                    try:
                        impl.loads(t)
                    except Exception:  # noqa: BLE001
                        return None
                    return "the symbolic value %s listed in a %s loop was accepted" % (v, ty)
                yield {"tag": "bad-value-symbolic", "pred": pred, "key": t_bad, "input": {"check": "must-refuse", "text": t_bad}}
                continue
            yield {"tag": "bad-value", "text": t_bad}
    yield {"tag": "zero-step", "text": HDR + "for int i in 0:4:0\n    Op(i) | 0\n"}
    # the loop variable is not visible after the loop
    yield {"tag": "scoped", "text": HDR + "for int i in 0:2\n    Op(i) | 0\nOp(i) | 1\n"}
    # random scripts with loops among other items
    for i in range(400 if quick else 10000):
        g = Gen(rng, allow_params=(i % 5 == 0))
        try:
            lines = g.header() + [""]
            for _ in range(rng.randint(0, 2)):
                lines.append(g.scalar_decl() if rng.random() < 0.6 else g.statement(1))
            lines.append(g.forloop())
            for _ in range(rng.randint(0, 2)):
                lines.append(g.statement(1) if rng.random() < 0.7 else g.forloop())
            text = "\n".join(lines) + "\n"
        except Exception:  # noqa: BLE001
            continue
        yield {"tag": "random-loop", "text": text}


def run(tier, seed):
    return loadcmp.run_property(
        PROP, tier, seed, cases, NEEDS,
        rule="loop scripts (int/float ranges with/without step incl. empty ones; bracketed, parenthesised and bare lists of "
             "int/float/bool/str values and expressions; bodies of 1-4 statements using the variable in modes, arguments, keyword "
             "arguments, keyword lists and array indices; statements before and after) compared (a) with the model and (b) with "
             "their textual unrolling loaded by the implementation; bad listed values, zero step and use after the loop must be refused")


def replay(rep):
    inp = rep["input"]
    if inp.get("check") == "must-refuse":
        import impl
        try:
            impl.loads(inp["text"])
            print("loaded as a program")
            return 1
        except Exception as e:  # noqa: BLE001
            print("refused:", type(e).__name__)
            return 0
    if inp.get("check") == "unroll":
        import impl
        pa, pb = impl.loads(inp["text"]), impl.loads(inp["unrolled"])
        same = ops_digest(pa) == ops_digest(pb)
        print("loop == unrolled:", same)
        return 0 if same else 1
    return loadcmp.replay_load(PROP, rep)
