"""C15 — TDM programs pass p-arrays by name and keep their data."""
import numpy as np

import loadcmp
from gen_script import Gen

PROP = "C15"
NEEDS = ["model/Syntax.v", "model/Parser.v", "model/Values.v", "model/Eval.v", "model/Loader.v", "proofs/LoadP.v", "extract/Extract.v"]


def elem(rng, ty):
    if ty == "int":
        return str(rng.randint(0, 20)) if rng.random() < 0.8 else "-%d" % rng.randint(1, 9)
    if ty == "float":
        return rng.choice(["%d.%d" % (rng.randint(0, 6), rng.randint(0, 99)), "pi / %d" % rng.randint(1, 8), "%d" % rng.randint(0, 4), "-0.%d" % rng.randint(1, 9), "3 * pi / 4"])
    return rng.choice(["%d+%dj" % (rng.randint(0, 5), rng.randint(1, 5)), "%dj" % rng.randint(1, 4), "%d.5-%dj" % (rng.randint(0, 5), rng.randint(1, 5)), "2",
                       "-0.0j", "%d-0.0j" % rng.randint(1, 5), "-%dj" % rng.randint(1, 4)])        # zero imaginary parts of negative sign


def tdm_script(rng, with_params=False, with_loop=False):
    lines = ["name tdm_%d" % rng.randint(0, 9), "version 1.0"]
    if rng.random() < 0.6:
        # (options are plain values: a string spelt like a p-name stays a string there)
        lines.append("target %s (shots=%d%s)" % (rng.choice(["TD2", "TD3", "X"]), rng.randint(1, 50), rng.choice(["", "", ', phase_label="p0"', ', gates=["p1", "BS", 3]'])))
    lines.append("type tdm (temporal_modes=%d%s)" % (rng.randint(1, 4), rng.choice(["", ", copies=%d" % rng.randint(1, 9), ', sweep="p1"'])))
    lines.append("")
    if rng.random() < 0.3:
        lines.append('str src9 = "p%d"' % rng.randint(0, 2))         # a string that merely spells a p-name; never passed to a gate
    if with_loop and rng.random() < 0.4:
        # a loop whose variable is called like a p-array declared AFTER the loop (the name is free again when the loop has ended)
        lines.append("for int p%d in 0:2\n    Vac | p%d" % ((rng.randint(0, 1),) * 2))
    npar = rng.randint(0, 4)
    names = []
    for k in range(npar):
        ty = rng.choice(["float", "float", "int", "complex"])
        n = rng.randint(1, 6)
        nm = "p%d" % (k if rng.random() < 0.8 else rng.randint(10, 99))
        if nm in names:
            continue
        names.append(nm)
        shape = "[1, %d]" % n if rng.random() < 0.5 else ""
        if rng.random() < 0.12:
            # the same p-name first as a scalar (passed by value), then declared again as the p-array
            lines.append("float %s = 0.25" % nm)
            lines.append("Sgate(%s, 0.0) | 0" % nm)
        if with_params and rng.random() < 0.35:
            # the whole p-array is one template parameter, expanded over the declared shape
            lines.append("%s array %s[%d, %d] =\n    {%s}" % (ty, nm, rng.choice([1, 1, 2]), n, rng.choice(["x", "w", "arr", "p%d_data" % k])))
            continue
        if rng.random() < 0.25:
            rows = rng.randint(2, 3)
            lines.append("%s array %s%s =\n%s" % (ty, nm, "[%d, %d]" % (rows, n) if shape else "", "\n".join("    " + ", ".join(elem(rng, ty) for _ in range(n)) for _ in range(rows))))
            continue
        lines.append("%s array %s%s =\n    %s" % (ty, nm, shape, ", ".join(elem(rng, ty) for _ in range(n))))
    others = []
    # ordinary arrays whose names merely START like a p-array name (passed by value), and p-named scalars
    for nm in rng.sample(["p1_scaled", "p2b", "p0x", "p", "pp0", "p_1", "P0", "q_p0", "p10a"], rng.randint(0, 2)):
        if nm in names:
            continue
        ty = rng.choice(["float", "int", "complex"])
        lines.append("%s array %s =\n    %s" % (ty, nm, ", ".join(elem(rng, ty) for _ in range(rng.randint(1, 3)))))
        others.append(nm)
    if rng.random() < 0.6:
        lines.append("float alpha = %s" % elem(rng, "float"))
        others.append("alpha")
    if with_params and rng.random() < 0.5:
        # an ordinary array whose name is also the name of a template parameter used elsewhere: still passed by value
        nm = rng.choice(["a", "phi", "p"])
        lines.append("float array %s =\n    %s" % (nm, ", ".join(elem(rng, "float") for _ in range(rng.randint(1, 3)))))
        others.append(nm)
        pending = ["Rgate({%s}) | 0" % nm, "Zgate(%s, 0.5) | 1" % nm, "MeasureHomodyne(phi=%s) | 0" % nm]
    if rng.random() < 0.4:
        lines.append("int array B =\n    1, 2\n    3, 4")
        others.append("B")
    if rng.random() < 0.25:
        # str scalars (the empty string among them), passed by value next to the p-arrays
        lines.append('str lab = %s' % rng.choice(['""', '""', '" "', '"p"', '"run 7"']))
        others.append("lab")
    if with_params and names and rng.random() < 0.4:
        # an ordinary array given by ONE template parameter that is called like a p-array declared above ({p1}): the parameter and
        # the p-array are different things, the p-array is still delivered by name afterwards
        lines.append("float array Uph[1, %d] =\n    {%s}" % (rng.randint(1, 3), rng.choice(names)))
    lines.append("")
    lines += locals().get("pending", [])
    nst = rng.randint(1, 5)
    for _ in range(nst):
        args = []
        for _ in range(rng.randint(0, 3)):
            r = rng.random()
            if names and r < 0.5:
                # unusual but valid spellings of the reference: bracketed, with a unary plus
                args.append(rng.choice(["%s", "%s", "%s", "(%s)", "+%s", "+(%s)", "((%s))"]) % rng.choice(names))
            elif others and r < 0.7:
                args.append(rng.choice(others))
            elif r < 0.75:
                args.append(rng.choice(['"p0_shift"', '"p1x"', '"p"', '"p0 "', '"xp0"', '"P0"', '""', '" "', '"p 0"', '"0"', '"p-1"', '"p+1"', '"p1.0"']))      # strings that only look like p-names stay strings
            elif with_params and r < 0.85:
                args.append("{%s}" % rng.choice(["a", "phi", "p", "p0x"]))
            else:
                args.append(elem(rng, "float"))
        kws = []
        if rng.random() < 0.4:
            kws.append("%s=%s" % (rng.choice(["phi", "r", "select"]), rng.choice(["%s", "%s", "(%s)", "+%s"]) % rng.choice(names) if names and rng.random() < 0.6 else elem(rng, "float")))
        if rng.random() < 0.15:
            kws.append("tags=[%s]" % ", ".join(rng.choice(['""', '"p"', '"a b"', "1", "True"] + names) for _ in range(rng.randint(1, 3))))
        body = ", ".join(args + kws)
        op = rng.choice(["Sgate", "BSgate", "Rgate", "MeasureHomodyne", "Dgate"])
        modes = rng.choice(["1", "[0, 1]", "0", "(1)"])
        lines.append("%s(%s) | %s" % (op, body, modes) if (args or kws or rng.random() < 0.5) else "%s | %s" % (op, modes))
    if with_loop:
        lines.append("for int i in 0:2\n    Rgate(%s) | i" % (rng.choice(names) if names else "0.5"))
    return "\n".join(lines) + "\n", names


def same_value(a, b):
    if isinstance(a, np.ndarray) or isinstance(b, np.ndarray):
        return isinstance(a, np.ndarray) and isinstance(b, np.ndarray) and a.shape == b.shape and a.dtype.kind == b.dtype.kind and np.array_equal(a, b) \
            and (a.dtype.kind not in "fc" or (np.array_equal(np.signbit(a.real), np.signbit(b.real)) and np.array_equal(np.signbit(a.imag), np.signbit(b.imag))))
    if isinstance(a, (list, tuple)):
        return isinstance(b, (list, tuple)) and len(a) == len(b) and all(same_value(x, y) for x, y in zip(a, b))
    if isinstance(a, (float, np.floating, complex, np.complexfloating, int, np.integer)) and not isinstance(a, (bool, np.bool_)):
        return not isinstance(b, (bool, np.bool_, str)) and complex(a) == complex(b)
    return type(a) == type(b) and a == b


def roundtrip_pred(text, names):
    def pred(impl):
        import blackbird
        try:
            p = impl.loads(text)
        except Exception:  # noqa: BLE001
            return None       # load outcome is judged by the model comparison
        if not any("{" in ln for ln in text.split("\n")) and (p.is_template() or p.parameters):
            return "a tdm program without {} parameters reports free parameters %s" % sorted(p.parameters)
        for nm in names:
            if nm in p.parameters:
                return "p-array name %s reported as a free parameter" % nm
        if p.is_template():
            return None
        try:
            d = blackbird.dumps(p)
            q = impl.loads(d)
        except Exception as e:  # noqa: BLE001
            return "serialising and re-loading a tdm program fails: %s: %s" % (type(e).__name__, str(e)[:150])
        if len(p.operations) != len(q.operations):
            return "re-loaded tdm program has %d operations, expected %d" % (len(q.operations), len(p.operations))
        for i, (a, b) in enumerate(zip(p.operations, q.operations)):
            if a["op"] != b["op"] or list(a["modes"]) != list(b["modes"]):
                return "re-loaded op %d is %s|%s, expected %s|%s" % (i, b["op"], b["modes"], a["op"], a["modes"])
            if not same_value(list(a.get("args", [])), list(b.get("args", []))):
                return "re-loaded op %d has arguments %r, expected %r" % (i, b.get("args"), a.get("args"))
            ka, kb = a.get("kwargs", {}), b.get("kwargs", {})
            if list(ka) != list(kb) or not all(same_value(ka[k], kb[k]) for k in ka):
                return "re-loaded op %d has keyword arguments %r, expected %r" % (i, kb, ka)
        for nm in names:
            if nm not in q.variables or not same_value(p.variables[nm], q.variables[nm]):
                return "p-array %s is %r after the round trip, expected %r" % (nm, q.variables.get(nm), p.variables[nm])
        if q.programtype != p.programtype or q.target != p.target or q.name != p.name:
            return "metadata changed by the round trip: %r %r" % (q.programtype, q.target)
        return None
    return pred


def cases(rng, quick, gr):
    n = 400 if quick else 10000
    for i in range(n):
        text, names = tdm_script(rng, with_params=(i % 4 == 0), with_loop=(i % 3 == 0))
        yield {"tag": "tdm", "text": text, "pred": roundtrip_pred(text, names), "input": {"check": "tdm-roundtrip", "text": text, "names": names}}
    # a p-name that is not an array; p-like names outside tdm are passed by value
    yield {"tag": "pname-scalar", "text": "name t\nversion 1.0\ntype tdm (temporal_modes=1)\nfloat array p0 =\n    1, 2\nfloat p1 = 0.5\nSgate(p0, p1) | 0\n"}
    yield {"tag": "not-tdm", "text": "name t\nversion 1.0\nfloat array p0 =\n    1.5, 2\nSgate(p0, p0[1]) | 0\n"}
    yield {"tag": "tdm-index", "text": "name t\nversion 1.0\ntype tdm (temporal_modes=1)\nfloat array p0 =\n    1.5, 2\nSgate(p0, p0[1]) | 0\n"}
    # program types that merely resemble tdm (other case, longer names): p-named arrays are ordinary arrays there, passed by value
    for ty in ["TDM", "Tdm", "tdM", "tdmx", "xtdm", "t_dm", "tdm2"]:
        yield {"tag": "near-tdm-type", "text": "name t\nversion 1.0\ntype %s (temporal_modes=2)\nfloat array p0 =\n    0.1, 0.2\nint m = 3\nRgate(p0) | 0\nBSgate(theta=p0, phi=m, l=[p0, 1]) | [0, 1]\nfor int i in 0:2\n    Sgate(p0, i) | i\n" % ty}
    yield {"tag": "tdm-p0-param", "text": "name t\nversion 1.0\ntype tdm (temporal_modes=1)\nSgate({p0}, 1) | 0\n"}


def run(tier, seed):
    return loadcmp.run_property(
        PROP, tier, seed, cases, NEEDS,
        rule="tdm scripts with 0-4 int/float/complex p-arrays of length 1-6 (with/without declared shape) used in positional and "
             "keyword position next to ordinary scalars/arrays, template parameters and loops; loaded by implementation and model "
             "(arguments are names, variables hold the arrays, p-names are not parameters) and, on the implementation, serialised "
             "and re-loaded (operations, references and array data preserved exactly)")


def replay(rep):
    inp = rep["input"]
    if inp.get("check") == "tdm-roundtrip":
        import impl
        msg = roundtrip_pred(inp["text"], inp["names"])(impl)
        print(msg)
        return 1 if msg else 0
    return loadcmp.replay_load(PROP, rep)
