"""C04 — instantiating a template equals substituting values into its text."""
import json
import random
import re
import zlib
import time
from decimal import Decimal

import numpy as np

import framework as fw
import observe
from framework import Result, finish, proof_obligations
from gen_script import Gen

PROP = "C04"
NEEDS = ["model/Values.v", "model/Eval.v", "model/Loader.v", "proofs/LoadP.v", "extract/Extract.v"]
PARAM_RE = re.compile(r"\{([A-Za-z][0-9A-Za-z_]*)\}")


def dec_parts(x):
    """exact (mantissa, exponent) of the decimal text of a Python number"""
    d = Decimal(repr(x)) if isinstance(x, float) else Decimal(int(x))
    sign, digits, exp = d.as_tuple()
    m = int("".join(map(str, digits)))
    return (-m if sign else m), exp


def lit(x):
    if isinstance(x, complex):
        return "(%r%s%rj)" % (x.real, "+-"[x.imag < 0], abs(x.imag))
    return "(%s)" % (repr(x) if isinstance(x, float) else str(int(x)))


def gen_template(rng, i):
    """-> (text, scalar parameter names, {array parameter: (rows, cols)})"""
    g = Gen(rng, allow_params=True, allow_regs=False, allow_loops=True)
    g.allow_redeclare = False      # a parameter used only in a declaration that is overwritten is reported but unused: outside the property
    lines = g.header() + [""]
    arrays = {}
    n = rng.randint(1, 6)
    for _ in range(n):
        r = rng.random()
        if rng.random() < 0.12:
            r = rng.choice([0.405, 0.42, 0.432, 0.436, 0.439, -1.0, -2.0])       # the narrow special families below, each with a real share
        if r < -1.5:
            # a whole COMPLEX array given by one parameter; the value is a complex NumPy array (e.g. a unitary)
            nm = g.fresh("UC")
            p = g.fresh("Mcpx")
            arrays[p] = (2, 2)
            lines.append("complex array %s[2, 2] =\n    {%s}" % (nm, p))
            lines.append("Interferometer(%s) | [0, 1]" % nm)
            lines.append(rng.choice(["Coherent(%s[1] * 2, phi=%s[2] + 0.25) | 0", "Kgate(%s[3], k=%s[0]) | 1"]) % (nm, nm))
        elif r < 0:
            # a parameter that occurs ONLY inside a list-valued keyword argument, next to plain values
            p = g.fresh(rng.choice(["a", "ph", "lst"]))
            g.params.append(p)
            lines.append(rng.choice(["MZgate(0.5, phases=[{%s}, 0.3, -{%s} / 4], n=3) | [0, 1]", "Kgate(l=[1, {%s}], m=[2 * {%s} + 1]) | 0", "Sgate(0.25, sel=[{%s}]) | 1  # {%s}"]) % (p, p))
        elif r < 0.15:
            # scalar initialiser with a parameter
            nm = g.fresh()
            e = g.expr(2, None, syms=True)
            lines.append("float %s = %s" % (nm, e.text))
            if e.kind == "sym":
                g.vars[nm] = ("symscalar",)
            else:
                g.vars[nm] = ("scalar", "float", e.val)
        elif r < 0.3:
            lines.append(g.array_decl(with_params=True))
        elif r < 0.38:
            nm = g.fresh("W")
            p = g.fresh(rng.choice(["U", "arr", "mat"]))
            rr, cc = rng.randint(1, 3), rng.randint(1, 3)
            if rng.random() < 0.3:
                rr, cc = rng.choice([(1, 12), (11, 2), (12, 12), (10, 11), (2, 21), (13, 1), (9, 10)])      # indices of two digits
            arrays[p] = (rr, cc)
            lines.append("float array %s[%d, %d] =\n    {%s}" % (nm, rr, cc, p))
            if rr * cc > 9:
                lines.append("Rgate(%s[%d], %s[%d] + %s[0]) | 0" % (nm, rr * cc - 1, nm, rr * cc - 2, nm))
            g.vars[nm] = ("array", "float", rr, cc, [None] * (rr * cc))
        elif r < 0.4 and rng.random() < 0.3:
            # parameters spelt like p-array names (p0, p12) are ordinary parameters outside tdm programs
            q1, q2 = rng.sample(["p0", "p1", "p12", "p007"], 2)
            lines.append(rng.choice(["Rgate({%s}, 2 * {%s}) | 0", "Dgate(0.5, phi={%s} + {%s}) | 1", "Sgate({%s}) | 0\nKgate({%s} / 2) | 1"]) % (q1, q2))
        elif r < 0.41:
            # a variable with the NAME of a parameter it is initialised from (names of variables and parameters are separate)
            p = g.fresh(rng.choice(["alpha", "w", "gain", "th"]))
            g.params.append(p)
            if rng.random() < 0.5:
                lines.append("float %s = 2 * {%s} + 1" % (p, p))
                lines.append(rng.choice(["Dgate(%s, 0.5) | 0", "Rgate(phi=%s) | 1", "Dgate(%s * 2, {%s}) | 0" % ("%s", p)]) % p)
            else:
                q = g.fresh("x")
                g.params.append(q)
                lines.append("float array %s =\n    1.5, {%s}, {%s}" % (p, p, q))
                lines.append(rng.choice(["Interferometer(%s) | [0, 1, 2]", "Kgate(U=%s) | 1", "Rgate(%s[1]) | 0"]) % p)
        elif r < 0.43:
            # the declared element type applies to the literal elements of an array that also holds parameters: a non-integer
            # literal in an int array, an integer above 2**53 in a float array (the parameter gets an integer value)
            nm = g.fresh(rng.choice(["A", "T", "arr"]))
            p = g.fresh("nint")
            g.params.append(p)
            if rng.random() < 0.6:
                elems = [rng.choice(["7/2", "2.75", "-1.5", "9/4", "3"]) for _ in range(rng.randint(1, 3))] + ["{%s}" % p]
                ty = "int"
            else:
                elems = [rng.choice(["9007199254740993", "4", "0.5"]) for _ in range(rng.randint(1, 3))] + ["{%s}" % p]
                ty = "float"
            rng.shuffle(elems)
            lines.append("%s array %s =\n    %s" % (ty, nm, ", ".join(elems)))
            k = rng.randrange(len(elems))
            lines.append(rng.choice(["Rgate(%s[%d]) | 0", "Dgate(2 * %s[%d], 0.5) | 1", "Kgate(U=%s) | [0, 1]  # %d"]) % (nm, k))
        elif r < 0.435:
            # arrays holding parameters that go through element-wise arithmetic before they are passed (-B, A + B, A * C): the
            # entries of the argument are expressions (-{c}, {c} + 1.5, ...), not bare parameters
            nA, nB, nC = g.fresh("MA"), g.fresh("MB"), g.fresh("MC")
            p1, p2 = g.fresh("c"), g.fresh("w")
            g.params += [p1, p2]
            lines.append("float array %s =\n    {%s}, 2.5\n    -3, {%s}" % (nB, p1, p1))
            lines.append("float array %s =\n    1.5, {%s}\n    0.25, 4" % (nA, p2))
            lines.append("float array %s =\n    2, 0.5\n    -1, 3" % nC)
            for _ in range(rng.randint(1, 3)):
                lines.append(rng.choice(["Interferometer(-%s) | [0, 1]" % nB, "Interferometer(%s + %s) | [0, 1]" % (nA, nB), "Ggate(%s * %s) | [0, 1]" % (nA, nC),
                                         "Kgate(U=%s - %s) | 1" % (nB, nC), "Ggate(2 * %s, V=-%s) | 0" % (nA, nA)]))
        elif r < 0.438:
            # a whole-array parameter whose VALUE is a nested list of Python integers (some large): element arithmetic is the
            # arithmetic of the substituted text (true division, no fixed-width wrap-around, negative integer powers)
            nm = g.fresh("WI")
            p = g.fresh("Mint")
            s_ = g.fresh("nneg")
            arrays[p] = (1, 2)
            g.params.append(s_)
            lines.append("float array %s[1, 2] =\n    {%s}" % (nm, p))
            lines.append("Sgate(%s[0] * %s[1]) | 0" % (nm, nm))
            lines.append(rng.choice(["Rgate(%s[0] ** {%s}) | 1", "Dgate(%s[1] / 3, 2 ** {%s}) | 1"]) % (nm, s_))
        elif r < 0.44:
            # parameter expressions that fold to a constant while parsing: {p}*0, {p}**0, {p}-{p}; with a loop variable
            # that takes the value 0 the folding happens in one iteration only
            p = rng.choice(g.params) if g.params and rng.random() < 0.5 else g.fresh(rng.choice(["phi", "amp", "w"]))
            if p not in g.params:
                g.params.append(p)
            if not any("{%s}" % p in ln for ln in lines):
                lines.append("Rgate({%s}) | 0" % p)      # a use that does not fold (the clauses about missing values need one)
            x = g.fresh("m")
            form = rng.choice(["Rgate({%s} * 0) | 0", "Kgate(scale={%s} ** 0, r=0 * {%s}) | 1" % ("%s", p), "Dgate({%s} - {%s}, {%s}) | 0" % ("%s", p, p),
                               "for int %s in 0:3\n    Rgate({%s} * %s) | %s" % (x, "%s", x, x),
                               "for int %s in 0:2\n    Kgate(scale={%s} ** %s, l=[%s * {%s}, 1]) | 0" % (x, "%s", x, x, p)])
            lines.append(form % p)
        elif r < 0.5:
            x = g.fresh("i")
            lines.append("for int %s in %d:%d\n    %s" % (x, 0, rng.randint(1, 3), g.statement(2, True, loopvar=x, loopkind="int")))
        else:
            lines.append(g.statement(rng.choice([1, 2, 3]), True))
    text = "\n".join(lines) + "\n"
    names = sorted(set(param_names(text)) - set(arrays))
    return text, names, arrays


def values_for(rng, names, arrays):
    sg = {}
    for p in names:
        if p.startswith("nint"):
            sg[p] = rng.randint(1, 9)
            continue
        if p.startswith("nneg"):
            sg[p] = rng.choice([-2, -1, -3])
            continue
        sg[p] = rng.choice([round(rng.uniform(0.1, 3.0), rng.randint(1, 6)), rng.randint(1, 9), -round(rng.uniform(0.1, 3.0), 3)])
    for p, (r, c) in arrays.items():
        if p.startswith("Mcpx"):
            sg[p] = [[complex(round(rng.uniform(-1, 1), 3), round(rng.uniform(0.1, 1), 3) * rng.choice([1, -1])) for _ in range(c)] for _ in range(r)]
            continue
        if p.startswith("Mint"):
            sg[p] = [[rng.choice([3, 7, 12, 40000, 2 ** 20]) for _ in range(c)] for _ in range(r)]      # products stay far inside int64
            continue
        sg[p] = [[round(rng.uniform(0.1, 3.0), 3) if rng.random() < 0.7 else rng.randint(1, 9) for _ in range(c)] for _ in range(r)]
    return sg


STR_SPLIT = re.compile(r'("[^"\n]*")')


def outside_strings(text, fn):
    """apply fn to the parts of the text that are not inside string literals"""
    return "".join(part if part.startswith('"') else fn(part) for part in STR_SPLIT.split(text))


def param_names(text):
    names = []
    outside_strings(text, lambda part: names.extend(PARAM_RE.findall(part)) or part)
    return names


def substitute(text, sg, arrays):
    out = text
    for p, (r, c) in arrays.items():
        rows = "\n".join("    " + ", ".join(lit(sg[p][i][j]) for j in range(c)) for i in range(r))
        out = re.sub(r"    \{%s\}" % re.escape(p), lambda m: rows, out)
    return outside_strings(out, lambda part: PARAM_RE.sub(lambda m: lit(sg[m.group(1)]), part))


def close(a, b, tol=1e-9):
    try:
        if isinstance(a, np.ndarray) or isinstance(b, np.ndarray):
            a, b = np.asarray(a), np.asarray(b)
            if a.shape != b.shape:
                return False
            return all(close(x, y, tol) for x, y in zip(a.reshape(-1).tolist(), b.reshape(-1).tolist()))
        if isinstance(a, (list, tuple)) or isinstance(b, (list, tuple)):
            return isinstance(a, (list, tuple)) and isinstance(b, (list, tuple)) and len(a) == len(b) and all(close(x, y, tol) for x, y in zip(a, b))
        if isinstance(a, (bool, np.bool_, str)) or isinstance(b, (bool, np.bool_, str)):
            return type(a) == type(b) and a == b
        ints = (int, np.integer)
        if (isinstance(a, ints) or isinstance(b, ints)) and max(abs(complex(a)), abs(complex(b))) >= 2.0 ** 62:
            return True            # integer arithmetic beyond int64: outside every property (NumPy wraps, Python does not)
        ca, cb = complex(a), complex(b)
        if ca == cb or (ca != ca and cb != cb):
            return True            # identical values, including equal infinities and NaN on both sides (overflow in both)
        return abs(ca - cb) <= tol * max(1.0, abs(ca), abs(cb))
    except Exception:  # noqa: BLE001
        return False


def compare_progs(pa, pb):
    """instance vs program loaded from the substituted text (numeric values within 1e-9, kinds not compared)"""
    if len(pa.operations) != len(pb.operations):
        return "%d operations, expected %d" % (len(pa.operations), len(pb.operations))
    for i, (a, b) in enumerate(zip(pa.operations, pb.operations)):
        if a["op"] != b["op"] or [int(m) for m in a["modes"]] != [int(m) for m in b["modes"]]:
            return "op %d is %s|%s, expected %s|%s" % (i, a["op"], a["modes"], b["op"], b["modes"])
        if ("args" in a) != ("args" in b):
            return "op %d: argument presence differs" % i
        if "args" in a:
            if len(a["args"]) != len(b["args"]) or not all(close(x, y) for x, y in zip(a["args"], b["args"])):
                return "op %d: positional arguments %r, expected %r" % (i, a["args"], b["args"])
            if list(a["kwargs"]) != list(b["kwargs"]) or not all(close(a["kwargs"][k], b["kwargs"][k]) for k in a["kwargs"]):
                return "op %d: keyword arguments %r, expected %r" % (i, a["kwargs"], b["kwargs"])
    if set(pa.variables) != set(pb.variables):
        return "variables %s, expected %s" % (sorted(pa.variables), sorted(pb.variables))
    for k in pa.variables:
        if not close(pa.variables[k], pb.variables[k]):
            return "variable %s is %r, expected %r" % (k, pa.variables[k], pb.variables[k])
    return None


def check_case(res, model, impl, text, names, arrays, sg, stats):
    """-> message or None"""
    import sympy as sym
    try:
        t = impl.loads(text)
    except Exception as e:  # noqa: BLE001
        mo = observe.model_loads(model, text)
        if mo["out"] == "ok":
            return "a valid template was refused: %s: %s" % (type(e).__name__, str(e)[:120])
        return None
    mo = observe.model_loads(model, text)
    if mo["out"] != "ok":
        res.count("model-" + mo["out"])
        if mo["out"] != "unspec" or not t.parameters:
            return None
        # outside the model (e.g. a non-integer literal in an int array): the implementation-level predicate still applies
        try:
            inst = t(**sg)
            direct = impl.loads(substitute(text, sg, arrays))
        except Exception:  # noqa: BLE001
            return None
        res.count("unspec-in-model:instance-vs-substituted-text")
        msg = compare_progs(inst, direct)
        return ("instance differs from the program loaded from the substituted text: " + msg) if msg else None
    # reported parameters: the names written, array-valued ones expanded per element
    want = set(names)
    for p, (r, c) in arrays.items():
        want |= {"%s_%d_%d" % (p, i, j) for i in range(r) for j in range(c)}
    executed = set(mo["v"]["params"])
    if set(t.parameters) != executed:
        return "free parameters %s, expected %s" % (sorted(t.parameters), sorted(executed))
    if not executed <= want:
        return "model reports parameters %s that are not written" % sorted(executed - want)
    if t.is_template() != bool(executed):
        return "is_template() = %s with parameters %s" % (t.is_template(), sorted(executed))
    if not executed:
        return None
    before = impl.blackbird.dumps(t) if False else None
    sg_call = dict(sg)
    for k_, v_ in sg.items():
        if isinstance(v_, list) and k_.startswith("Mcpx"):
            sg_call[k_] = np.array(v_)              # a complex NumPy array
            continue
        if isinstance(v_, list) and zlib.crc32(repr(v_).encode()) % 2 == 0 and not k_.startswith("Mint"):      # (Mint*: nested lists of Python integers, kept as they are)
            # the same 2-D value as a NumPy array that is not in C memory order (transposed view / Fortran order / reversed rows of a flipped copy)
            a_ = np.array(v_)
            sg_call[k_] = [np.asfortranarray(a_), a_.T.copy().T, a_[::-1].copy()[::-1]][zlib.crc32(repr(v_).encode()) // 2 % 3]
    try:
        inst = t(**sg_call)
    except Exception as e:  # noqa: BLE001
        return "instantiating a template with all values given fails: %s: %s" % (type(e).__name__, str(e)[:120])
    if inst.parameters or inst.is_template():
        return "an instantiated program still reports free parameters %s" % sorted(inst.parameters)
    for o in inst.operations:
        for a in list(o.get("args", [])) + list(o.get("kwargs", {}).values()):
            flat = a.reshape(-1).tolist() if isinstance(a, np.ndarray) else (a if isinstance(a, list) else [a])
            if any(isinstance(x, sym.Expr) for x in flat):
                return "an instantiated program still holds a symbolic argument %r" % (a,)
    # (a) predicate on the implementation: instance == load(substituted text)
    sub = substitute(text, sg, arrays)
    try:
        direct = impl.loads(sub)
    except Exception as e:  # noqa: BLE001
        return None          # the substituted text is not valid (e.g. values drove an expression outside its domain)
    msg = compare_progs(inst, direct)
    if msg:
        return "instance differs from the program loaded from the substituted text: " + msg
    # (b) correspondence: the model's instantiate
    flat = {}
    for k, v in sg.items():
        if isinstance(v, list):
            for i, row in enumerate(v):
                for j, x in enumerate(row):
                    flat["%s_%d_%d" % (k, i, j)] = x
        else:
            flat[k] = v
    if any(isinstance(v, complex) for v in flat.values()):
        return None             # the model's instantiate takes real decimal values; the implementation-level predicate above has spoken
    fields = ["INSTANTIATE", observe.enc("/"), observe.enc(text)]
    for k, v in flat.items():
        m, e = dec_parts(v)
        fields += [observe.enc(k), str(m), str(e)]
    mi = json.loads(model.ask(*fields))
    if mi["out"] == "ok":
        diffs = observe.cmp_prog(mi["v"], inst, stats, lax_kind=True)
        if diffs:
            return "instance differs from the model's instantiation: " + "; ".join(diffs[:3])
    elif mi["out"] == "refuse":
        return "the model refuses the instantiation (%s) but the implementation accepts it" % mi["err"]
    # missing value must be refused with ValueError
    if names:
        drop = names[0]
        if drop in executed:
            sg2 = {k: v for k, v in sg.items() if k != drop}
            try:
                t(**sg2)
                return "a missing value for parameter %s is accepted" % drop
            except ValueError:
                pass
            except Exception as e:  # noqa: BLE001
                return "a missing value for parameter %s raises %s instead of ValueError" % (drop, type(e).__name__)
    return None


KNOWN = [{"id": "D16", "witness": "name t\nversion 1.0\nOp(sin({p})) | 0\n"}]


def run(tier, seed):
    res = Result(PROP, tier, seed)
    rng = random.Random(seed)
    status = fw.build()
    proof_obligations(res, status, "props/C04.v", NEEDS)
    quick = tier == "quick"
    stats = {}
    import impl
    # recorded finding: elementary functions of template parameters cannot be loaded
    for k in [k for k in fw.load_known() if k["property"] == PROP and k.get("status") == "known"]:
        try:
            impl.loads(k["witness"])
        except Exception as e:  # noqa: BLE001
            res.known.append("%s: %s -> %s" % (k["id"], k["what"], type(e).__name__))
    if status.bbmodel_ok:
        model = fw.Model()
        ok = True
        n = 300 if quick else 10000
        t_end = time.time() + (75 if quick else 1500)
        for i in range(n):
            if time.time() > t_end:
                res.extra["stopped_by_time_budget"] = True
                break
            try:
                text, names, arrays = gen_template(rng, i)
            except Exception:  # noqa: BLE001
                continue
            for rep in range(2 if quick else 3):
                sg = values_for(rng, names, arrays)
                try:
                    msg = check_case(res, model, impl, text, names, arrays, sg, stats)
                except fw.ModelError as e:
                    res.oblige("model answers", "correspondence", False, str(e)[:200])
                    msg = None
                    break
                res.case(text + repr(sorted(sg.items())), len(names) + len(arrays) >= 1 and text.count("\n") >= 5,
                         {"template": text, "values": sg} if len(res.samples) < 3 and len(text) < 400 else None)
                res.count("template:%d-params%s" % (min(len(names), 4), "+array" if arrays else ""))
                if msg:
                    ok = False
                    res.violate(msg, {"check": "instantiate", "text": text, "values": sg, "names": names, "arrays": arrays})
                    break
            if len(res.violations) >= 5:
                break
        res.oblige("correspondence: instance = model instantiation = load(substituted text); parameters exact; missing value refused", "correspondence", ok)
        model.close()
    else:
        res.oblige("model binary available", "correspondence", False)
    res.extra["comparison_stats"] = stats
    return finish(res, level="proof", trusted=fw.TRUSTED_COMMON + ["sympy.lambdify evaluates instantiated expressions", "the expansion of array-valued arguments p -> p_i_j is done by the harness for the model"],
                  rule="templates with {name} parameters in positional/keyword/list arguments, scalar initialisers, array elements at any "
                       "positions, whole arrays with a declared shape and loop bodies; 2-3 assignments of generic values (|v| in [0.1, 9]); "
                       "checked: parameters = names written (arrays expanded), is_template, instance has no parameter or symbol left, "
                       "instance == load(text with {p} replaced by (value)) to 1e-9, instance == model instantiate, missing value -> ValueError")


def replay(rep):
    import impl
    fw.build()
    model = fw.Model()
    inp = rep["input"]
    res = Result(PROP, "quick", 0)
    msg = check_case(res, model, impl, inp["text"], inp["names"], {k: tuple(v) for k, v in inp["arrays"].items()}, inp["values"], {})
    print(msg)
    return 1 if msg else 0
