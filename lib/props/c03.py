"""C03 — expressions evaluate to their arithmetic value under the grammar's precedence."""
import itertools

import loadcmp
from gen_script import Gen

PROP = "C03"
NEEDS = ["model/Syntax.v", "model/Parser.v", "model/Values.v", "model/Eval.v", "model/Loader.v",
         "proofs/ExprP.v", "proofs/EvalP.v", "extract/Extract.v"]
HDR = "name e\nversion 1.0\n"
DECLS = ("int n = 3\nfloat x = 0.75\ncomplex z = 1+2j\nint array A =\n    1, 2, 3\n    4, 5, 6\n"
         "float array F[2, 2] =\n    0.5, 1.5\n    2.5, 3.5\n")


def cases(rng, quick, gr):
    # (1) every lexical form of the number literals, alone and under a sign
    lits = ["0", "7", "007", "123456789", "1.5", "0.25", "10.0", "1e3", "2E-2", "12.5e+1", "5e0", "3.25E+2", "1j", "2.5J", "1+2j",
            "3-1.5j", "+2j", "-0.5e1J", "1e1+2e-1j", "0j", "pi", "4.0e-1-2E+0j"]
    for lit in lits:
        yield {"tag": "literal", "text": HDR + "Op(%s, -%s, +%s, (%s)) | 0\n" % (lit, lit, lit, lit)}
        # a sign that is a token of its own (blank before the literal): it negates the WHOLE literal, both parts of a complex one
        yield {"tag": "literal-under-spaced-sign", "text": HDR + "Op(- %s, 3 * - %s, -  %s, 2 - - %s, -(%s)) | 0\n" % (lit, lit, lit, lit, lit)}
    # (2) precedence / associativity matrix: a op1 b op2 c, with optional sign, over atoms that keep everything defined
    ops = ["+", "-", "*", "/", "**"]
    atoms = ["2", "3", "1.5", "n", "x", "A[4]", "(1+1)", "2j"]
    combos = list(itertools.product(ops, ops))
    trip = []
    for o1, o2 in combos:
        for sgn in ["", "-"]:
            for _ in range(2 if quick else 12):
                a, b, c = (rng.choice(atoms) for _ in range(3))
                if o2 == "**" and c in ("2j", "1.5", "x"):
                    c = "2"
                if o1 == "**" and b in ("2j",):
                    b = "2"
                if o1 == "**" and o2 == "**":
                    b, c = "2", rng.choice(["2", "3"])
                trip.append("%s%s %s %s %s %s" % (sgn, a, o1, b, o2, c))
    for t in trip:
        yield {"tag": "precedence", "text": HDR + DECLS + "Op(%s) | 0\n" % t}
    # four-operand chains and exponent towers with signs
    for _ in range(60 if quick else 2000):
        k = rng.randint(3, 6)
        parts = [rng.choice(["2", "3", "1.5", "n", "x", "A[1]", "F[3]"])]
        for _ in range(k):
            o = rng.choice(ops)
            nxt = rng.choice(["2", "3", "1.5", "n", "x", "A[1]", "F[3]", "-2", "+3"]) if o != "**" else rng.choice(["2", "3", "-1", "0"])
            parts += [o, nxt]
        yield {"tag": "chain", "text": HDR + DECLS + "Op(%s) | 0\n" % " ".join(parts)}
    # (3) functions over their real domains, on ints, floats and complex
    fargs = {"exp": ["1", "0.5", "-2", "1j"], "log": ["2", "0.5", "10"], "sin": ["1", "pi/6", "2+1j"], "cos": ["0", "pi/3", "1j"],
             "tan": ["1", "0.3"], "arcsin": ["0.5", "-0.25"], "arccos": ["0.5", "0"], "arctan": ["3", "-0.7"],
             "sinh": ["1", "0.25", "1+1j"], "cosh": ["1", "2", "0.5j"], "tanh": ["0.5", "3"], "arcsinh": ["2", "-1.5"],
             "arccosh": ["2", "1.5"], "arctanh": ["0.5", "-0.25"], "sqrt": ["4", "2", "0.25", "n"]}
    # complex arguments on both sides of |Re| = 1 (off the branch cuts), and real arguments whose results are tiny or huge
    cargs = ["1.5+2j", "3-1j", "-2+0.5j", "0.5+2j", "-0.25-3j", "z", "1+1j", "0.5j"]
    small = {"sin": ["0.00001", "3.1415", "1e-7"], "cos": ["1.5707", "1.5708"], "tan": ["0.0000123", "3.14159"], "sinh": ["1e-6"],
             "tanh": ["1e-6", "20"], "arcsin": ["1e-6", "0.999999", "1", "-1"], "arccos": ["0.999999", "1", "-1"], "arctan": ["1e-8", "1e8"],
             "exp": ["-30", "1e-9", "40"], "log": ["1.000001", "1e-10", "1e10"], "arctanh": ["1e-7", "0.999999"], "arccosh": ["1.000001", "1e6"],
             "arcsinh": ["1e-7", "1e7"], "cosh": ["1e-4", "30"], "sqrt": ["1e-20", "1e20", "2+2j"]}
    for f in fargs:
        fargs[f] = fargs[f] + cargs + small.get(f, [])
    for f, al in fargs.items():
        for a in al:
            yield {"tag": "function", "text": HDR + DECLS + "Op(%s(%s), 2*%s(%s)+1, %s(%s)**2) | 0\n" % (f, a, f, a, f, a)}
    # (4) division and powers by integer-valued sub-expressions (computed ints, array elements, variables)
    for d in ["n", "A[0]", "(1+1)", "n*2", "A[5]-A[4]+1", "2**2", "-n"]:
        yield {"tag": "int-division", "text": HDR + DECLS + "Op(1/%s, x/%s, 7/%s/2, 2**-1, n**-2, (%s)**-1) | 0\n" % (d, d, d, d)}
    # (4b) integer bases to negative integer powers whose positive power leaves int64 (the value itself is a modest real)
    for base in ["2", "3", "7", "10", "n", "A[4]", "(1+1)", "(2*5)", "-3", "n*2"]:
        for ex in ["-1", "-10", "-19", "-20", "-23", "-40", "-63", "-64", "-(n+17)", "-A[5]*7", "-n*9"]:
            yield {"tag": "int-negative-power", "text": HDR + DECLS + "Op(%s**%s, 5*(%s)**%s+1) | 0\n" % (base, ex, base, ex)}
    # (4c) extreme but finite magnitudes
    for lit in ["1e-20", "3.5e+15", "2E-30", "1e25", "9.99e-7", "123456789012.5", "1e-300*1e5", "7e150*7e-150"]:
        yield {"tag": "extreme-magnitude", "text": HDR + DECLS + "Op(%s, %s * x, 1 / %s, (%s) ** 2, %s + n) | 0\n" % (lit, lit, lit, lit, lit)}
    # (4d) left-to-right chains of / and * whose regrouping (a / (b * c), (a * b) / c ...) leaves int64 or the double range although
    #      every written sub-expression stays in range
    for e in ["1 / 4294967296 / 4294967296", "3 / 3000000000 / big9", "(1+2j) / 6000000000 / 6000000000", "1e250 / 1e200 / 1e200", "1e-250 / D9[0] / 1e-200",
              "7 / 2 ** 31 / 2 ** 31 / 2 ** 2", "big9 / big9 / big9 / big9", "1e-200 / 1e150 * 1e200", "5 / n / 4611686018427387904 / 4", "1 / D9[1] / D9[1] / D9[1] * 1e300"]:
        yield {"tag": "regrouping-sensitive-chain", "text": HDR + DECLS + "int big9 = 4000000000\nfloat array D9 =\n    1e-200, 1e120\nOp(%s, 2 * (%s)) | 0\n" % (e, e)}
    # (4a) complex exponents on integer / float / complex bases, as literals and variables
    for base in ["2", "n", "A[1]", "(1+1)", "3", "2.0", "x", "1j", "(2)"]:
        for ex in ["1j", "-0.5J", "1+1j", "zc", "2j", "(0.5+0.25j)"]:
            yield {"tag": "complex-exponent", "text": HDR + DECLS + "complex zc = 0.25-1j\nOp(%s ** %s, 1 + %s ** %s * 2) | 0\n" % (base, ex, base, ex)}
    yield {"tag": "complex-exponent", "text": HDR + DECLS + "complex zc = 0.5j\nfor int k in 2:4\n    Op(k ** zc, 2 ** 3 ** 1j) | 0\n"}
    # (4b) left-to-right evaluation with exact integers: integer terms above 2**53 whose exact partial sum is small, followed or
    #      preceded by a float / complex term (summing all terms at once in floating point loses the integer part)
    bigs = [2 ** 53 + 1, 2 ** 53 + 3, 2 ** 62 + 1, 4611686018427387905, 9007199254740995, 2 ** 60 + 7]
    for b in bigs:
        for d in [1, 2, 5]:
            for tail in ["0.5", "0.25", "2j", "x", "pi", "1.5e-3"]:
                yield {"tag": "exact-int-chain", "text": HDR + DECLS + "int big = %d\nint array BG =\n    %d, %d\nOp(%d - %d + %s, big - %d + %s, BG[0] - BG[1] - %s, %s + %d - %d, %d + %d - %d - %s) | 0\n"
                       % (b, b, b - d, b, b - d, tail, b - d, tail, tail, tail, b, b - d, d, b, b, tail)}
    # (4e) integer products just below 2**63 (they fit; an overflow guard by bit lengths would not think so)
    for e in ["3000000001 * 3000000001 - 9000000006000000000", "big3 * big3 - 9000000006000000000", "BI[0] * BI[1] + 1 - 9000000006000000001",
              "2147483648 * 4294967295 - 9223372032559808511", "-3037000499 * 3037000499 + 9223372030926249001"]:
        yield {"tag": "int-product-near-2^63", "text": HDR + DECLS + "int big3 = 3000000001\nint array BI =\n    3000000001, 3000000001\nOp(%s, 1 + (%s)) | 0\n" % (e, e)}
    # (4c) declared variables whose NAMES read like numbers to Python / NumPy / SymPy (inf, nan, j, E, I, oo, ...): a name is a
    #      variable reference wherever it stands - alone, under a sign, in lists, in options, in array rows and in loops
    NUMLIKE = ["inf", "nan", "NaN", "Infinity", "infinity", "INF", "j", "J", "infj", "nanj", "e", "E", "e1", "I", "oo", "zoo", "S", "N", "O", "Q",
               "None", "nil", "x1e5", "d", "f", "L", "l", "_1" if False else "b1", "Inf", "NAN", "E1", "inf_", "pi2", "Pi", "PI", "tau"]
    for k in range(8 if quick else 40):
        nms = rng.sample(NUMLIKE, 4)
        vals = ["0.25", "1.5", "3", "2-1j"]
        tys = ["float", "float", "int", "complex"]
        decl = "".join("%s %s = %s\n" % (t, nm, v) for t, nm, v in zip(tys, nms, vals))
        a, b, c, d = nms
        yield {"tag": "number-like-names", "text": "name e\nversion 1.0\n" + decl +
               "Op(%s, -%s, +%s, %s, -%s, 2*%s, %s) | %s\nOp(x=%s, y=-%s, l=[%s, %s, -%s], z=%s) | 0\n"
               "float array FA =\n    %s, %s\n    -%s, %s\ncomplex array CA =\n    %s, %s, -%s\nOp(FA[0], FA[1], FA[2], FA[3], CA[0], CA[1], CA[2]) | 1\n"
               "float s = %s\ncomplex t = -%s\nOp(s, t) | 0\nfor float w in [%s, %s, 0.5]\n    Op(w, %s) | 0\n"
               % (a, a, b, d, d, a, c, c, a, b, a, b, b, d, a, b, a, c, d, a, d, a, d, a, b, b)}
    # (5) row-major indexing with computed indices
    for k in range(6):
        yield {"tag": "index", "text": HDR + DECLS + "Op(A[%d], A[%d+0], A[n-3+%d], F[%d]) | A[%d]\n" % (k, k, k, k % 4, k)}
    # (5a) indexing an array that also holds template parameters: the numeric elements keep their row-major places
    for k in range(6):
        yield {"tag": "index-next-to-parameters", "text": HDR + DECLS + "float array PA[2, 3] =\n    1.5, {a}, 3.0\n    4.0, 5.5, {b}\nfloat array PB =\n    {a}, 2, {b}, 4, {a}, 6\n"
               "Op(PA[0], PA[2], PA[3], PA[4], PA[4] * 2 + PA[3] ** 2, PB[1], PB[3] + PB[5], PB[%d] + 0) | 0\n" % (1 + 2 * (k % 3))}
    # (5c) whole-array arithmetic between two reads of the same elements (array arithmetic itself is outside the model: the two
    #      reads are compared with each other and with the script that lacks the array statement)
    for opx in ["FA - FB", "FA + FB", "-FB", "FA * FB", "FB - FA", "FA - FB - FB", "-FB + FA"]:
        head = HDR + "float array FA =\n    5.5, 2.5\n    7, 9\nfloat array FB =\n    1.5, 0.5\n    3, 6.5\n"
        reads = "Op(FB[1] * 2 + 1, FA[3] - FB[3], FB[2] / 4, pi * FB[0], FA[0]) | 0\n"
        a = head + reads + "Arr(%s) | 1\n" % opx + reads
        b = head + reads + reads

        def pred(impl, a=a, b=b, opx=opx):
            try:
                pa, pb = impl.loads(a), impl.loads(b)
            except Exception:  # noqa: BLE001
                return None          # this form of array arithmetic is not supported at all
            x, y, z = pa.operations[0]["args"], pa.operations[2]["args"], pb.operations[1]["args"]
            if [complex(u) for u in x] != [complex(u) for u in y] or [complex(u) for u in y] != [complex(u) for u in z]:
                return "reading the same array elements before and after evaluating %s gives %r then %r" % (opx, x, y)
            return None
        yield {"tag": "reads-around-array-arithmetic", "pred": pred, "key": a, "input": {"check": "pred", "tag": "reads-around-array-arithmetic"}}
    # (5b) a variable / array declared again after it has been used: later uses see the NEW value
    for k in range(6):
        yield {"tag": "redeclared", "text": HDR + "int array A =\n    1, 2, 3\nfloat y = A[%d] * 2\nint array A =\n    10, 20, 30, 40, 50\nOp(A[%d], y, A[4] - A[%d]) | A[0] - 10\n" % (k % 3, k % 5, k % 3)}
        yield {"tag": "redeclared", "text": HDR + "float v = %d.5\nfloat w = v + 1\nfloat v = %d\nOp(v, w, v * w) | 0\nint array M =\n    7, 8\nOp(M[1]) | 1\nfloat array M =\n    0.5, 1.5, 2.5\nOp(M[2], M[0] + v) | 1\n" % (k, k + 3)}
    # (6) random deep expressions
    n = 1500 if quick else 120000
    for i in range(n):
        g = Gen(rng, allow_loops=False, allow_strbool=False)
        try:
            lines = g.header()[:2] + [""]
            for _ in range(rng.randint(0, 3)):
                lines.append(g.scalar_decl() if rng.random() < 0.7 else g.array_decl())
            es = [g.expr(rng.choice([2, 3, 4, 5, 6, 8]), rng.choice([None, None, "int", "float", "complex"])) for _ in range(rng.randint(1, 3))]
            lines.append("Op(%s) | 0" % ", ".join(e.text for e in es))
            text = "\n".join(lines) + "\n"
        except Exception:  # noqa: BLE001
            continue
        yield {"tag": "random-depth", "text": text}


def run(tier, seed):
    return loadcmp.run_property(
        PROP, tier, seed, cases, NEEDS,
        rule="every number-literal lexical form; all 25 operator pairs a op1 b op2 c with/without sign; operator chains and "
             "exponent towers; the 15 functions on int/float/complex arguments in their domains; division and negative powers "
             "of integer-valued sub-expressions; row-major indices; random expressions of depth <= 8 over declared scalars and "
             "array elements. Oracle: the model's term (stratified reading of the text) evaluated exactly (mpmath, 50 digits) "
             "with a forward error bound; kinds (int/float/complex) compared exactly; non-trivial = >=2 operators")


def replay(rep):
    return loadcmp.replay_load(PROP, rep)
