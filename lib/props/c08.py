"""C08 — measured-register arguments become transforms computing the written formula."""
import random
import time

import framework as fw
import loadcmp
import subproc
from framework import Result, finish, proof_obligations
from gen_script import Gen

PROP = "C08"
NEEDS = ["model/Values.v", "model/Eval.v", "model/Loader.v", "proofs/EvalP.v", "proofs/TransformP.v", "extract/Extract.v"]
HDR = "name r\nversion 1.0\n"


from fractions import Fraction

NEAR_OFFSET = [("(q0 - 1000.5) ** 6", {0: 1000.75}, lambda v: (v[0] - Fraction(2001, 2)) ** 6),
               ("(q1 - 20.25) ** 8 + 1", {1: 20.5}, lambda v: (v[1] - Fraction(81, 4)) ** 8 + 1),
               ("(q0 - shift) ** 6 / (q1 + 2)", {0: 1000.75, 1: 20.5}, lambda v: (v[0] - Fraction(2001, 2)) ** 6 / (v[1] + 2)),
               ("(q2 - 512.5) * (q2 - 512.5) * (q2 - 512.5) * (q2 - 512.5)", {2: 512.625}, lambda v: (v[2] - Fraction(1025, 2)) ** 4),
               ("(q0 - 4096.25) ** 4 - (q1 - 20.25) ** 2", {0: 4096.5, 1: 20.5}, lambda v: (v[0] - Fraction(16385, 4)) ** 4 - (v[1] - Fraction(81, 4)) ** 2),
               # integer measurement values (photon counts) and integer coefficients: the value is an exact, possibly large, integer
               ("q0 ** 4 - 3 * q1", {0: 60000, 1: 7}, lambda v: v[0] ** 4 - 3 * v[1]),
               ("q1 ** 3 * q0 + 1", {0: 5, 1: 3000000}, lambda v: v[1] ** 3 * v[0] + 1),
               ("q2 * q2 * q2 - q0", {0: 3, 2: 2 ** 21}, lambda v: v[2] ** 3 - v[0]),
               # coefficients of very small and very large magnitude (below machine epsilon, far above 2**53): a coefficient is a factor of
               # the written formula whatever its size, and its register stays listed
               ("1e-16 * q0 + q1", {0: 3e17, 1: 0.25}, lambda v: Fraction(1e-16) * v[0] + v[1]),
               ("2.5e-17 * q1", {1: 4e16}, lambda v: Fraction(2.5e-17) * v[1]),
               ("q0 * 1e-30 + q1 * 1e30", {0: 1e30, 1: 1e-30}, lambda v: Fraction(1e-30) * v[0] + Fraction(1e30) * v[1]),
               ("q0 / 1e20 - q1", {0: 5e20, 1: 2}, lambda v: v[0] / Fraction(1e20) - v[1]),
               ("(q0 + 1e-20) * q1 + 1e-18 * q2", {0: 0.0, 1: 1e20, 2: 3e18}, lambda v: (v[0] + Fraction(1e-20)) * v[1] + Fraction(1e-18) * v[2]),
               ("1e-200 * q2 * q2", {2: 1e100}, lambda v: Fraction(1e-200) * v[2] * v[2])]


def reg_expr(rng, regs, depth=2):
    """polynomial/rational expression over registers with int/float coefficients; no identical cancellation"""
    def coeff():
        return rng.choice(["2", "3", "0.5", "1.5", "2.25", "4", "x", "n"])

    used = []

    def term():
        q = rng.choice(regs)
        used.append(q)
        r = rng.random()
        if r < 0.3:
            return q
        if r < 0.6:
            return "%s * %s" % (coeff(), q)
        if r < 0.68:
            return "%s ** %d" % (q, rng.randint(2, 3))
        if r < 0.75:
            # a negative integer exponent, literal or a declared int variable (a rational expression)
            return rng.choice(["%s ** -%d" % (q, rng.randint(1, 2)), "%s ** nneg" % q, "(%s + 1.5) ** -2" % q])
        if r < 0.9:
            return "%s / %s" % (q, coeff())
        return "(%s + %s)" % (q, coeff())
    n = rng.randint(1, 3)
    parts = [term()]
    for _ in range(n - 1):
        qs = [q for q in regs if q not in used] or regs
        q = rng.choice(qs)
        used.append(q)
        parts.append(rng.choice(["+", "-"]) + " " + rng.choice(["%s * %s" % (coeff(), q), q + " ** 2", "%s * %s / 2" % (q, coeff())]))
    e = " ".join(parts)
    if rng.random() < 0.3:
        e = "%s + %s" % (e, coeff())
    if rng.random() < 0.2:
        e = "(%s) / (%s + 3)" % (e, "2")
    # each register symbol must not cancel: registers in +/- terms are distinct by construction, except repeated ones in products
    if len(set(used)) != len(used):
        return None
    return e


def cases(rng, quick):
    n = 300 if quick else 5000
    for _ in range(n):
        nreg = rng.randint(1, 4)
        regs = ["q%d" % r for r in rng.sample([0, 1, 2, 3, 5, 7, 12, 100, 255], nreg)]
        if rng.random() < 0.2:
            # unusual but valid spellings of register numbers: leading zeros (q01 is the register of mode 1)
            regs = [("q0" + r[1:] if rng.random() < 0.6 else "q00" + r[1:]) for r in regs]
        lines = [HDR + "float x = 0.75\nint n = 3\nint nneg = -2"]
        ctx = rng.random()
        if ctx < 0.25:
            # a template: other statements (before or after) use free parameters
            lines.append("Dgate({%s}%s) | 0" % (rng.choice(["alpha", "a", "q", "x1"]), rng.choice(["", ", 2 * {b}", ", phi={b} + 1"])))
        elif ctx < 0.4:
            # a tdm program with p-arrays (their names live in the same table as the parameters)
            lines = ["name r\nversion 1.0\ntype tdm (temporal_modes=2)\nfloat x = 0.75\nint n = 3\nint nneg = -2\nfloat array p0 =\n    0.1, 0.2\nfloat array p1 =\n    0.3, 0.4",
                     "Sgate(p0, 0.0) | 1"]
        k = rng.randint(1, 3)
        for _ in range(k):
            e = None
            while e is None:
                e = reg_expr(rng, regs)
            form = rng.choice(["Sgate(%s) | 0", "Dgate(0.5, %s) | [0, 1]", "MeasureX(phi=%s) | 2", "Rgate(1, a=%s, b=2) | 1", "BSgate(%s, q0) | 3",
                               "MeasureHomodyne(%s) | 2", "MeasureHomodyne(%s, select=q0 / 2) | 3", "MeasureX(0.5, %s, phi=1) | 2"])        # measurement statements with positional register expressions
            if ctx < 0.25 and rng.random() < 0.5:
                form = rng.choice(["Gate({alpha}, %s) | 2", "Gate({alpha}, 0.5, %s) | 2", "Gate(2 * {b}, x, %s, {alpha}) | 1", "Gate({alpha}, k=%s, j={b}) | 0"])
            lines.append(form % e)
        if rng.random() < 0.5:
            # sibling expressions that differ in one constant only (caches keyed by anything but the expression itself show up here)
            q, r = rng.sample(regs, 1)[0], rng.choice(regs)
            fam = rng.choice([("-%s", "-2 * %s"), ("1 / %s", "1 / %s ** 2"), ("%s - {R}".replace("{R}", r + "x"), None), ("%s ** 2", "%s ** 3"),
                              ("0.5 * %s", "1.5 * %s"), ("%s + 1", "%s + 2"), ("3.0 * {R} / %s".replace("{R}", "q99"), "3.0 * {R} / %s ** 2".replace("{R}", "q99")),
                              ("q98 - %s", "q98 - 2 * %s"), ("-1.0 * %s", "-2.0 * %s")])
            if fam[1] is not None:
                lines.append("Zgate(%s) | 0" % (fam[0] % q))
                lines.append("Zgate(%s) | 0" % (fam[1] % q))
                lines.append("Zgate(a=%s, b=%s) | 1" % (fam[1] % q, fam[0] % q))
        if rng.random() < 0.4:
            a_, b_, c_ = rng.sample([0, 1, 2, 4, 5, 7, 10, 12], 3)
            for form in rng.sample(["q%d - q%d / q%d", "q%d * (q%d + q%d)", "2 * q%d * q%d + q%d ** 2", "(q%d - q%d) / (q%d + 3)", "q%d ** 2 - (q%d - 1) * q%d"], 2):
                lines.append(rng.choice(["Zgate(%s) | 0", "Zgate(0.5, k=%s) | 1"]) % (form % (a_, b_, c_)))
        lines.append("Xgate(0.5, x, n * 2, s=\"a\") | 0")       # arguments without registers stay plain
        if 0.25 <= ctx < 0.4:
            lines.append("Rgate(p1) | 0")
        elif ctx < 0.1:
            lines.append("Kgate({kappa}) | 1")
        yield "\n".join(lines) + "\n"


def include_call_case(impl, k):
    """register expressions handed to an included TEMPLATE as keyword values of the call: where the template uses the parameter bare
    (positional or keyword), the expanded operation carries a transform with exactly the written registers and the written
    function - like the same argument written directly in a statement (-> message or None)"""
    import os
    import shutil
    import tempfile
    from fractions import Fraction as F
    exprs = [("2*q0 + q12/4", {0: 0.5, 12: 3.0}, lambda v: 2 * v[0] + v[12] / 4), ("q12 ** 2", {12: 1.5}, lambda v: v[12] ** 2), ("q3 - q0", {0: 2.0, 3: 0.25}, lambda v: v[3] - v[0]),
             ("q0", {0: 0.75}, lambda v: v[0]), ("3 * q1 * q2", {1: 0.5, 2: 4.0}, lambda v: 3 * v[1] * v[2]), ("q2 / 8 - 1", {2: 2.0}, lambda v: v[2] / 8 - 1)]
    (e1, v1, f1), (e2, v2, f2) = exprs[k % len(exprs)], exprs[(k * 5 + 1) % len(exprs)]
    d = tempfile.mkdtemp(prefix="bbverif.", dir="/var/tmp")
    try:
        open(os.path.join(d, "tpl.xbb"), "w").write("name T\nversion 1.0\nZgate({alpha}) | 0\nDgate(0.5, r={beta}) | 1\nSgate(0.25) | 0\n")
        meas = "".join("MeasureX | %d\n" % m for m in sorted(set(v1) | set(v2)))
        main = os.path.join(d, "main.xbb")
        open(main, "w").write('name main\nversion 1.0\ninclude "tpl.xbb"\n%sT(alpha=%s, beta=%s) | [20, 21]\nSgate(%s) | 22\n' % (meas, e1, e2, e1))
        try:
            p = impl.load(main) if hasattr(impl, "load") else __import__("blackbird").load(main)
        except Exception as e:  # noqa: BLE001
            return "a call of an included template with register expressions as keyword values (alpha=%s, beta=%s) fails: %s: %s" % (e1, e2, type(e).__name__, str(e)[:100])
        ops = p.operations[-4:]
        got = [("Zgate", ops[0]["args"][0], e1, v1, f1, 20), ("Dgate r", ops[1]["kwargs"]["r"], e2, v2, f2, 21), ("Sgate (direct statement)", ops[3]["args"][0], e1, v1, f1, 22)]
        for what, t, e, v, f, mode in got:
            if not (hasattr(t, "regrefs") and hasattr(t, "func")):
                return "%s: the register expression %s handed to an included template is delivered as %s (%s), not as a register transform" % (what, e, type(t).__name__, t)
            if sorted(int(r) for r in t.regrefs) != sorted(v):
                return "%s: the transform of %s lists registers %s" % (what, e, list(t.regrefs))
            val = float(t.func(*[v[int(r)] for r in t.regrefs]))
            want = float(f({a: F(b) for a, b in v.items()}))
            if abs(val - want) > 1e-12 * max(1.0, abs(want)):
                return "%s: the transform of %s gives %r at %s, the written formula gives %r" % (what, e, val, v, want)
        if list(ops[0]["modes"]) != [20] or list(ops[1]["modes"]) != [21]:
            return "the included template is applied to modes %s / %s" % (ops[0]["modes"], ops[1]["modes"])
    finally:
        shutil.rmtree(d, ignore_errors=True)
    return None


def run(tier, seed):
    res = Result(PROP, tier, seed)
    rng = random.Random(seed)
    status = fw.build()
    proof_obligations(res, status, "props/C08.v", NEEDS)
    quick = tier == "quick"
    stats = {}
    if status.bbmodel_ok:
        import impl
        model = fw.Model()
        texts = list(cases(rng, quick))
        ok = True
        t_end = time.time() + (60 if quick else 1400)
        # (a) correspondence in this process: registers exactly those occurring, pairing of regrefs and func = the written formula
        for text in texts:
            if time.time() > t_end:
                break
            st = loadcmp.compare_load(res, model, impl, text, "regref-script", stats)
            if st == "violation":
                ok = False
                if len(res.violations) >= 5:
                    break
            elif len(res.samples) < 3:
                res.samples.append({"script": text})
        # (b) the same scripts under several hash seeds: register sets and function values agree, pairing holds in each
        seeds = [0, 1, 2, 3] if quick else [0, 1, 2, 3, 4, 5, 6, 7]
        sub = texts[: (120 if quick else 1500)]
        jobs = [([{"kind": "loads", "text": t} for t in sub], s, None) for s in seeds]
        results = subproc.run_many(jobs)
        for i, t in enumerate(sub):
            base = results[0][i]
            for s, r in zip(seeds[1:], results[1:]):
                o = r[i]
                res.count("seed-comparisons")
                if o.get("out") != base.get("out"):
                    ok = False
                    res.violate("outcome differs between hash seeds 0 and %s" % s, {"check": "seeds", "text": t, "seed": s})
                    break
                if o.get("out") != "ok":
                    continue
                for a, b in zip(base["obs"]["ops"], o["obs"]["ops"]):
                    ta = [x for x in a["args"] + [v for _, v in a["kwargs"]] if x[0] == "trf"]
                    tb = [x for x in b["args"] + [v for _, v in b["kwargs"]] if x[0] == "trf"]
                    for x, y in zip(ta, tb):
                        same_vals = all(isinstance(u, list) and isinstance(v, list) and abs(complex(*u) - complex(*v)) <= 1e-9 * max(1, abs(complex(*u))) for u, v in zip(x[2], y[2]))
                        if x[1] != y[1] or not same_vals or not y[3]:
                            ok = False
                            res.violate("transform differs between hash seeds 0 and %s: registers %s / %s, values %s / %s" % (s, x[1], y[1], x[2], y[2]),
                                        {"check": "seeds", "text": t, "seed": s})
            if len(res.violations) >= 5:
                break
        # (c) the function computes the WRITTEN formula, also where an algebraically equal rearrangement would not: powers and
        #     products of bracketed differences with a large offset, evaluated at measurement values close to the offset (every
        #     number is a dyadic rational, so the written formula has an exactly representable value, computed with fractions)
        near = NEAR_OFFSET
        for expr, vals, exact in near:
            for form in ("Zgate(%s) | 3", "Zgate(0.5, select=%s) | 3", "MeasureHomodyne(%s) | 3"):
                text = HDR + "float shift = 1000.5\nMeasureX | 0\nMeasureX | 1\nMeasureX | 2\n" + form % expr + "\n"
                res.case(text, True, None)
                res.count("transform-near-offset")
                try:
                    p = impl.loads(text)
                    o = p.operations[-1]
                    trf = (o["args"] + list(o["kwargs"].values()))[-1]
                    if sorted(trf.regrefs) != sorted(vals):
                        ok = False
                        res.violate("the transform of %s lists registers %s, written are %s" % (expr, sorted(trf.regrefs), sorted(vals)), {"check": "near-offset", "text": text})
                        continue
                    got = float(trf.func(*[vals[r] for r in trf.regrefs]))
                    want = float(exact({k: Fraction(v) for k, v in vals.items()}))
                    if abs(got - want) > 1e-9 * abs(want):
                        ok = False
                        res.violate("the transform of %s gives %r at %s, the written formula gives %r" % (expr, got, vals, want), {"check": "near-offset", "text": text})
                except Exception as e:  # noqa: BLE001
                    ok = False
                    res.violate("evaluating the transform of %s fails: %s: %s" % (expr, type(e).__name__, str(e)[:100]), {"check": "near-offset", "text": text})
        for k in range(6):
            try:
                msg = include_call_case(impl, k)
            except Exception as e:  # noqa: BLE001
                msg = "harness error in include-call case %d: %s: %s" % (k, type(e).__name__, str(e)[:100])
            res.case("include-call-%d" % k, True, None)
            res.count("transform-through-include-call")
            if msg:
                ok = False
                res.violate(msg, {"check": "include-call", "k": k})
        res.oblige("correspondence: transforms = model (registers exact, func(listed order) = written formula) in-process and under %d hash seeds" % len(seeds), "correspondence", ok)
        model.close()
    else:
        res.oblige("model binary available", "correspondence", False)
    res.extra["comparison_stats"] = stats
    return finish(res, level="proof", trusted=fw.TRUSTED_COMMON + ["sympy.lambdify; the order in which a transform lists its registers is the implementation's freedom and is read from the object"],
                  rule="scripts whose arguments are polynomial/rational expressions over 1-4 distinct registers qN (N up to 3 digits) with int/float "
                       "coefficients and declared variables, in positional and keyword position, in plain programs, in templates (free parameters in other "
                       "statements) and in tdm programs with p-arrays; compared with the model (register set, function "
                       "values at 3 points passed in the listed order) and re-run under 4 (thorough: 8) PYTHONHASHSEED values")


def replay(rep):
    import impl
    inp = rep["input"]
    if inp.get("check") == "include-call":
        msg = include_call_case(impl, inp["k"])
        print(msg)
        return 1 if msg else 0
    if inp.get("check") == "near-offset":
        for expr, vals, exact in NEAR_OFFSET:
            if expr in inp["text"]:
                o = impl.loads(inp["text"]).operations[-1]
                trf = (o["args"] + list(o["kwargs"].values()))[-1]
                if sorted(trf.regrefs) != sorted(vals):
                    print("registers", sorted(trf.regrefs), "written", sorted(vals))
                    return 1
                got = float(trf.func(*[vals[r] for r in trf.regrefs]))
                want = float(exact({k: Fraction(v) for k, v in vals.items()}))
                print(got, want)
                return 1 if abs(got - want) > 1e-9 * abs(want) else 0
        return 0
    if inp.get("check") == "seeds":
        r0 = subproc.run_batch([{"kind": "loads", "text": inp["text"]}], 0)
        r1 = subproc.run_batch([{"kind": "loads", "text": inp["text"]}], inp["seed"])
        same = json_same(r0, r1)
        print("same:", same)
        return 0 if same else 1
    return loadcmp.replay_load(PROP, rep)


def json_same(a, b):
    import json
    return json.dumps(a, sort_keys=True) == json.dumps(b, sort_keys=True)
