"""C02 — loading a script yields exactly the program the script denotes."""
import loadcmp
from gen_script import Gen

PROP = "C02"
NEEDS = ["model/Syntax.v", "model/Parser.v", "model/Values.v", "model/Eval.v", "model/Loader.v", "proofs/LoadP.v",
         "model/Listener.v", "proofs/ListenerP.v", "proofs/ParserP.v", "proofs/CompleteP.v", "extract/Extract.v"]


def cases(rng, quick, gr):
    n = 2500 if quick else 30000
    for i in range(n):
        g = Gen(rng, allow_params=(i % 4 == 0), allow_regs=(i % 6 == 0), allow_loops=(i % 3 != 2))
        try:
            text = g.script(syms_prob=0.4)
        except Exception:  # noqa: BLE001
            continue
        yield {"tag": "script", "text": text}
    # tdm programs (p-arrays by name, look-alike names by value)
    from props.c15 import tdm_script
    for i in range(60 if quick else 2000):
        text, _ = tdm_script(rng, with_params=(i % 4 == 0), with_loop=(i % 3 == 0))
        yield {"tag": "tdm", "text": text}
    # program types that merely resemble tdm (other case, longer names): p-named arrays are ordinary arrays there, passed by value
    for ty in ["TDM", "Tdm", "tdM", "tdmx", "xtdm", "t_dm", "tdm2"]:
        yield {"tag": "near-tdm-type", "text": "name t\nversion 1.0\ntype %s (temporal_modes=2)\nfloat array p0 =\n    0.1, 0.2\nint m = 3\nRgate(p0) | 0\nBSgate(theta=p0, phi=m, l=[p0, 1]) | [0, 1]\nfor int i in 0:2\n    Sgate(p0, i) | i\n" % ty}
    # integer LITERALS beyond 2**53 (exact integers, not doubles) as option, positional, keyword and list values, declared and listed
    for big in ["9007199254740993", "12345678901234567", "4611686018427387905", "9223372036854775807", "9007199254740992"]:
        yield {"tag": "big-int-literal", "text": "name m\nversion 1.0\ntarget dev (seed=%s)\nint k = %s\nOp(%s, a=%s, l=[%s, 1], b=-%s) | 0\nOp(k) | 1\nfor int i in [%s, 3]\n    Op(i) | 2\n" % ((big,) * 7)}
    # int scalars initialised with non-integer floats, then used as arguments and modes (implementation-level predicate, see c05)
    from props.c05 import int_from_float_cases
    yield from int_from_float_cases(rng, quick)
    # statement forms x bracket styles x argument shapes (small exhaustive matrix)
    hdr = "name m\nversion 1.0\n"
    forms = []
    for args in ["", "()", "(1)", "(1, 2.5)", "(a=1)", "(1, a=2)", '(x="s", y=True)', "(l=[1, 2], k=3)", "(1,)", "(, a=1)", "(a=[])",
                 "(a=[True, \"z\"], b=[1.5])"]:
        for modes in ["0", "0, 1", "[0]", "[0, 1]", "(0)", "(0, 1)", "(0), 1", "[0, 1)", "(0, 1]", "0, 1, 2"]:
            for op in ["Sgate", "MeasureX", "Measure"]:
                forms.append("%s%s | %s" % (op, args, modes))
    rng.shuffle(forms)
    for f in forms[: (120 if quick else len(forms))]:
        yield {"tag": "form", "text": hdr + f + "\n"}
    for meta in ["target gaussian\n", "target fock (cutoff_dim=5)\n", "type tdm (temporal_modes=2)\n",
                 "target X8_01 (shots=10)\ntype tdm (copies=1, temporal_modes=3)\n", 'target d.1 (a="x", b=True, c=1.5e-3, d=2+1)\n']:
        yield {"tag": "meta", "text": "name m\nversion 1.0\n" + meta + "Vac | 0\n"}


def run(tier, seed):
    return loadcmp.run_property(
        PROP, tier, seed, cases, NEEDS,
        rule="random structured scripts (metadata with/without target/type/options, scalar and array declarations, statements "
             "with every bracket style, positional/keyword/list arguments, Measure* operations, for-loops, template parameters, "
             "measured registers) + a matrix of statement forms; each is loaded by the implementation and by the extracted "
             "model and the programs are compared field by field; non-trivial = >=2 body lines or >=2 operators; distinct by text")


def replay(rep):
    return loadcmp.replay_load(PROP, rep)
