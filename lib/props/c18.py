"""C18 — comments, blank lines, spacing and line-ending style do not change the program."""
import random
import re

import loadcmp
from gen_script import Gen

PROP = "C18"
NEEDS = ["model/Lexer.v", "model/Parser.v", "model/Loader.v", "proofs/LexerP.v", "proofs/LayoutP.v", "proofs/SpaceP.v", "extract/Extract.v"]

TOKEN_RE = re.compile(r'"[^"\n]*"|\*\*|[A-Za-z_][A-Za-z_0-9.]*|\d[\d.]*(?:[eE][+-]?\d+)?[jJ]?|\S')


# comment texts with characters that some line-splitting routines (str.splitlines) treat as line ends although the
# grammar does not: VT, FF, FS, GS, RS, NEL, LS, PS; each followed by text that would be a statement if it became live
EXOTIC_COMMENTS = [" # page\x0cVac | 9", " # a\x0bSgate(7) | 8", " # nel\x85Vac | 9", " # ls\u2028Rgate(1) | 9", " # ps\u2029Vac | 7",
                   " # fs\x1cVac | 9", " # gs\x1dVac | 9", " # rs\x1eVac | 9", " # caf\u00e9 \u00a0 \ufeff x", " # \x00 nul"]

def digest(p):
    import numpy as np
    out = []
    for o in p.operations:
        out.append((o["op"], repr(o.get("args")), repr(sorted(o.get("kwargs", {}).items(), key=lambda kv: kv[0])) if "kwargs" in o else None,
                    [int(m) for m in o["modes"]]))
    vs = sorted((k, repr(v), getattr(v, "shape", None), str(getattr(v, "dtype", ""))) for k, v in p.variables.items())
    return (p.name, p.version, repr(p.target), repr(p.programtype), out, vs, sorted(p.parameters), sorted(int(m) for m in p.modes))


def line_kinds(lines):
    """classify the lines of a base script: 'array-head', 'array-row', 'for-head', 'for-body', 'other', 'blank'"""
    kinds = []
    prev = None
    for ln in lines:
        if not ln.strip():
            k = "blank"
        elif ln.startswith("    ") or ln.startswith("\t"):
            k = "array-row" if prev in ("array-head", "array-row") else "for-body"
        elif re.match(r"^\w+ array ", ln):
            k = "array-head"
        elif ln.startswith("for "):
            k = "for-head"
        else:
            k = "other"
        kinds.append(k)
        if k != "blank":
            prev = k
    return kinds


def edit(rng, text, kinds_wanted=None):
    """apply a random combination of the layout edits the language declares insignificant; returns (variant, tags)"""
    lines = text.split("\n")
    had_final_nl = text.endswith("\n")
    if had_final_nl:
        lines = lines[:-1]
    kinds = line_kinds(lines)
    tags = set()
    ops = kinds_wanted or rng.sample(["comment-eol", "comment-line", "blank", "spaces", "newline-style", "tab-indent", "final-newline", "trailing-space", "leading-space"],
                                     rng.randint(1, 4))
    margin = rng.choice([None, 1, 2, 3])        # the same run before every unindented line, or a run chosen line by line
    out = []
    for idx, (ln, k) in enumerate(zip(lines, kinds)):
        nxt = kinds[idx + 1] if idx + 1 < len(kinds) else None
        body, indent = ln, ""
        if ln.startswith("    "):
            indent, body = "    ", ln[4:]
        if "spaces" in ops and body.strip() and rng.random() < 0.6:
            # 1-3 spaces at boundaries that already hold a space (never next to the indentation)
            parts = re.split(r'("[^"]*")', body)
            body = "".join(p if p.startswith('"') else re.sub(r" ", lambda m: " " * rng.randint(1, 3), p) for p in parts)
            tags.add("spaces")
        if "tab-indent" in ops and indent and rng.random() < 0.7:
            indent = "\t"
            tags.add("tab-indent")
        ln2 = indent + body
        if "leading-space" in ops and not indent and body.strip() and not body.startswith(" ") and (margin or rng.random() < 0.5):
            # 1-3 spaces between the line end before an UNINDENTED line and its first token (never next to an indentation)
            ln2 = " " * (margin or rng.randint(1, 3)) + ln2
            tags.add("leading-space")
        if "trailing-space" in ops and ln2.strip() and rng.random() < 0.4:
            ln2 += " " * rng.randint(1, 3)
            tags.add("trailing-space")
        if "comment-eol" in ops and ln2.strip() and not ln2.endswith(" ") and rng.random() < 0.4:
            ln2 += rng.choice([" # comment", "  # x = 1 | 2", " #", " # \"quoted\" (text) [0]", " # squeeze mode 0,", " # rows 1, 2,  ", " # 7,", " # tuned in C:\\runs\\2021\\", " # \\alpha = 1/2 \\\\", " # ----\\", " # the disk is 3.5\"", " # \"", " # say \"hi", " # 'x' \"y\" `z`"] + EXOTIC_COMMENTS)
            tags.add("comment-eol")
        out.append(ln2)
        # own-line comments / blank lines: outside array bodies (not after an array head or row that is followed by a row)
        in_array = k in ("array-head",) or (k == "array-row" and nxt == "array-row")
        after_for_head = k == "for-head"
        if not in_array and not after_for_head:
            if "comment-line" in ops and rng.random() < 0.25:
                out.append(rng.choice(["# a comment", "#", "# Op(1) | 0", "#  spaced   comment ", "# first row is row 0,", "# 1,2, ", "# see D:\\data\\", "# \\"] + [c.lstrip() for c in EXOTIC_COMMENTS]))
                tags.add("comment-line")
            if "blank" in ops and rng.random() < 0.25:
                out.append("")
                tags.add("blank")
    if "blank" in ops and rng.random() < 0.5:
        out = [""] * rng.randint(1, 2) + out
        tags.add("blank-before-metadata")
    if "comment-line" in ops and rng.random() < 0.3:
        out = ["# header comment"] + out
        tags.add("comment-before-metadata")
    nl = "\n"
    if "newline-style" in ops:
        nl = rng.choice(["\r\n", "\r"])
        tags.add("newline-" + ("crlf" if nl == "\r\n" else "cr"))
    variant = nl.join(out)
    if "final-newline" in ops and rng.random() < 0.6:
        tags.add("no-final-newline")
    else:
        variant += nl
    return variant, sorted(tags)


def seeds_case(rng, quick):
    """the layout edits are insignificant in EVERY process: scripts with arrays and loops in LF / CR LF / CR form (and with tab
    indentation, comments, a missing final newline) loaded in fresh interpreters under other hash seeds must give what the LF text
    gives in this one"""
    bases = ["name s\nversion 1.0\n# header\nfloat array A =\n    1, 2\n    3, 4.5\nfor int i in 0:2\n    Sgate(A[i]) | i  # c\n    Vac | i\nMeasureX | 0\n",
             "name s\nversion 1.0\n\nint array B[1, 2] =\n    7, 8\nfor float x in [0.5, 1.5]\n    Rgate(x) | 1\nKgate(B) | 0"]
    variants = []
    for b in bases:
        for nl in ("\n", "\r\n", "\r"):
            for tab in (False, True):
                t = b.replace("    ", "\t") if tab else b
                variants.append((b, t.replace("\n", nl)))
    seeds = [3, 6, 8, 11] if quick else list(range(1, 33))

    def pred(impl, variants=variants, seeds=seeds):
        import subproc
        jobs = [([{"kind": "loads", "text": v} for _, v in variants], s, None) for s in seeds]
        results = subproc.run_many(jobs)
        for s, r in zip(seeds, results):
            for (b, v), o in zip(variants, r):
                try:
                    ref = impl.loads(b)
                except Exception as e:  # noqa: BLE001
                    return "a valid script with comments and blank lines (LF line ends) is refused: %s: %s" % (type(e).__name__, str(e)[:120])
                if o.get("out") != "ok":
                    return "under PYTHONHASHSEED=%s a layout variant (line ends %r) of a valid script fails: %s %s" % (s, "\r\n" if "\r\n" in v else "\r" if "\r" in v else "\n", o.get("cls"), str(o.get("msg"))[:80])
                if len(o["obs"]["ops"]) != len(ref.operations):
                    return "under PYTHONHASHSEED=%s a layout variant loads to %d operations, the LF text to %d" % (s, len(o["obs"]["ops"]), len(ref.operations))
        return None
    yield {"tag": "line-ends-under-hash-seeds", "pred": pred, "key": "seeds", "input": {"check": "pred", "tag": "line-ends-under-hash-seeds"}}


def cases(rng, quick, gr):
    yield from file_cases(rng, quick)
    yield from seeds_case(rng, quick)
    nbase = 120 if quick else 2000
    nedit = 8 if quick else 40
    for i in range(nbase):
        g = Gen(rng, allow_params=(i % 4 == 0), allow_regs=(i % 7 == 0))
        try:
            base = g.script(syms_prob=0.3)
        except Exception:  # noqa: BLE001
            continue
        if i % 3 == 0:
            # make the last construct an array declaration, a loop, or a declaration (the grammar treats line ends differently there)
            extra = rng.choice(["float array Zz =\n    1.5, 2\n    3, 4.25\n", "for int zi in 0:2\n    Vac | zi\n", "int array Zz[1, 2] =\n    7, 8\n",
                                "float zz9 = 1.5\n"])
            base = base.rstrip("\n") + "\n" + extra
        yield {"tag": "base", "text": base}
        # end-of-text variants: final newline absent, with 1-3 trailing spaces and/or a trailing comment, LF and CRLF
        stripped = base.rstrip("\n")
        for nl in (("\n", "\r\n") if (i % 3 == 0 or not quick) else ()):
            body = stripped.replace("\n", nl)
            for tail in ("", " ", "  ", "   ", " # end", "  #"):
                variant = body + tail

                def pred(impl, a=base, b=variant, tail=tail, nl=nl):
                    try:
                        pa = impl.loads(a)
                    except Exception:  # noqa: BLE001
                        return None
                    try:
                        pb = impl.loads(b)
                    except Exception as e:  # noqa: BLE001
                        return "no final newline, last line followed by %r (%s line ends): a valid script fails: %s: %s" % (tail, "CRLF" if nl != "\n" else "LF", type(e).__name__, str(e)[:100])
                    return None if digest(pa) == digest(pb) else "no final newline + %r changes the loaded program" % tail
                yield {"tag": "end-of-text", "text": variant, "pred": pred, "input": {"check": "layout", "text": base, "variant": variant, "edits": ["no-final-newline", repr(tail)]}}
        for _ in range(nedit):
            variant, tags = edit(rng, base)

            def pred(impl, a=base, b=variant, tags=tags):
                try:
                    pa = impl.loads(a)
                except Exception:  # noqa: BLE001
                    return None
                try:
                    pb = impl.loads(b)
                except Exception as e:  # noqa: BLE001
                    return "layout edit %s makes a valid script fail: %s: %s" % (tags, type(e).__name__, str(e)[:120])
                if digest(pa) != digest(pb):
                    return "layout edit %s changes the loaded program" % (tags,)
                return None
            yield {"tag": "edit:" + "+".join(tags) if len(tags) <= 2 else "edit:multi", "text": variant, "pred": pred,
                   "input": {"check": "layout", "text": base, "variant": variant, "edits": tags}}
    # single edit kinds at every line of a few bases (thorough: more); among the bases: string literals that end in a backslash,
    # that hold a '#', or that hold only a backslash (a string ends at the next double quote, whatever stands before it)
    BS = chr(92)
    str_bases = ['name s\nversion 1.0\nstr folder = "C:' + BS + 'data' + BS + '"\nstr note = "a#b"\nOp(folder, note, t="# not a comment", u="x' + BS + '") | 0\nVac | 1\n',
                 'name s\nversion 1.0\ntarget dev (path="D:' + BS + 'runs' + BS + '", tag="#1")\nOp("' + BS + '", "ends ' + BS + BS + '") | 0\nfor str s in ["a' + BS + '", "#"]\n    Op(s) | 1\n    Vac | 0\n',
                 'name s\nversion 1.0\nstr a = "' + BS + '"\nstr b = "' + BS + BS + '"\nOp(a, b) | 0\n']
    single_bases = []
    for i in range(6 if quick else 60):
        g = Gen(rng)
        try:
            single_bases.append(g.script())
        except Exception:  # noqa: BLE001
            continue
    for base in single_bases + str_bases * (2 if quick else 10):
        for kind in ["comment-eol", "comment-line", "blank", "spaces", "newline-style", "tab-indent", "final-newline", "trailing-space", "leading-space"]:
            variant, tags = edit(rng, base, [kind])

            def pred(impl, a=base, b=variant, tags=tags):
                try:
                    pa = impl.loads(a)
                except Exception:  # noqa: BLE001
                    return None
                try:
                    pb = impl.loads(b)
                except Exception as e:  # noqa: BLE001
                    return "layout edit %s makes a valid script fail: %s: %s" % (tags, type(e).__name__, str(e)[:120])
                return None if digest(pa) == digest(pb) else "layout edit %s changes the loaded program" % (tags,)
            yield {"tag": "single:" + kind, "text": variant, "pred": pred, "input": {"check": "layout", "text": base, "variant": variant, "edits": tags}}


def file_cases(rng, quick):
    """the same layout edits on FILES loaded with blackbird.load from another working directory: a main file with a relative
    include, written with every line-end style, with and without final newline, trailing blanks and comments; a decoy file
    of the same name sits in the working directory"""
    import os
    import shutil
    import tempfile
    root = tempfile.mkdtemp(prefix="bbverif.", dir="/var/tmp")
    try:
        a, b = os.path.join(root, "proj"), os.path.join(root, "elsewhere")
        os.makedirs(os.path.join(a, "lib"))
        os.makedirs(os.path.join(b, "lib"))
        for d, gate in ((a, "Sgate"), (b, "Vac")):
            with open(os.path.join(d, "lib", "sub.xbb"), "w") as f:
                f.write("name sub\nversion 1.0\n%s(0.5) | 1\nBSgate(0.1, 0.2) | [1, 4]\n" % gate if gate != "Vac" else "name sub\nversion 1.0\nVac | 1\nVac | 4\n")
        base = 'name main\nversion 1.0\ninclude "lib/sub.xbb"\n\nfloat x = 0.5\nsub | [0, 1]\nRgate(x+-2) | 0\nsub | [2, 3]'
        variants = []
        for nl in ("\n", "\r\n", "\r"):
            body = base.replace("\n", nl)
            for tail in (nl, "", " ", " # end", nl + nl, nl + "# last" , "  " + nl):
                variants.append((body + tail, "line ends %r, text ends with %r" % (nl, tail)))
        variants.append((base.replace("\n\nfloat", "\n# about x\n\n\nfloat") + "\n", "comment and blank lines"))
        # own-line comments before the metadata whose TEXT looks like a directive to some tool (editor mode lines, encoding
        # cookies, shebangs): to Blackbird they are comments
        for c in ["# -*- coding: utf-7 -*-", "# encoding: dual-rail", "# decoding=lookup table", "# vim: set fileencoding=utf-16 :", "#!/usr/bin/env blackbird",
                  "# coding: latin-1", "# -*- mode: python; coding: cp500 -*-"]:
            variants.append((c + "\n" + base + "\n", "first line %r" % c))
            variants.append(("\n" + c + "\n" + base + "\n", "second line %r after a blank line" % c))
            variants.append(("# x\n" + c + "\n" + base + "\n", "second line %r after a comment line" % c))
        paths = []
        for k, (t, what) in enumerate(variants):
            pth = os.path.join(a, "main_%d.xbb" % k)
            with open(pth, "w", newline="") as f:
                f.write(t)
            paths.append((pth, what))

        def pred(impl, paths=paths, b=b):
            import blackbird
            old = os.getcwd()
            os.chdir(b)
            try:
                ref = None
                for pth, what in paths:
                    try:
                        pr = blackbird.load(pth)
                    except Exception as e:  # noqa: BLE001
                        return "loading a FILE (%s) from another working directory fails: %s: %s" % (what, type(e).__name__, str(e)[:100])
                    dg = digest(pr)
                    if ref is None:
                        ref = dg
                    elif dg != ref:
                        return "a FILE with %s loads to a different program than the same text with LF line ends and a final newline" % what
                return None
            finally:
                os.chdir(old)
        yield {"tag": "files", "pred": pred, "key": "file-layouts", "input": {"check": "pred", "tag": "files"}}
    finally:
        shutil.rmtree(root, ignore_errors=True)


KNOWN_WITNESS = "name p\nversion 1.0\nfor int i in 0:2\n# c\n    Op | i\n"


def run(tier, seed):
    import framework as fw
    known = [k for k in fw.load_known() if k["property"] == PROP and k.get("status") == "known"]
    extra = {}
    lines = []
    # replay the recorded finding(s): printed as KNOWN-FINDING while they still fail
    import impl
    for k in known:
        try:
            impl.loads(k["witness"])
            extra.setdefault("known_findings_no_longer_failing", []).append(k["id"])
        except Exception as e:  # noqa: BLE001
            lines.append("%s: %s -> %s" % (k["id"], k["what"], type(e).__name__))
    rc = loadcmp.run_property(
        PROP, tier, seed, cases, NEEDS,
        rule="valid base scripts x combinations of the layout edits (# comments at line ends and on own lines, blank lines between "
             "statements and before the metadata, 1-3 spaces at token boundaries and line ends, LF/CRLF/CR, tab vs four spaces as "
             "indentation, final newline or not), never next to indentation, never inside array bodies, never between a loop header and "
             "its first body line (recorded finding). Each variant is loaded by model and implementation and must equal the original's program",
        extra=extra, known_lines=lines)
    return rc


def replay(rep):
    inp = rep["input"]
    if inp.get("check") == "layout":
        import impl
        pa, pb = impl.loads(inp["text"]), None
        try:
            pb = impl.loads(inp["variant"])
        except Exception as e:  # noqa: BLE001
            print("variant fails:", e)
            return 1
        same = digest(pa) == digest(pb)
        print("same program:", same)
        return 0 if same else 1
    return loadcmp.replay_load(PROP, rep)
