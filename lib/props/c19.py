"""C19 — loading and serialising are deterministic across runs and hash seeds."""
import json
import os
import random
import shutil
import tempfile

import framework as fw
import subproc
from framework import Result, finish, proof_obligations
from gen_script import Gen

PROP = "C19"
NEEDS = ["model/Values.v", "model/Eval.v", "proofs/TransformP.v", "proofs/LoadP.v", "gen/Facts.v", "proofs/FactsP.v", "extract/Extract.v"]
NAMES = ["a", "ab", "abc", "b", "beta", "bet", "al", "alpha", "alp", "p", "par", "pa", "x", "xy", "th", "theta", "e", "r", "ph", "phi", "t", "et", "eta", "y", "var", "res", "val", "lambda", "is", "E", "I", "S", "N", "oo", "rhs", "np"]


def multi_param_script(rng):
    """several template parameters (overlapping names) or measured registers inside single arguments"""
    lines = ["name d%d" % rng.randint(0, 9), "version 1.0", ""]
    for _ in range(rng.randint(1, 5)):
        k = rng.randint(2, 5)
        if rng.random() < 0.6:
            names = rng.sample(NAMES, k)
            terms = ["%s * {%s}" % (rng.choice(["2", "0.5", "3", "1.5e-1", "7"]), n) if rng.random() < 0.7 else "{%s} ** 2" % n for n in names]
        else:
            regs = rng.sample([0, 1, 2, 3, 10, 12, 100], k)
            terms = ["%s * q%d" % (rng.choice(["2", "0.5", "3"]), n) if rng.random() < 0.7 else "q%d ** 2" % n for n in regs]
            if rng.random() < 0.4:
                # the same register under a second spelling (leading zeros) in the same argument
                n = rng.choice(regs)
                terms.append(rng.choice(["2 * q0%d", "q00%d ** 2", "q0%d"]) % n)
        e = terms[0]
        for t in terms[1:]:
            e += rng.choice([" + ", " - ", " * "]) + t
        form = rng.choice(["Sgate(%s) | 0", "Dgate(0.5, %s) | [0, 1]", "Rgate(phi=%s) | 2", "BSgate(%s, r=1) | [1, 0]"])
        lines.append(form % e)
        if rng.random() < 0.25:
            # a template parameter and a measured register in ONE argument (the classification of the argument must not depend on
            # which symbol a set yields first)
            lines.append(rng.choice(["Zgate({r1} * q0) | 1", "Zgate(q3 + 2 * {x2}, k={r1} - q0) | 1", "Kgate(k={x2} * q12 * q0) | 2"]))
    return "\n".join(lines) + "\n"


def array_kw_script(rng):
    """several array-valued keyword (and positional) arguments in one operation: the hoisted declarations A0, A1, ... must
    be numbered in the written order in every process"""
    lines = ["name arr%d" % rng.randint(0, 9), "version 1.0", ""]
    names = rng.sample(["cov", "means", "hbar", "extra", "U", "weights", "phases", "m"], rng.randint(2, 5))
    for k, nm in enumerate(names):
        lines.append("float array %s =\n    %s" % (nm, ", ".join(str(rng.randint(0, 9) + k) for _ in range(rng.randint(1, 3)))))
    pos = rng.sample(names, rng.randint(0, 2))
    lines.append("Gaussian(%s) | [0, 1]" % ", ".join(pos + ["%s=%s" % (rng.choice(NAMES) + str(i), nm) for i, nm in enumerate(names)]))
    if rng.random() < 0.5:
        lines.append("Interferometer(%s) | 2" % ", ".join("%s=%s" % (nm, nm) for nm in rng.sample(names, 2)))
    return "\n".join(lines) + "\n"


def same_obs(a, b):
    return json.dumps(a, sort_keys=True) == json.dumps(b, sort_keys=True)


def run(tier, seed):
    res = Result(PROP, tier, seed)
    rng = random.Random(seed)
    status = fw.build()
    proof_obligations(res, status, "props/C19.v", NEEDS, translators=("g4_to_coq", "facts_from_py"))
    quick = tier == "quick"
    texts = []
    for i in range(40 if quick else 400):
        if i % 7 == 6:
            from props.c15 import tdm_script
            texts.append(tdm_script(rng, with_params=False, with_loop=False)[0])      # the variable block is written in declaration order
        elif i % 5 == 4:
            texts.append(array_kw_script(rng))
        elif i % 3 != 2:
            texts.append(multi_param_script(rng))
        else:
            g = Gen(rng, allow_params=True, allow_regs=True)
            g.real_sym_coeffs = True
            try:
                texts.append(g.script(syms_prob=0.7))
            except Exception:  # noqa: BLE001
                pass
    # scalar declarations of the bare type "array" (must not become uninitialised memory, which differs from process to process)
    for init in ["3", "True", "40", "n + 1"]:
        texts.append("name a\nversion 1.0\nint n = 4\narray x = %s\nOp(x, 2) | 0\nfloat array A =\n    1, 2\nKgate(A, x) | 1\n" % init)
    seeds = [0, 1, 2, 3, 4, 5, 6, 7] if quick else list(range(64))
    ok = True
    # "every run": besides the hash seed the runs differ in the order in which the scripts are loaded (odd seeds: reversed)
    jobs = [([{"kind": "loads", "text": t} for t in (texts if j % 2 == 0 else texts[::-1])], s, None) for j, s in enumerate(seeds)]
    results = subproc.run_many(jobs)
    results = [r if j % 2 == 0 else r[::-1] for j, r in enumerate(results)]
    for i, t in enumerate(texts):
        base = results[0][i]
        res.case(t, t.count("\n") >= 4, {"script": t} if len(res.samples) < 3 else None)
        res.count("script:%s" % base.get("out"))
        for s, r in zip(seeds[1:], results[1:]):
            o = r[i]
            res.count("seed-comparisons")
            if o.get("out") != base.get("out") or (o.get("out") == "error" and o.get("cls") != base.get("cls")):
                ok = False
                res.violate("the outcome of loading depends on PYTHONHASHSEED (%s vs %s)" % (seeds[0], s), {"check": "seeds", "text": t, "seeds": [seeds[0], s]})
                break
            if o.get("out") != "ok":
                continue
            if "dump_again" in o or "dump_again" in base:
                ok = False
                res.violate("serialising the same loaded program twice gives two different texts: %r then %r"
                            % ((o.get("dump") or "")[-120:], (o.get("dump_again") or base.get("dump_again") or "")[-120:]),
                            {"check": "seeds", "text": t, "seeds": [seeds[0], s]})
                break
            if not same_obs(o["obs"], base["obs"]):
                ok = False
                res.violate("the content of the loaded program depends on PYTHONHASHSEED (%s vs %s)" % (seeds[0], s), {"check": "seeds", "text": t, "seeds": [seeds[0], s]})
                break
            if o.get("dump") != base.get("dump") or o.get("dump_error") != base.get("dump_error"):
                ok = False
                res.violate("the serialisation depends on PYTHONHASHSEED (%s vs %s): %r vs %r" % (seeds[0], s, (base.get("dump") or "")[-160:], (o.get("dump") or "")[-160:]),
                            {"check": "seeds", "text": t, "seeds": [seeds[0], s]})
                break
        if len(res.violations) >= 5:
            break
    # includes acting on several (large, unordered) modes: the mode pairing must not depend on the seed
    scratch = tempfile.mkdtemp(prefix="bbverif.", dir="/var/tmp")
    try:
        items = []
        for i in range(10 if quick else 100):
            modes = rng.sample([1, 8, 33, 100, 257, 1024, 4097, 65537, 5, 64], rng.randint(2, 5))
            sub = "name sub\nversion 1.0\n\n" + "".join("Rgate(%d) | %d\n" % (m, m) for m in modes)
            kw = ""
            if i % 2 == 1:
                # a template whose arguments mention several parameters asymmetrically: the binding must not depend on set order
                ps = rng.sample(NAMES, rng.randint(2, 4))
                forms = ["{%s} - 2 * {%s}", "{%s} / {%s}", "{%s} ** 2 + {%s}", "3 * {%s} - {%s} / 7"]
                sub += "".join("Dgate(%s, %s) | %d\n" % (rng.choice(forms) % tuple(rng.sample(ps, 2)), rng.choice(forms) % tuple(rng.sample(ps, 2)), modes[0]) for _ in range(3))
                sub += "".join("Kgate({%s}) | %d\n" % (p_, modes[0]) for p_ in ps)
                # operations with two to four SYMBOLIC keyword arguments (and plain ones among them): their written order is the
                # order in the instantiated program and in its serialisation, in every process
                kws = ["%s=%s" % (k_, rng.choice(["{%s}", "2 * {%s}", "{%s} - 1", "[{%s}, 1]"]) % rng.choice(ps)) for k_ in rng.sample(["theta", "phi", "r", "select", "kappa", "a", "zz"], rng.randint(2, 4))]
                kws.insert(rng.randrange(len(kws) + 1), "plain=0.5")
                sub += "BSgate(%s) | %d\n" % (", ".join(kws), modes[0])
                if i % 4 == 3:
                    # the including script is itself a template and hands its own parameters, named like the included
                    # program's parameters but crosswise, on as values (a={b}, b=0.25): simultaneous binding, in every run
                    rot = ps[1:] + ps[:1]
                    kw = "(%s)" % ", ".join("%s=%s" % (p_, "{%s}" % q_ if k_ % 2 == 0 or rng.random() < 0.5 else rng.choice(["0.25", "3", "1.75"]))
                                            for k_, (p_, q_) in enumerate(zip(ps, rot)))
                else:
                    kw = "(%s)" % ", ".join("%s=%s" % (p_, rng.choice(["0.5", "0.125", "3", "1.75", "7"])) for p_ in ps)
            d = os.path.join(scratch, "I%d" % i)
            os.makedirs(d)
            if i % 5 == 0:
                # the included program itself includes a file by a relative path (every process, whatever its working directory,
                # must find the same file: the one next to the including file)
                os.makedirs(os.path.join(d, "inner"))
                open(os.path.join(d, "inner", "leaf.xbb"), "w").write("name leaf\nversion 1.0\n\nZgate(0.25) | %d\n" % modes[0])
                sub = sub.replace("version 1.0\n", 'version 1.0\ninclude "inner/leaf.xbb"\n', 1) + "leaf | %d\n" % modes[0]
                os.makedirs(os.path.join(scratch, "elsewhere", "inner"), exist_ok=True)
                open(os.path.join(scratch, "elsewhere", "inner", "leaf.xbb"), "w").write("name leaf\nversion 1.0\n\nXgate(0.75) | %d\n" % modes[0])
            if i % 5 == 1:
                # an included program whose arguments are transforms over 3-5 registers: the copies made when it is applied keep
                # function and register list paired (the observation evaluates func on the registers in the listed order)
                rs = rng.sample([0, 1, 2, 3, 5, 8, 12, 13], rng.randint(3, 5))
                e = " + ".join("%d * q%d" % (10 ** k, r) for k, r in enumerate(rs))
                sub += "Zgate(%s) | %d\nKgate(k=%s - q%d ** 2) | %d\n" % (e, modes[0], e, rs[0], modes[0])
            open(os.path.join(d, "sub.xbb"), "w").write(sub)
            call = list(range(len(modes)))
            rng.shuffle(call)
            main = 'name main\nversion 1.0\ninclude "sub.xbb"\n\nsub%s | [%s]\nsub%s | [%s]\n' % (kw, ", ".join(map(str, call)), kw, ", ".join(str(c + 10) for c in call))
            open(os.path.join(d, "main.xbb"), "w").write(main)
            items.append({"kind": "load", "path": os.path.join(d, "main.xbb")})
            if i % 3 == 0:
                # a script that merely uses an operation called like the included program
                items.append({"kind": "loads", "text": "name plain\nversion 1.0\n\nsub | [%s]\nVac | 0\n" % ", ".join(map(str, call))})
        os.makedirs(os.path.join(scratch, "elsewhere"), exist_ok=True)
        cwds = [None, scratch, os.path.join(scratch, "elsewhere"), os.path.join(scratch, "I0")]      # "every process": also its working directory
        results = subproc.run_many([(items if j % 2 == 0 else items[::-1], s, cwds[j % len(cwds)]) for j, s in enumerate(seeds)])
        results = [r if j % 2 == 0 else r[::-1] for j, r in enumerate(results)]
        for i in range(len(items)):
            base = results[0][i]
            res.case("include-%d-%s" % (i, json.dumps(base.get("obs", {}).get("ops", ""))[:80]), True, None)
            res.count("include:%s" % base.get("out"))
            for s, r in zip(seeds[1:], results[1:]):
                if json.dumps(r[i], sort_keys=True) != json.dumps(base, sort_keys=True):
                    ok = False
                    if items[i]["kind"] == "loads":
                        res.violate("the outcome of loading a script differs between two runs (hash seeds %s / %s, the scripts loaded in opposite orders)" % (seeds[0], s),
                                    {"check": "order", "text": items[i]["text"], "seeds": [seeds[0], s], "main": open(items[i - 1]["path"]).read(),
                                     "sub": open(os.path.join(os.path.dirname(items[i - 1]["path"]), "sub.xbb")).read()})
                        break
                    res.violate("applying an included program depends on the process (PYTHONHASHSEED %s vs %s; the two processes also differ in working directory and load order)" % (seeds[0], s),
                                {"check": "include-seeds", "main": open(items[i]["path"]).read(), "sub": open(os.path.join(os.path.dirname(items[i]["path"]), "sub.xbb")).read(), "seeds": [seeds[0], s]})
                    break
        # "every run": the same file loaded again and again in ONE process (after 0, 1 or 2 other template instantiations) gives
        # bit-identical content every time (counters that grow with the number of earlier instantiations must not matter)
        d = os.path.join(scratch, "rep")
        os.makedirs(d)
        open(os.path.join(d, "tpl.xbb"), "w").write("name Tpl\nversion 1.0\n\nBSgate({theta}+{phi}+{delta}, pi/2) | [0, 1]\n")
        open(os.path.join(d, "one.xbb"), "w").write("name One\nversion 1.0\n\nRgate({w}) | 0\n")
        open(os.path.join(d, "main.xbb"), "w").write('name main\nversion 1.0\ninclude "tpl.xbb"\n\nTpl(theta=0.2, phi=0.3, delta=0.4) | [3, 1]\n')
        open(os.path.join(d, "pre.xbb"), "w").write('name pre\nversion 1.0\ninclude "one.xbb"\n\nOne(w=0.5) | 2\n')
        nrep = 45 if quick else 400
        jobs = [([{"kind": "load", "path": os.path.join(d, "pre.xbb")}] * k + [{"kind": "load", "path": os.path.join(d, "main.xbb")}] * nrep, "0", None) for k in (0, 1, 2)]
        outs = subproc.run_many(jobs)
        ref = json.dumps(outs[0][0], sort_keys=True)
        for k, r in zip((0, 1, 2), outs):
            for n, o in enumerate(r[k:]):
                res.count("repeated-load")
                if json.dumps(o, sort_keys=True) != ref:
                    ok = False
                    res.violate("load number %d of the same file in one process (after %d other instantiations) differs from the first load: %s vs %s"
                                % (n, k, json.dumps(o.get("obs", {}).get("ops", o))[:160], json.dumps(outs[0][0].get("obs", {}).get("ops"))[:160]),
                                {"check": "repeated", "pre": k, "n": n})
                    break
            if not ok:
                break
        # "every process": include strings that LOOK like shell or user shorthand (~, ~user, $VAR, %VAR%) are file names like any
        # other, relative to the including file; processes whose HOME / variables point at directories holding other programs of the
        # same name load the same content
        if ok:
            envroot = os.path.join(scratch, "envs")
            main_dir = os.path.join(envroot, "proj")
            incs = ["~/gates.xbb", "$BBV_LIB/gates.xbb", "${BBV_LIB}/gates.xbb", "%BBV_LIB%/gates.xbb", "~root/gates.xbb", "~gates.xbb"]
            items = []
            for k, inc in enumerate(incs):
                fp = os.path.join(main_dir, inc)
                os.makedirs(os.path.dirname(fp), exist_ok=True)
                open(fp, "w").write("name G\nversion 1.0\n\nSgate({a}) | 0\nRgate({a}) | 2\n")
                mp = os.path.join(main_dir, "main%d.xbb" % k)
                open(mp, "w").write('name main\nversion 1.0\ninclude "%s"\n\nG(a=0.25) | [3, 1]\n' % inc)
                items.append({"kind": "load", "path": mp})
            envs = []
            for j in range(3):
                hd = os.path.join(envroot, "home_%d" % j)
                os.makedirs(hd, exist_ok=True)
                if j < 2:
                    open(os.path.join(hd, "gates.xbb"), "w").write("name G\nversion 1.0\n\nBSgate({a}, %d.5) | [0, 2]\n" % j)
                envs.append({"HOME": hd, "BBV_LIB": hd, "USERPROFILE": hd})
            outs = subproc.run_many([(items, "0", None, e) for e in envs] + [(items, "0", None)])
            for k, inc in enumerate(incs):
                res.count("include-name-with-environment-shorthand")
                res.case("env-include-%d" % k, True, None)
                ref = json.dumps(outs[-1][k], sort_keys=True)
                if outs[-1][k].get("out") != "ok":
                    ok = False
                    res.violate("a script that includes the file %r (next to it) does not load: %s" % (inc, json.dumps(outs[-1][k])[:160]), {"check": "env-include", "include": inc})
                    break
                for j, o in enumerate(outs[:-1]):
                    if json.dumps(o[k], sort_keys=True) != ref:
                        ok = False
                        res.violate("the content of a script that includes %r depends on the environment variables of the process (HOME/BBV_LIB = home_%d): %s vs %s"
                                    % (inc, j, json.dumps(o[k].get("obs", o[k]).get("ops", o[k]) if isinstance(o[k].get("obs"), dict) else o[k])[:160], json.dumps(outs[-1][k]["obs"]["ops"])[:160]),
                                    {"check": "env-include", "include": inc})
                        break
                if not ok:
                    break
        # "every run": the caller of an earlier load has edited, in place, the program it was given (options, variables, operations,
        # array data): what a later load of the same or of another script returns is the content of a fresh process
        if ok:
            custom = ["name a\nversion 1.0\n\nfloat array M =\n    0.5, 1.5\nint n = 2\nRgate(0.25, M[1]) | n\nBSgate(phi=0.5) | [0, 1]\n",
                      "name b\nversion 1.0\ntarget gaussian\n\nfloat array M =\n    0.5, 1.5\nSgate(M[0]) | 1\n",
                      "name c\nversion 1.0\ntarget X8 (shots=5)\ntype tdm (temporal_modes=2)\n\nfloat array p0 =\n    0.1, 0.2\nRgate(p0) | 0\n",
                      "name d\nversion 1.0\ntype tdm\n\nint array p1 =\n    1, 2\nRgate(p1, 0.5) | 0\n",
                      "name e\nversion 1.0\n\nVac | 0\n"]
            jobs = []
            orders = []
            for _ in range(6 if quick else 40):
                idx = [rng.randrange(len(custom)) for _ in range(rng.randint(3, 6))]
                steps = []
                for k in idx:
                    steps.append({"text": custom[k]})
                    if rng.random() < 0.7:
                        steps.append({"customise": len(steps) - 1})
                steps += [{"text": t} for t in custom]
                orders.append(steps)
                jobs.append(([{"kind": "history", "steps": steps}], "0", None))
            fresh = subproc.run_batch([{"kind": "pristine", "steps": [{"text": t} for t in custom]}], "0")[0]
            fresh = {t: json.dumps({k: v for k, v in o.items()}, sort_keys=True) for t, o in zip(custom, fresh)}
            for steps, r in zip(orders, subproc.run_many(jobs)):
                h = r[0]
                for n, (st, o) in enumerate(zip(steps, h.get("steps", []))):
                    if "text" not in st:
                        continue
                    res.count("load-after-customising")
                    if json.dumps(o, sort_keys=True) != fresh[st["text"]]:
                        ok = False
                        res.violate("load number %d of a history in which the caller edits earlier results in place differs from the same load in a fresh process: %s vs %s"
                                    % (n, json.dumps(o.get("obs", o))[:200], fresh[st["text"]][:200]), {"check": "customise", "steps": steps, "n": n})
                        break
                if h.get("died") or len(h.get("steps", [])) != len(steps):
                    ok = False
                    res.violate("a history of loads and in-place edits of their results does not complete", {"check": "customise", "steps": steps, "n": -1})
                if not ok:
                    break
    finally:
        shutil.rmtree(scratch, ignore_errors=True)
    res.oblige("correspondence: loaded content and dump text identical under %d hash seeds (transforms compared as register set + function values)" % len(seeds), "correspondence", ok)
    return finish(res, level="proof", trusted=fw.TRUSTED_COMMON + ["2^32 hash seeds cannot be enumerated: the order-independence theorems cover all iteration orders of the modelled set-iteration sites; T3 lists those sites"],
                  rule="scripts with 2-5 template parameters with overlapping names (a, ab, abc, bet, beta, ...) or 2-5 measured registers inside single "
                       "arguments, general random scripts with parameters and registers, and includes acting on 2-5 large unordered modes called twice; "
                       "each is loaded and serialised in separate interpreters under 8 (thorough: 64) PYTHONHASHSEED values, every other interpreter loading the scripts in the opposite order; canonical observation and "
                       "dump text must be identical (a transform's register order is canonicalised, its function values compared by register name)")


def replay(rep):
    inp = rep["input"]
    if inp.get("check") == "repeated":
        print("re-run the check: the violation depends on the number of earlier loads in the process")
        return run("quick", rep.get("seed", 0))
    if inp.get("check") == "env-include":
        print("re-run the check: the violation depends on environment variables and files the check creates")
        return run("quick", rep.get("seed", 0))
    if inp.get("check") == "customise":
        h = subproc.run_batch([{"kind": "history", "steps": inp["steps"]}], "0")[0]
        texts = [st["text"] for st in inp["steps"] if "text" in st]
        fresh = subproc.run_batch([{"kind": "pristine", "steps": [{"text": t} for t in texts]}], "0")[0]
        got = [o for st, o in zip(inp["steps"], h.get("steps", [])) if "text" in st]
        same = len(got) == len(fresh) and all(json.dumps(a, sort_keys=True) == json.dumps(b, sort_keys=True) for a, b in zip(got, fresh))
        print("identical to fresh processes:", same)
        return 0 if same else 1
    if inp.get("check") == "seeds":
        a = subproc.run_batch([{"kind": "loads", "text": inp["text"]}], inp["seeds"][0])
        b = subproc.run_batch([{"kind": "loads", "text": inp["text"]}], inp["seeds"][1])
        same = json.dumps(a, sort_keys=True) == json.dumps(b, sort_keys=True)
        print("identical:", same)
        return 0 if same else 1
    scratch = tempfile.mkdtemp(prefix="bbverif.", dir="/var/tmp")
    try:
        open(os.path.join(scratch, "sub.xbb"), "w").write(inp["sub"])
        open(os.path.join(scratch, "main.xbb"), "w").write(inp["main"])
        it = [{"kind": "load", "path": os.path.join(scratch, "main.xbb")}]
        if inp.get("check") == "order":
            one = {"kind": "loads", "text": inp["text"]}
            a = subproc.run_batch([it[0], one], inp["seeds"][0])[1]
            b = subproc.run_batch([one, it[0]], inp["seeds"][1])[0]
            same = json.dumps(a, sort_keys=True) == json.dumps(b, sort_keys=True)
            print("identical:", same)
            return 0 if same else 1
        a, b = subproc.run_batch(it, inp["seeds"][0]), subproc.run_batch(it, inp["seeds"][1])
        same = json.dumps(a, sort_keys=True) == json.dumps(b, sort_keys=True)
        print("identical:", same)
        return 0 if same else 1
    finally:
        shutil.rmtree(scratch, ignore_errors=True)
