"""C17 — template matching inverts instantiation, independent of commuting order."""
import random
import time

import framework as fw
from framework import Result, finish, proof_obligations

PROP = "C17"
NEEDS = ["model/Graph.v", "proofs/GraphP.v", "proofs/MatchP.v"]
GATES = ["Sgate", "Dgate", "BSgate", "Rgate", "Kgate", "Xgate"]


def gen_template(rng):
    """affine single-parameter positional arguments, parameters possibly repeated across operations"""
    npar = rng.randint(1, 3)
    pars = rng.sample(["a", "b", "phi", "r", "th", "x", "y", "var", "res", "val", "lambda", "is", "E", "I", "S", "N", "oo", "rhs", "np"], npar)
    nops = rng.randint(1, 7)
    nmodes = rng.randint(1, 4)
    ops = []
    for _ in range(nops):
        k = rng.choice([1, 1, 2])
        modes = rng.sample(range(nmodes), min(k, nmodes))
        args = []
        for _ in range(rng.randint(0, 3)):
            r = rng.random()
            if r < 0.6:
                p = rng.choice(pars)
                c1, c0 = rng.choice([(1, 0), (2, 0), (-1, 0), (0.5, 0), (-1.61, 0), (3, 1), (0.238, -1), (1.25, 2.162), (2, 0.5), (1, 1), (-1, 0.5),
                                     (6.283185307179586, -1), (6.283185307179586, 0), (3, 100), (0.001, 0), (1 / 3, 0)])
                if c1 == 1 and c0 == 0:
                    args.append("{%s}" % p)
                elif c0 == 0:
                    args.append("%s * {%s}" % (c1, p) if c1 >= 0 else "-%s * {%s}" % (-c1, p))
                else:
                    s = "%s * {%s}" % (c1, p) if c1 >= 0 else "-%s * {%s}" % (-c1, p)
                    args.append("%s + %s" % (s, c0) if c0 >= 0 else "%s - %s" % (s, -c0))
            else:
                args.append(rng.choice(["0.45", "1", "0.0", "2.5"]))
        if args and rng.random() < 0.3:
            args = args + [rng.choice(["phi={%s}" % rng.choice(pars), "k=0.5", "phi=2 * {%s} + 1" % rng.choice(pars), "flag=True"])]
        ops.append((rng.choice(GATES), args, modes))
    return pars, ops


def kwtext(k, v):
    return "%s=%s" % (k, "True" if v is True else "False" if v is False else repr(float(v)))


def script(ops, header="name prog\nversion 1.0\n", target=None):
    lines = [header.rstrip("\n")]
    if target:
        lines.append("target %s" % target)
    lines.append("")
    for g, args, modes in ops:
        lines.append("%s%s | [%s]" % (g, "(%s)" % ", ".join(args) if args else "", ", ".join(map(str, modes))))
    return "\n".join(lines) + "\n"


def shuffle_preserving(rng, ops):
    """random linear extension of the per-mode order"""
    n = len(ops)
    remaining = list(range(n))
    out = []
    while remaining:
        ready = [i for i in remaining if not any(j in remaining and j < i and set(ops[j][2]) & set(ops[i][2]) for j in range(n))]
        pick = rng.choice(ready)
        out.append(pick)
        remaining.remove(pick)
    return out


def check_case(rng, impl, quick):
    """-> (message or None, description)"""
    import blackbird
    from blackbird.utils import TemplateError, match_template
    pars, ops = gen_template(rng)
    tver = rng.choice(["1.0", "1.0", "1.1", "1.10", "2.1", "0.5"])
    ttext = script(ops, header="name prog\nversion %s\n" % tver)
    try:
        t = impl.loads(ttext)
    except Exception:  # noqa: BLE001
        return None, None
    if not t.is_template():
        return None, None
    used = sorted(t.parameters)
    # generic values of every magnitude that keeps the affine maps below well conditioned (|c1 * v| is never tiny next to |c0|)
    sigma = {p: rng.choice([round(rng.uniform(0.11, 2.9), rng.randint(2, 6)), -round(rng.uniform(0.11, 2.9), 4),
                            round(rng.uniform(1e3, 1e7), 3), -round(rng.uniform(1e4, 5e6), 2)]) for p in used}
    inst = t(**sigma)
    # the instantiated program as a script, operations reordered preserving the order on every mode
    perm = shuffle_preserving(rng, ops)
    iops = [inst.operations[i] for i in perm]
    lines = ["name prog", "version %s" % tver, ""]
    for o in iops:
        a = ", ".join([repr(float(x)) if not isinstance(x, (int,)) or isinstance(x, bool) else str(x) for x in o.get("args", [])] + [kwtext(k, v) for k, v in o.get("kwargs", {}).items()])
        lines.append("%s%s | [%s]" % (o["op"], "(%s)" % a if a else "", ", ".join(str(int(m)) for m in o["modes"])))
    ptext = "\n".join(lines) + "\n"
    desc = {"template": ttext, "values": sigma, "program": ptext}
    try:
        prog = impl.loads(ptext)
    except Exception as e:  # noqa: BLE001
        return None, None
    # genericity: instantiated arguments differ from the template's constants in the same slot? (always true for generic reals)
    try:
        res = match_template(t, prog)
    except TemplateError as e:
        return "matching a template against a reordered instantiation of itself fails: %s" % str(e)[:150], desc
    except Exception as e:  # noqa: BLE001
        return "matching raises %s: %s" % (type(e).__name__, str(e)[:120]), desc
    # returned values must reproduce the program's arguments
    appearing = set()
    for g, args, modes in ops:
        for a in args:
            for p in used:
                if "{%s}" % p in a and "=" not in a:       # keyword arguments play no role in matching
                    appearing.add(p)
    for p in appearing:
        if p not in res:
            return "parameter %s is not returned by the match" % p, desc
        if abs(float(res[p]) - sigma[p]) > 1e-9 * max(1.0, abs(sigma[p])):
            return "parameter %s matched as %r, expected %r" % (p, res[p], sigma[p]), desc
    try:
        back = t(**{p: res.get(p, sigma[p]) for p in used})
    except Exception as e:  # noqa: BLE001
        return "re-instantiating with the matched values fails: %s" % e, desc
    for a, b in zip(back.operations, inst.operations):
        for x, y in zip(a.get("args", []), b.get("args", [])):
            if abs(complex(x) - complex(y)) > 1e-9 * max(1.0, abs(complex(y))):
                return "matched values do not reproduce the program's arguments (%r vs %r)" % (x, y), desc
    # the same template object, already matched once, instantiated by call with other values: the instantiated object
    # itself (not re-read from text) must match with those values, and matching again must give the same answer
    sigma2 = {p: round(rng.uniform(0.11, 2.9), 5) * rng.choice([1, -1]) for p in used}
    for vals, label in ((sigma, "the first values"), (sigma2, "new values")):
        try:
            obj = t(**vals)
            r2 = match_template(t, obj)
            r3 = match_template(t, obj)
        except Exception as e:  # noqa: BLE001
            return "matching the template against its own instantiation by call (%s, after an earlier match) raises %s: %s" % (label, type(e).__name__, str(e)[:100]), dict(desc, values2=vals)
        for p in appearing:
            if p not in r2 or abs(float(r2[p]) - vals[p]) > 1e-9 * max(1.0, abs(vals[p])):
                return "instantiation by call with %s: parameter %s matched as %r, expected %r" % (label, p, r2.get(p), vals[p]), dict(desc, values2=vals)
        if sorted(r2) != sorted(r3) or any(abs(complex(r2[k]) - complex(r3[k])) > 0 for k in r2):
            return "matching twice gives different answers: %r then %r" % (r2, r3), dict(desc, values2=vals)
    # the program produced by CALLING the template, then given another target or version in place (its own metadata, not the template's)
    try:
        inst_e = t(**{p: sigma[p] for p in sigma})
    except Exception:  # noqa: BLE001
        inst_e = None
    if inst_e is not None:
        for what in ("target", "version"):
            ie = t(**{p: sigma[p] for p in sigma})
            if what == "target":
                ie.target["name"] = "fock" if ie.target.get("name") != "fock" else "gaussian"
            else:
                ie._version = "9.9"
            try:
                match_template(t, ie)
                return "an instance whose %s was changed in place is still accepted as a match (template %s now: %r)" % (what, what, t.target if what == "target" else t.version), dict(desc)
            except TemplateError:
                pass
            except Exception as e:  # noqa: BLE001
                return "an instance whose %s was changed in place raises %s instead of TemplateError" % (what, type(e).__name__), dict(desc)
    # single structural edits must be rejected
    edits = []
    if iops:
        k = rng.randrange(len(iops))
        def render(ops2, version=tver, target=None):
            ls = ["name prog", "version %s" % version] + (["target %s" % target] if target else []) + [""]
            for o in ops2:
                a = ", ".join([repr(float(x)) if not isinstance(x, int) or isinstance(x, bool) else str(x) for x in o.get("args", [])] + [kwtext(k, v) for k, v in o.get("kwargs", {}).items()])
                ls.append("%s%s | [%s]" % (o["op"], "(%s)" % a if a else "", ", ".join(str(int(m)) for m in o["modes"])))
            return "\n".join(ls) + "\n"
        e1 = [dict(o) for o in iops]
        e1[k]["op"] = "Zgate" if e1[k]["op"] != "Zgate" else "Vgate"
        edits.append(("gate", render(e1)))
        e2 = [dict(o) for o in iops]
        e2[k]["modes"] = [int(m) + 7 for m in e2[k]["modes"]]
        edits.append(("modes", render(e2)))
        multi = [i for i, o in enumerate(iops) if len(set(int(m) for m in o["modes"])) >= 2]
        if multi:
            e6 = [dict(o) for o in iops]
            j = rng.choice(multi)
            ms = list(e6[j]["modes"])
            e6[j]["modes"] = ms[1:] + ms[:1]
            edits.append(("mode order inside a gate", render(e6)))
        # another version: also one whose text is numerically equal as a float (1.1 / 1.10 are different versions)
        other = {"1.0": ["1.1", "2.0"], "1.1": ["1.10", "1.0"], "1.10": ["1.1", "1.11"], "2.1": ["2.10", "2.2"], "0.5": ["0.6", "1.5"]}[tver]
        for ov in other:
            edits.append(("version", render(iops, version=ov)))
        edits.append(("target", render(iops, target="fock")))
        # swap two differently-labelled operations that share a mode
        for i in range(len(iops) - 1):
            a, b = iops[i], iops[i + 1]
            if set(a["modes"]) & set(b["modes"]) and (a["op"], list(a["modes"])) != (b["op"], list(b["modes"])):
                e5 = list(iops)
                e5[i], e5[i + 1] = e5[i + 1], e5[i]
                edits.append(("per-mode-order", render(e5)))
                break
    # the same kinds of edit made on the program OBJECT (its operation list is public): a gate moved to modes the program did
    # not use before, a renamed gate, an operation removed, an operation appended
    import copy as _copy
    if iops:
        for kind in ("modes (edited in place, to unused modes)", "gate (edited in place)", "operation count (one removed in place)", "operation count (one appended in place)"):
            ep = _copy.deepcopy(prog)
            j = rng.randrange(len(ep._operations))
            if kind.startswith("modes"):
                ep._operations[j]["modes"] = [int(m) + 11 for m in ep._operations[j]["modes"]]
            elif kind.startswith("gate"):
                ep._operations[j]["op"] = "Zgate" if ep._operations[j]["op"] != "Zgate" else "Vgate"
            elif "removed" in kind:
                del ep._operations[j]
            else:
                ep._operations.append({"op": "Vac", "modes": [23]})
            edits.append((kind, (ep, {"kind": kind, "index": j})))
    for kind, etext in edits:
        if not isinstance(etext, str):
            ep, etext = etext
        else:
            try:
                ep = impl.loads(etext)
            except Exception:  # noqa: BLE001
                continue
        try:
            match_template(t, ep)
            desc2 = dict(desc)
            desc2["edited"] = etext
            return "a program with a different %s is accepted as a match" % kind, desc2
        except TemplateError:
            pass
        except Exception as e:  # noqa: BLE001
            desc2 = dict(desc)
            desc2["edited"] = etext
            return "a program with a different %s raises %s instead of TemplateError" % (kind, type(e).__name__), desc2
    return None, desc


def array_constant_case(impl, variant):
    """a template with a constant array argument (no parameter in it) next to parametrised gates: an instantiation, in the written
    order and with an operation on a disjoint mode moved, is matched and the values come back"""
    import copy

    from blackbird.utils import TemplateError, match_template
    arr = ["complex array U[2, 2] =\n    0.6+0.8j, 0\n    0, 1", "float array U =\n    1.5, 2.5, 3.5", "int array U[2, 2] =\n    1, 2\n    3, 4"][variant % 3]
    t = impl.loads("name prog\nversion 1.0\n%s\nSgate({r}, 0.0) | 0\nDgate(-{r}, 0.45) | 2\nInterferometer(U) | [0, 1]\nRgate(2 * {phi} - 1) | 1\nKgate(U, {phi}) | 3\n" % arr)
    vals = {"r": 0.5432, "phi": -1.2345}
    inst = t(**vals)
    progs = [("the written order", inst)]
    moved = copy.deepcopy(inst)
    moved._operations.append(moved._operations.pop(1))          # Dgate | 2 acts on a mode nothing else uses
    progs.append(("an operation on a disjoint mode moved to the end", moved))
    for what, p in progs:
        try:
            r = match_template(t, p)
        except Exception as e:  # noqa: BLE001
            return "matching a template with a constant array argument against its instantiation (%s) raises %s: %s" % (what, type(e).__name__, str(e)[:100])
        for k, v in vals.items():
            if k not in r or abs(float(r[k]) - v) > 1e-9:
                return "matching a template with a constant array argument (%s): parameter %s matched as %r, expected %r" % (what, k, r.get(k), v)
    other = copy.deepcopy(inst)
    other._operations[2]["args"][0] = other._operations[2]["args"][0] * 2
    return None


def scaled_values_case(impl, k):
    """parameters of very small and very large magnitude in templates whose arguments only SCALE the parameter (-{r}, 2*{s}, {t}/4,
    bare {r}): the matched values reproduce every program argument to a RELATIVE 1e-9, in every order that keeps the order on each
    mode (no additive constant is involved, so nothing is ill conditioned)"""
    import itertools

    from blackbird.utils import match_template
    rng = random.Random(1000 + k)
    tpl = "name prog\nversion 1.0\nRgate({r}) | 2\nDgate(-{r}, 0.45) | 1\nSgate(2 * {s}, {phi}) | 0\nBSgate({t} / 4, 0.2) | [0, 1]\nKgate(3 * {u}) | 3\n"
    t = impl.loads(tpl)
    mag = [1e-7, 1e-10, 1e-5, 1e-13, 1e9, 1e-4, 1e-20][k % 7]
    vals = {p: rng.choice([1, -1]) * float("%.13e" % (rng.uniform(1.1, 9.9) * mag)) for p in ["r", "s", "t", "u"]}
    vals["phi"] = 0.25
    inst = t(**vals)
    n = len(inst.operations)
    orders = [o for o in itertools.permutations(range(n)) if all(not (set(inst.operations[o[a]]["modes"]) & set(inst.operations[o[b]]["modes"])) or o[a] < o[b]
                                                             for a in range(n) for b in range(a + 1, n))]
    rng.shuffle(orders)
    import copy
    for order in orders[:6]:
        prog = copy.deepcopy(inst)
        prog._operations = [prog._operations[i] for i in order]
        try:
            res = match_template(t, prog)
        except Exception as e:  # noqa: BLE001
            return "matching an instantiation with values of magnitude %g (order %s) raises %s: %s" % (mag, list(order), type(e).__name__, str(e)[:100])
        try:
            back = t(**{p: res.get(p, vals[p]) for p in vals})
        except Exception as e:  # noqa: BLE001
            return "re-instantiating with the matched values fails: %s" % e
        for a, b in zip(back.operations, inst.operations):
            for x, y in zip(a.get("args", []), b.get("args", [])):
                if abs(float(x) - float(y)) > 1e-9 * abs(float(y)):
                    return "matched values %r do not reproduce the program's argument %r of %s (got %r; order %s)" % (dict(res), float(y), b["op"], float(x), list(order))
    return None


def run(tier, seed):
    res = Result(PROP, tier, seed)
    rng = random.Random(seed)
    status = fw.build()
    proof_obligations(res, status, "props/C17.v", NEEDS, translators=())
    quick = tier == "quick"
    import impl
    ok = True
    n = 200 if quick else 5000
    t_end = time.time() + (75 if quick else 1500)
    for i in range(n):
        if time.time() > t_end:
            res.extra["stopped_by_time_budget"] = True
            break
        for rep in range(3 if quick else 5):
            msg, desc = check_case(rng, impl, quick)
            if desc is None:
                continue
            res.case(desc["template"] + desc["program"], desc["template"].count("\n") >= 5, desc if len(res.samples) < 3 else None)
            res.count("template")
            if msg:
                ok = False
                res.violate(msg, {"check": "match", **desc})
                break
        if len(res.violations) >= 5:
            break
    for k in range(7 if quick else 70):
        try:
            msg = scaled_values_case(impl, k)
        except Exception as e:  # noqa: BLE001
            msg = "harness error in scaled-values case %d: %s: %s" % (k, type(e).__name__, str(e)[:100])
        res.case("scaled-values-%d" % k, True, None)
        res.count("scaled-values")
        if msg:
            ok = False
            res.violate(msg, {"check": "scaled-values", "k": k})
    for variant in range(3):
        try:
            msg = array_constant_case(impl, variant)
        except Exception as e:  # noqa: BLE001
            msg = "the template with a constant array argument cannot be handled: %s: %s" % (type(e).__name__, str(e)[:100])
        res.case("array-constant-%d" % variant, True, None)
        res.count("array-constant")
        if msg:
            ok = False
            res.violate(msg, {"check": "array-constant", "variant": variant})
    res.oblige("correspondence: match(template, reordered instantiation) returns the instantiation values; structural edits rejected with TemplateError", "correspondence", ok)
    return finish(res, level="proof", trusted=fw.TRUSTED_COMMON + ["networkx VF2 returns an isomorphism whenever one exists (uniqueness of the isomorphism is proved)", "sympy.solve solves a*p + b = y"],
                  rule="templates with affine single-parameter positional arguments (parameters repeated across operations), generic real values, "
                       "random reorderings of the instantiated program that preserve the order on every mode; the match must return the values "
                       "(rel 1e-9), also for the object instantiated by call after an earlier match, and twice the same and re-instantiating must reproduce the arguments; single edits (gate, mode list, swap of two differently-labelled "
                       "operations sharing a mode, version, target) must raise TemplateError")


def replay(rep):
    import impl
    from blackbird.utils import TemplateError, match_template
    inp = rep["input"]
    if inp.get("check") == "scaled-values":
        msg = scaled_values_case(impl, inp["k"])
        print(msg)
        return 1 if msg else 0
    if inp.get("check") == "array-constant":
        msg = array_constant_case(impl, inp["variant"])
        print(msg)
        return 1 if msg else 0
    t = impl.loads(inp["template"])
    if isinstance(inp.get("edited"), dict):
        # an edit made on the program object: redo it
        ed = inp["edited"]
        ep = impl.loads(inp["program"])
        j = ed["index"]
        if ed["kind"].startswith("modes"):
            ep._operations[j]["modes"] = [int(m) + 11 for m in ep._operations[j]["modes"]]
        elif ed["kind"].startswith("gate"):
            ep._operations[j]["op"] = "Zgate" if ep._operations[j]["op"] != "Zgate" else "Vgate"
        elif "removed" in ed["kind"]:
            del ep._operations[j]
        else:
            ep._operations.append({"op": "Vac", "modes": [23]})
        try:
            match_template(t, ep)
            print("edited program accepted")
            return 1
        except TemplateError:
            return 0
        except Exception as e:  # noqa: BLE001
            print(type(e).__name__)
            return 1
    if "edited" in inp:
        try:
            match_template(t, impl.loads(inp["edited"]))
            print("edited program accepted")
            return 1
        except TemplateError:
            return 0
        except Exception as e:  # noqa: BLE001
            print(type(e).__name__)
            return 1
    if "values2" in inp:
        try:
            match_template(t, impl.loads(inp["program"]))
            r = match_template(t, t(**inp["values2"]))
        except Exception as e:  # noqa: BLE001
            print("match fails:", e)
            return 1
        bad = [p for p, v in inp["values2"].items() if "{%s}" % p in inp["template"] and (p not in r or abs(float(r[p]) - v) > 1e-9 * max(1, abs(v)))]
        print("wrong values:", bad)
        return 1 if bad else 0
    try:
        r = match_template(t, impl.loads(inp["program"]))
    except Exception as e:  # noqa: BLE001
        print("match fails:", e)
        return 1
    bad = [p for p, v in inp["values"].items() if p in r and abs(float(r[p]) - v) > 1e-9 * max(1, abs(v))]
    print("wrong values:", bad)
    return 1 if bad else 0
