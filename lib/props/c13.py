"""C13 — read-only operations leave programs unchanged; instances are independent."""
import copy
import json
import random
import sys
import time

import numpy as np

import framework as fw
from framework import Result, finish, proof_obligations
from gen_script import Gen

PROP = "C13"
NEEDS = ["model/Heap.v", "proofs/HeapP.v", "gen/Facts.v", "proofs/FactsP.v"]
H = "name t\nversion 1.0\n"
import types
FUNCS = (types.FunctionType, types.BuiltinFunctionType, types.MethodType, types.ModuleType)      # code is not program state


def snapshot(p):
    """(dump text or error, structural digest, ids of all mutable containers reachable from the program)"""
    import sympy as sym

    import blackbird
    sys.path.insert(0, fw.VERIF + "/lib")
    import worker
    obs = json.dumps(worker.observe(p), sort_keys=True)
    keys = json.dumps([[sorted(o.keys()) for o in p.operations]])
    # how register transforms present themselves (text, printed form, registers in the listed order) is content too
    trf = []
    for o in p.operations:
        for v in list(o.get("args", [])) + list(o.get("kwargs", {}).values()):
            if hasattr(v, "regrefs") and hasattr(v, "func_str"):
                trf.append([str(v.func_str), str(v), repr(v), [int(r) for r in v.regrefs]])
    keys += json.dumps(trf)
    ids = set()

    def walk(x, depth=0):
        if depth > 12:
            return
        if isinstance(x, (list, dict, set, np.ndarray)) or (hasattr(x, "__dict__") and not isinstance(x, (sym.Basic, type, FUNCS))):
            if id(x) in ids:
                return
            ids.add(id(x))
        if isinstance(x, dict):
            for v in x.values():
                walk(v, depth + 1)
        elif isinstance(x, (list, tuple, set)):
            for v in x:
                walk(v, depth + 1)
        elif isinstance(x, np.ndarray) and x.dtype == object:
            for v in x.reshape(-1):
                walk(v, depth + 1)
        elif hasattr(x, "__dict__") and not isinstance(x, (sym.Basic, type, FUNCS)):
            for v in vars(x).values():
                walk(v, depth + 1)
    walk(p)
    # the dump is taken LAST: serialising is itself one of the read-only operations, so the content above is recorded
    # before this snapshot's own dumps call and the next snapshot sees whatever that call changed
    try:
        d = blackbird.dumps(p)
    except Exception as e:  # noqa: BLE001
        d = "ERR:%s" % type(e).__name__
    return d, obs + keys, ids


def gen_template(rng):
    if rng.random() < 0.25:
        # a tdm template: p-arrays passed by name next to template parameters and an ordinary array
        lines = ["name t", "version 1.0", "type tdm (temporal_modes=%d)" % rng.randint(1, 3), "",
                 "float array p0 =\n    1, 2.5", "float array p1 =\n    3, 4", "float array W =\n    0.5, 0.25"]
        pars = rng.sample(["a", "b", "phi"], rng.randint(1, 2))
        forms = ["Sgate(p0, %s) | 1", "Rgate(%s) | 0", "BSgate(p1, %s) | [0, 1]", "MeasureHomodyne(phi=p0, x=%s) | 0", "Dgate(W, %s) | 1"]
        used = set()
        for i in range(rng.randint(2, 5)):
            q = rng.choice(pars)
            used.add(q)
            lines.append(rng.choice(forms) % (rng.choice(["{%s}", "2 * {%s} + 1", "{%s} / 4"]) % q))
        for q in pars:
            if q not in used:
                lines.append("Rgate({%s}) | 0" % q)
        return "\n".join(lines) + "\n", pars
    lines = [H.rstrip("\n")]
    if rng.random() < 0.5:
        lines.append("target dev (shots=%d)" % rng.randint(1, 9))
    lines.append("")
    if rng.random() < 0.5:
        lines.append("float array A =\n    1.5, 2\n    3, 4.25")
    if rng.random() < 0.5:
        # values that an in-place normalisation would change: negative imaginary parts, negative zero, negative entries
        lines.append("complex array C =\n    1-2j, 0.5+0.5j\n    -1j, 3-0.25j")
        lines.append(rng.choice(["Interferometer(C) | [0, 1]", "Kgate(U=C) | 1", "Interferometer(C, l=[1, 2]) | [0, 1]"]))
    if rng.random() < 0.3:
        lines.append("float array Uw[2, 2] =\n    {Uw}")
        lines.append(rng.choice(["Rgate(Uw[1]) | 0", "Dgate(Uw[0], phi=Uw[3]) | 1"]))      # (a whole symbolic array as an argument cannot be serialised)
    if rng.random() < 0.4:
        # measured-register arguments: the transform objects are mutable (regrefs list) and must be copied with the program
        lines.append("MeasureX | 0")
        lines.append(rng.choice(["Zgate(2 * q0) | 1", "Dgate(0.5, phi=q0 / 2) | 2", "Xgate(q0 + 1, 0.25) | 1"]))
        if rng.random() < 0.6:
            # several registers in one argument (their listed order is part of the delivered transform) and spellings that the
            # serialiser writes differently from the way the transform prints itself
            lines += ["MeasureX | 2", "MeasureX | 10", "MeasureX | 12"]
            for _ in range(rng.randint(1, 3)):
                lines.append(rng.choice(["Zgate(q2 - q10) | 1", "Dgate(q10 / 4 - q0, phi=q12 * q2 - q0) | 3", "Xgate(q12 - 2 * q2 + q10 * q0) | 1",
                                         "Zgate(-1 * q0 ** 2) | 3", "Xgate(1j * q2) | 1", "Kgate(k=q10 - q12 / 3) | 3", "Zgate(-(q2 + 1) ** 2) | 1"]))
    if rng.random() < 0.3:
        lines.append("float array N =\n    -1.5, -0.0\n    2, -3")
        lines.append("Ggate(N) | [0, 1]")
    n = rng.randint(1, 5)
    pars = rng.sample(["a", "b", "phi", "ab", "y", "lambda", "I", "val"], rng.randint(1, 3))
    for i in range(n):
        form = rng.choice(["Sgate(%s) | %d", "Dgate(0.5, %s) | [%d, 3]", "Rgate(x=%s) | %d", "BSgate(%s, l=[1, 2]) | %d"])
        p = rng.choice(pars)
        arg = rng.choice(["{%s}", "2 * {%s} + 1", "-1.5 * {%s}", "{%s} / 4"]) % p
        lines.append(form % (arg, rng.randint(0, 2)))
        if rng.random() < 0.4:
            lines.append(rng.choice(["Vac | %d" % rng.randint(0, 3), "MeasureX | %d" % rng.randint(0, 3), "Kgate(A) | 1" if "float array A =" in "\n".join(lines) else "Vac | 0"]))
    return "\n".join(lines) + "\n", pars


def mutate_everything(obj, rng):
    """modify every mutable container reachable from a returned object"""
    if hasattr(obj, "_operations"):
        for o in obj._operations:
            o["op"] = o["op"] + "_X"
            o["modes"].append(99)
            if "args" in o:
                o["args"].append("junk")
                o["kwargs"]["junk"] = [1]
            for v in list(o.get("args", [])) + list(o.get("kwargs", {}).values()):
                if isinstance(v, np.ndarray) and v.dtype != object:
                    v += 1
                elif isinstance(v, list):
                    v.append(7)
                elif hasattr(v, "regrefs") and isinstance(v.regrefs, list):
                    v.regrefs[:] = [r + 5 for r in v.regrefs]        # relabel the measured modes of this instance
                    v.func_str = "changed"
        obj._operations.append({"op": "Extra", "modes": [0]})
        obj._var["junk"] = 1
        for v in obj._var.values():
            if isinstance(v, np.ndarray) and v.dtype != object:
                v *= 2
        obj._target["options"]["junk"] = 3
        obj._target["name"] = "changed"
        obj._modes.add(12345)
        obj._parameters.append("junk")
    else:
        # a networkx graph: change node attributes and structure
        for n in list(obj.nodes):
            d = obj.nodes[n]
            if isinstance(d.get("args"), list):
                d["args"].append("junk")
            if isinstance(d.get("kwargs"), dict):
                d["kwargs"]["junk"] = 1
            d["name"] = "changed"
        obj.add_node(10 ** 6)


def run_sequence(rng, impl, text, pars):
    """-> message or None"""
    import blackbird
    from blackbird.utils import match_template, to_DiGraph
    t = impl.loads(text)
    snap_t = snapshot(t)
    instances = []
    inst_snaps = []
    returned = []
    shared_value = np.array([[1.0, 2.0], [3.0, 4.5]])
    shared_before = shared_value.copy()
    calls = []
    for step in range(rng.randint(2, 7)):
        op = rng.choice(["dumps", "call", "digraph", "match", "attrs", "call", "digraph"])
        calls.append(op)
        try:
            if op == "dumps":
                blackbird.dumps(t)
                for i in instances:
                    blackbird.dumps(i)
            elif op == "call":
                vals = {p: rng.choice([0.25, 1.5, 2, -0.75, 3.125]) for p in pars}
                if "{Uw}" in text:
                    vals["Uw"] = shared_value        # the caller hands the very same array object to every call
                inst = t(**vals)
                instances.append(inst)
                inst_snaps.append(snapshot(inst))
            elif op == "digraph":
                returned.append(to_DiGraph(t))
                if instances:
                    returned.append(to_DiGraph(rng.choice(instances)))
            elif op == "match":
                if instances:
                    try:
                        match_template(t, rng.choice(instances))
                    except Exception:  # noqa: BLE001
                        pass
            else:
                _ = (t.name, t.version, t.modes, t.target, t.programtype, t.operations, t.parameters, t.variables, t.is_template(), len(t))
        except Exception as e:  # noqa: BLE001
            return "read-only operation %s raised %s: %s (calls %s)" % (op, type(e).__name__, str(e)[:100], calls), calls
        now = snapshot(t)
        if now[0] != snap_t[0] or now[1] != snap_t[1]:
            what = "serialisation" if now[0] != snap_t[0] else "content"
            return "the %s of the template changed after %s (calls so far: %s)" % (what, op, calls), calls
        # ... and so is every program handed to a read-only operation (instances are arguments of dumps/to_DiGraph/match_template)
        for k, (i, before) in enumerate(zip(instances, inst_snaps)):
            cur = snapshot(i)
            if cur[0] != before[0] or cur[1] != before[1]:
                what = "serialisation" if cur[0] != before[0] else "content"
                return "the %s of instance %d changed after %s (calls so far: %s)" % (what, k, op, calls), calls
    # instances are independent of the template and of each other
    snaps = [snapshot(i) for i in instances]
    for a in range(len(instances)):
        if snaps[a][2] & snap_t[2]:
            return "an instance shares mutable objects with its template (calls %s)" % calls, calls
        for b in range(a + 1, len(instances)):
            if snaps[a][2] & snaps[b][2]:
                return "two instances share mutable objects (calls %s)" % calls, calls
    # (graphs share argument lists with the program by design: the property speaks of instances only)
    for k, victim in enumerate(instances):
        mutate_everything(victim, rng)
        if not np.array_equal(shared_value, shared_before):
            return "modifying a returned instance altered the array the caller passed as a parameter value (calls %s)" % calls, calls
        now = snapshot(t)
        if now[0] != snap_t[0] or now[1] != snap_t[1]:
            return "modifying a returned %s altered the template (calls %s)" % ("instance" if k < len(instances) else "graph", calls), calls
        for j, i in enumerate(instances):
            if i is victim or j <= k:
                continue
            s2 = snapshot(i)
            if s2[0] != snaps[j][0] or s2[1] != snaps[j][1]:
                return "modifying one returned object altered another instance (calls %s)" % calls, calls
    return None, calls


def shared_object_value(impl, variant):
    """a template call whose VALUE is a mutable object that is not a number or an array (a register transform, as the include
    mechanism passes them): the same object handed to two calls, one instance's argument modified afterwards"""
    import sympy as sym
    from blackbird.listener import RegRefTransform
    text = H + ["Dgate({alpha}, 0.0) | 1\nRgate({alpha}) | 2\n", "MeasureX | 0\nZgate({alpha}) | 1\nKgate(k={alpha}) | 2\n"][variant % 2]
    t = impl.loads(text)
    q0, q3 = sym.Symbol("q0"), sym.Symbol("q3")
    value = RegRefTransform(0.5 * q0 if variant < 2 else q0 - 2 * q3)
    before_value = (str(value.func_str), list(value.regrefs), str(value.expr))
    i1, i2 = t(alpha=value), t(alpha=value)
    s2 = snapshot(i2)
    for o in i1.operations:
        for v in list(o.get("args", [])) + list(o.get("kwargs", {}).values()):
            if isinstance(v, RegRefTransform):
                v.regrefs[:] = [r + 5 for r in v.regrefs]
                v.func_str = "changed"
                v.expr = v.expr + 1
    now2 = snapshot(i2)
    if (str(value.func_str), list(value.regrefs), str(value.expr)) != before_value:
        return "modifying a returned instance altered the object the caller passed as a parameter value (a register transform)"
    if now2[0] != s2[0] or now2[1] != s2[1]:
        return "modifying one returned instance altered another instance (both were given the same transform object as a value)"
    return None


MATCH_PAIRS = [
    # (template, program): the program's arguments are strings, booleans, arrays, declared variables and (tdm) p-arrays - matched against
    # template parameters or against literals; matching reads both programs and changes neither, whether it succeeds or fails
    ("Label({tag}) | 0\nRgate({r}) | 1\n", 'Label("calibration") | 0\nRgate(0.5) | 1\n', ""),
    ("Label({tag}, {flag}) | 0\n", 'str s = "run7"\nLabel(s, True) | 0\n', ""),
    ("Label({tag}, on={flag}) | 0\n", 'Label("x y", on=False) | 0\n', ""),
    ("Label({tag}) | 0\nRgate({r}) | 1\n", 'float r = 0.25\nstr r2 = "r"\nLabel("r") | 0\nRgate(r) | 1\n', ""),
    ("Gate({U}) | 0\n", "float array U =\n    1, 2\n    3, 4\nGate(U) | 0\n", ""),
    ("Rgate({a}) | 0\nSgate({a}, {b}) | 1\n", "float array p0 =\n    0.5, 1.5\nint array p1 =\n    1, 2\nRgate(p0) | 0\nSgate(p0, p1) | 1\n", "type tdm (temporal_modes=2)\n"),
    ("Rgate({a}) | 0\nLabel({t}) | 1\n", 'float array p0 =\n    0.5, 1.5\nRgate(p0) | 0\nLabel("p1") | 1\n', "type tdm (temporal_modes=2)\n"),
    ("Rgate({a}) | 0\nLabel({t}) | 1\n", 'float array p0 =\n    0.5, 1.5\nstr lab = "run7"\nRgate(p0) | 0\nLabel("run7") | 1\n', "type tdm (temporal_modes=2)\n"),
    ('Label("fixed", {t}) | 0\n', 'Label("fixed", "free") | 0\n', ""),
    ('Label("fixed", {t}) | 0\n', 'Label("other", "free") | 0\n', ""),
    ("Rgate({a}) | 0\nRgate({a}) | 1\n", 'Rgate("s") | 0\nRgate("t") | 1\n', ""),
    ("MeasureX | 0\nZgate(2*q0, {g}) | 1\n", "MeasureX | 0\nZgate(2*q0, 0.5) | 1\n", ""),
]


def match_pair_case(impl, k):
    from blackbird.utils import match_template
    tt, pt, ty = MATCH_PAIRS[k]
    t = impl.loads("name T\nversion 1.0\n" + ty + tt)
    p = impl.loads("name P\nversion 1.0\n" + ty + pt)
    st, sp = snapshot(t), snapshot(p)
    for rep in range(2):
        try:
            match_template(t, p)
        except Exception:  # noqa: BLE001
            pass
        nt, np_ = snapshot(t), snapshot(p)
        for who, a, b in (("template", st, nt), ("program", sp, np_)):
            if a[0] != b[0] or a[1] != b[1]:
                return "match_template changed the %s of the %s it was given (pair %d, call %d)" % ("serialisation" if a[0] != b[0] else "content", who, k, rep + 1)
    return None


def run(tier, seed):
    res = Result(PROP, tier, seed)
    rng = random.Random(seed)
    status = fw.build()
    proof_obligations(res, status, "props/C13.v", NEEDS, translators=("facts_from_py",))
    quick = tier == "quick"
    import impl
    ok = True
    n = 150 if quick else 5000
    t_end = time.time() + (70 if quick else 1500)
    for i in range(n):
        if time.time() > t_end:
            res.extra["stopped_by_time_budget"] = True
            break
        text, pars = gen_template(rng)
        st = rng.getstate()
        try:
            msg, calls = run_sequence(rng, impl, text, pars)
        except Exception as e:  # noqa: BLE001
            msg, calls = "harness error %s: %s" % (type(e).__name__, e), []
        res.case(text + repr(calls), len(calls) >= 2, {"template": text, "calls": calls} if len(res.samples) < 3 else None)
        for c in calls:
            res.count("call:" + c)
        if msg:
            ok = False
            res.violate(msg, {"check": "readonly", "text": text, "pars": pars, "rng_state": repr(st)[:0], "seed_case": i, "seed": seed})
            if len(res.violations) >= 5:
                break
    for variant in range(4):
        try:
            msg = shared_object_value(impl, variant)
        except Exception as e:  # noqa: BLE001
            msg = "a template call with a register transform as the value fails: %s: %s" % (type(e).__name__, str(e)[:100])
        res.case("shared-object-value-%d" % variant, True, None)
        res.count("shared-object-value")
        if msg:
            ok = False
            res.violate(msg, {"check": "shared-object-value", "variant": variant})
    for k in range(len(MATCH_PAIRS)):
        try:
            msg = match_pair_case(impl, k)
        except Exception as e:  # noqa: BLE001
            msg = "harness error in match pair %d: %s: %s" % (k, type(e).__name__, str(e)[:100])
        res.case("match-pair-%d" % k, True, None)
        res.count("match-pair")
        if msg:
            ok = False
            res.violate(msg, {"check": "match-pair", "k": k})
    res.oblige("correspondence: snapshots (dump text, content, operation keys) unchanged by every read-only call; instances/graphs separated from the template and from each other", "correspondence", ok)
    return finish(res, level="proof", trusted=fw.TRUSTED_COMMON + ["copy.deepcopy returns fresh isomorphic objects; the footprint extraction of T3 is syntactic (partial)"],
                  rule="templates (with/without arrays and target options) x random sequences of 2-7 calls among dumps, template call with varying values, "
                       "to_DiGraph, match_template and attribute reads; after every call the template's dump text, canonical content and operation keys "
                       "must be unchanged; id-sets of mutable containers of instances must be disjoint from the template's and from each other's; every "
                       "mutable container of every returned instance/graph is then modified and the template and sibling instances re-checked")


def replay(rep):
    import impl
    inp = rep["input"]
    if inp.get("check") == "match-pair":
        msg = match_pair_case(impl, inp["k"])
        print(msg)
        return 1 if msg else 0
    if inp.get("check") == "shared-object-value":
        msg = shared_object_value(impl, inp["variant"])
        print(msg)
        return 1 if msg else 0
    rng = random.Random(inp["seed"])
    # regenerate the same case deterministically
    for i in range(inp["seed_case"] + 1):
        text, pars = gen_template(rng)
        if i == inp["seed_case"]:
            msg, _ = run_sequence(rng, impl, text, pars)
            print(msg)
            return 1 if msg else 0
        run_sequence(rng, impl, text, pars)
    return 0
