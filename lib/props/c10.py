"""C10 — ungrammatical scripts always raise BlackbirdSyntaxError at the offending token."""
import random
import re
import time

import framework as fw
from framework import Result, finish, proof_obligations
from gen_script import Gen

PROP = "C10"
NEEDS = ["model/Ebnf.v", "model/Lexer.v", "model/Viable.v", "gen/G4Data.v", "proofs/EbnfP.v", "proofs/LexerP.v", "proofs/LrecP.v",
         "proofs/ViableP.v", "proofs/GrammarP.v", "gen/Facts.v", "proofs/FactsP.v", "proofs/ParserP.v", "proofs/CompleteP.v", "extract/Extract.v", "proofs/LexTotalP.v", "proofs/ParseFuelP.v"]
SYN = re.compile(r"Blackbird SyntaxError \(line (\d+):(\d+)\)")


def token_edits(rng, text, toks, gr, tab, all_edits=False, limit=30):
    """single-token deletions, insertions, substitutions, adjacent swaps and truncations of the token sequence of a
    grammatical text, rendered back into text by splicing the original token texts (layout preserved)"""
    vis = [t for t in toks if t[0] not in gr.skip_types]
    n = len(vis)
    edits = []
    kinds_all = [k for k, v in tab.items() if v]
    idxs = list(range(n))
    if not all_edits:
        rng.shuffle(idxs)
        idxs = idxs[:limit]
    for i in idxs:
        a, b = vis[i][1], vis[i][2]
        edits.append(("delete", text[:a] + text[b:]))
        k = rng.choice(kinds_all)
        lex = rng.choice(tab[k])
        if lex not in ("\n", "\r\n", "\r", "\t", "    "):
            edits.append(("substitute", text[:a] + lex + text[b:]))
            edits.append(("insert", text[:a] + lex + " " + text[a:]))
        if i + 1 < n:
            c, d = vis[i + 1][1], vis[i + 1][2]
            edits.append(("swap", text[:a] + text[c:d] + text[b:c] + text[a:b] + text[d:]))
        edits.append(("truncate", text[:a]))
    return edits


def soups(rng, tab, n):
    kinds = [k for k, v in tab.items() if v]
    for _ in range(n):
        ln = rng.randint(1, 12)
        parts = []
        for _ in range(ln):
            s = rng.choice(tab[rng.choice(kinds)])
            parts.append(s)
        yield "soup", " ".join(p for p in parts)


def judge(res, model, impl, gr, text, tag, viable_available):
    """one string: model verdict vs implementation behaviour"""
    import blackbird
    toks = model.lex(text if text.endswith(("\n", "\r")) or not text else text + "\n")   # load/loads terminate the last line
    ltext = text if text.endswith(("\n", "\r")) or not text else text + "\n"
    vis = [t for t in toks if t[0] not in gr.skip_types]
    kinds = [t[0] for t in vis] + [0]
    gram = model.recognise(kinds)
    res.case(text, len(kinds) >= 6, None)
    res.count("%s:%s" % (tag, "sentence" if gram else "non-sentence"))
    impl.reset_tables()
    try:
        p = blackbird.loads(text)
        outcome, exc = "program", None
    except Exception as e:  # noqa: BLE001
        outcome, exc = type(e).__name__, e
    acc, errs, _, _ = impl.parse_verdict(ltext)
    # the two entry points agree: the same characters in a FILE (with LF, CR LF, CR or CR CR LF line ends) give the same outcome and,
    # for an error, the same message (line and column of the offending token) as the string
    import zlib
    if text.isascii() and zlib.crc32(text.encode()) % 3 == 0:
        nl = ["\n", "\r\n", "\r", "\r\r\n"][zlib.crc32(text.encode()) // 3 % 4]
        ftext = text.replace("\n", nl)
        outs = []
        for loader in (blackbird.loads, impl.load_via_file):
            impl.reset_tables()
            try:
                loader(ftext)
                outs.append("program")
            except Exception as e:  # noqa: BLE001
                outs.append("%s: %s" % (type(e).__name__, str(e)))
        res.count("file-vs-string:%r" % nl)
        if outs[0] != outs[1]:
            return "load (file, line ends %r) and loads (same characters) disagree: %s | %s" % (nl, outs[1][:110], outs[0][:110])
    if gram:
        if not acc:
            return "a sentence of the grammar does not pass the syntax stage: %s" % (errs[:1],)
        if outcome == "BlackbirdSyntaxError" and "is not defined" not in str(exc) and "reserved" not in str(exc) and "Array" not in str(exc) and "array" not in str(exc).lower():
            # the listener raises BlackbirdSyntaxError for a few semantic errors (undefined/reserved names, array type/shape)
            return "a sentence of the grammar raises a syntax error: %s" % str(exc)[:150]
        return None
    # ungrammatical
    if outcome == "program":
        return "an ungrammatical script was loaded as a program"
    if outcome != "BlackbirdSyntaxError":
        return "an ungrammatical script raises %s instead of BlackbirdSyntaxError: %s" % (outcome, str(exc)[:120])
    m = SYN.search(str(exc))
    if not m:
        return "the BlackbirdSyntaxError message carries no line:column: %s" % str(exc)[:120]
    line, col = int(m.group(1)), int(m.group(2)) - 1
    # the reported position must be the start of a token (or the end of input), ...
    pos = {(t[3], t[4]): i for i, t in enumerate(vis)}
    ln = ltext.count("\n") + 1
    cc = len(ltext) - (ltext.rfind("\n") + 1)
    eof_lc = (ln, cc)
    if (line, col) in pos:
        idx = pos[(line, col)]
    elif eof_lc == (line, col):
        idx = len(vis)
    else:
        return "reported position line %d column %d (1-based) is not the start of any token" % (line, col + 1)
    # ... and never earlier than the first token that makes the text ungrammatical
    if viable_available:
        lo, hi = 0, len(vis)          # find the least k such that kinds[:k+1] is not a viable prefix (k = len(vis) means EOF)
        fb = None
        for k in range(len(kinds)):
            pre = kinds[:k + 1]
            if pre[-1] == 0:
                v = model.recognise(pre)
            else:
                v = model.ask("VIABLE", ",".join(map(str, pre))) == "T"
            if not v:
                fb = k
                break
        res.count("first-bad-computed")
        if fb is not None and idx < fb:
            return "the error is reported at token %d (line %d column %d) but the text is still a viable prefix up to token %d" % (idx, line, col + 1, fb)
    return None


def run(tier, seed):
    res = Result(PROP, tier, seed)
    rng = random.Random(seed)
    status = fw.build()
    proof_obligations(res, status, "props/C10.v", NEEDS, translators=("g4_to_coq", "facts_from_py"))
    quick = tier == "quick"
    if status.bbmodel_ok and "g4_to_coq" not in status.translator_errors:
        import impl
        from gram import Grammar, lexeme_table, render
        model = fw.Model()
        gr = Grammar()
        tab = lexeme_table(gr, model, rng)
        viable_ok = model.ask("VIABLE", "19,58") in ("T", "F")
        res.oblige("viable-prefix oracle answers", "correspondence", viable_ok)
        ok = True
        nbase = 40 if quick else 400
        t_end = time.time() + (75 if quick else 1700)
        cases = []
        for i in range(nbase):
            if i % 2 == 0:
                g = Gen(rng, allow_params=(i % 4 == 0), allow_regs=(i % 6 == 0))
                try:
                    text = g.script(syms_prob=0.3)
                except Exception:  # noqa: BLE001
                    continue
            else:
                kinds = gr.derive(rng, budget=rng.choice([10, 20, 40]))
                text = render(kinds, tab, rng)
                if text is None:
                    continue
            cases.append(("base", text))
            try:
                toks = model.lex(text)
            except fw.ModelError:
                continue
            for tag, t in token_edits(rng, text, toks, gr, tab, all_edits=not quick, limit=8):
                cases.append((tag, t))
        cases += list(soups(rng, tab, 150 if quick else 5000))
        hand = ["", "\n", "name", "name p", "name p\n", "name p\nversion", "version 1.0\n", "name p\nversion 1.0\nOp(1 2) | 0\n",
                "name p\nversion 1.0\nOp(1) 0\n", "name p\nversion 1.0\nfloat x = \n", "name p\nversion 1.0\nfloat x 5\n",
                "name p\nversion 1.0\nint array A = 1, 2\n", "name p\nversion 1.0\nOp | \n", "name p\nversion 1.0\nOp | 0 1\n",
                "name p\nversion 1.0\nOp(1,2) | 0\n", "name p\nversion 1.0\nOp(1) | 0;\n", "name p\nversion 1.0\nOp[1] | 0\n",
                "name p\nversion 1.0\nfor int i in 0:2\nOp | i\n", "name p\nversion 1.0\nfor int i 0:2\n    Op | i\n",
                "name p\nversion 1.0\nint array A =\n    1, 2,\n", "name p\nversion 1.0\nOp({p) | 0\n", "name p\nversion 1.0\nOp(sin 1) | 0\n",
                "name p\nversion 1.0\ntarget\nOp | 0\n", "name p\nversion 1\nOp | 0\n", "name 1p\nversion 1.0\n", "name p\nversion 1.0\n$\n",
                "name p\nversion 1.0\nOp(a=) | 0\n", "name p\nversion 1.0\nOp(a=1, 2) | 0\n", "name p\nversion 1.0\ninclude x\n"]
        # completely empty lines where the grammar admits exactly ONE line end: after the '=' of an array, between its rows, after a
        # for header (blank lines are insignificant only BETWEEN statements)
        hand += ["name p\nversion 1.0\nfloat array A =\n\n    1, 2\nOp(A) | 0\n", "name p\nversion 1.0\nfloat array A =\n    1, 2\n\n    3, 4\nOp(A) | 0\n",
                 "name p\nversion 1.0\nfor int i in 0:2\n\n    Op(i) | 0\n", "name p\nversion 1.0\nfor int i in 0:2\n    Op(i) | 0\n\n    Vac | i\n",
                 "name p\nversion 1.0\nfloat array A[1, 2] =\n\n\n    1, 2\n"]
        # characters the grammar has no token for, visible or not, at the very start of the text and elsewhere (byte order mark,
        # zero-width space, no-break space, soft hyphen): the text is not a sentence
        ok_script = "name p\nversion 1.0\nOp(1) | 0\n"
        for ch in ["\ufeff", "\u200b", "\xa0", "\xad", "\u2060", "\x00", "\x7f"]:
            hand += [ch + ok_script, ch + "# header\n\n" + ok_script, ok_script.replace("version", ch + "version"), ok_script.replace("Op(1)", "Op(" + ch + "1)"), ok_script + ch]
        cases += [("hand", h) for h in hand]
        # every type keyword the vartype rule admits (the bare keyword "array" included) x every place of a declaration or loop header x
        # a set of offending tokens: the error handler words its message by the context (and the declared type) of the offending token
        decl = []
        for ty in ["array", "float", "complex", "int", "str", "bool"]:
            for bad in [")", "| 1", "= 1", ",", "]", "1 2", "}", "(", "*", "in", "for", "array", '"s" 1', "1 +", "q0 q1", "{p} {q}"]:
                decl += ["%s x = %s\n" % (ty, bad), "%s x = 1 + %s\n" % (ty, bad), "%s array A =\n    1, %s\n" % (ty, bad), "%s array A =\n    %s\n    1, 2\n" % (ty, bad),
                         "%s array A[1, 2] =\n    1, 2 %s\n" % (ty, bad), "%s array A[1 %s] =\n    1, 2\n" % (ty, bad), "%s array A %s\n    1, 2\n" % (ty, bad),
                         "for %s i in %s\n    Op | 0\n" % (ty, bad), "for %s i in [1, %s]\n    Op | 0\n" % (ty, bad), "for %s i in 0:%s\n    Op | 0\n" % (ty, bad),
                         "%s x %s\n" % (ty, bad), "%s %s = 1\n" % (ty, bad), "Op(%s x) | 0\n" % ty, "%s array array A =\n    1, %s\n" % (ty, bad)]
        rng.shuffle(decl)
        cases += [("declaration-error", "name p\nversion 1.0\n" + d) for d in decl[: (220 if quick else len(decl))]]
        nshown = 0
        for tag, text in cases:
            if time.time() > t_end:
                res.extra["stopped_by_time_budget"] = True
                break
            try:
                msg = judge(res, model, impl, gr, text, tag, viable_ok)
            except fw.ModelError as e:
                res.oblige("model answers", "correspondence", False, str(e)[:200])
                break
            if nshown < 6 and tag not in ("base",) and len(text) < 200:
                res.samples.append({"kind": tag, "text": text})
                nshown += 1
            if msg:
                ok = False
                res.violate(msg, {"check": "syntax", "text": text, "edit": tag})
                if len(res.violations) >= 5:
                    break
        # the environment must not matter before the syntax stage has spoken: the same ungrammatical texts in fresh interpreters
        # whose working directory has been removed, and under another hash seed
        import subproc
        bad = [t for tag, t in cases if tag == "hand" and t.strip()][:30] + [t for tag, t in cases if tag not in ("hand", "base")][:30]
        bad = [t for t in bad if "\x00" not in t]
        verdicts = {}
        for t in bad:
            try:
                mt = model.lex(t if t.endswith(("\n", "\r")) or not t else t + "\n")      # load/loads terminate the last line
                kinds = [k[0] for k in mt if k[0] not in gr.skip_types] + [0]
                verdicts[t] = model.recognise(kinds)
            except fw.ModelError:
                verdicts[t] = None
        bad = [t for t in bad if verdicts[t] is False]
        for cwd_, seed_ in (("@removed", "0"), (None, "7")):
            outs = subproc.run_batch([{"kind": "loads", "text": t} for t in bad], seed_, cwd_)
            for t, o in zip(bad, outs):
                res.count("environment:%s" % ("removed-cwd" if cwd_ else "seed-7"))
                if o.get("out") != "error" or o.get("cls") != "BlackbirdSyntaxError":
                    ok = False
                    res.violate("an ungrammatical script %s instead of raising BlackbirdSyntaxError when %s"
                                % ("is accepted" if o.get("out") == "ok" else "raises %s" % o.get("cls"),
                                   "the working directory no longer exists" if cwd_ else "PYTHONHASHSEED=7"),
                                {"check": "syntax-env", "text": t, "cwd": cwd_, "seed": seed_})
                    break
        # the same PATH holding, one after the other, a grammatical text and an ungrammatical one of the same length and the same
        # modification time (cp -p, archive extraction, two writes within one clock tick): load() must read what the file holds now
        import os
        import shutil
        import tempfile
        import blackbird
        d = tempfile.mkdtemp(prefix="bbverif.", dir="/var/tmp")
        try:
            pth = os.path.join(d, "prog.xbb")
            good = "name prog\nversion 1.0\nVac | 0\nMeasureFock() | 0\n"
            bads = [good.replace("Vac | 0", "| Vac 0"), good.replace("version 1.0", "version = 1"), good.replace("MeasureFock() | 0", "MeasureFock( | 0)")]
            for bad in bads:
                assert len(bad) == len(good)
                for first, second in ((good, bad), (bad, good)):
                    outs = []
                    for text in (first, second, first):
                        with open(pth, "w") as fh:
                            fh.write(text)
                        os.utime(pth, (1600000000, 1600000000))
                        try:
                            impl.reset_tables()
                            blackbird.load(pth)
                            outs.append("ok")
                        except Exception as e:  # noqa: BLE001
                            outs.append(type(e).__name__)
                    want = ["ok" if t is good else "BlackbirdSyntaxError" for t in (first, second, first)]
                    res.case("file-rewrite:%s:%s" % (bads.index(bad), first is good), True, None)
                    res.count("file-rewritten-in-place")
                    if outs != want:
                        ok = False
                        res.violate("a file rewritten in place (same length, same modification time): successive load() calls give %s, the texts call for %s" % (outs, want),
                                    {"check": "file-rewrite", "texts": [first, second, first]})
                        break
        finally:
            shutil.rmtree(d, ignore_errors=True)
        res.oblige("correspondence: syntax-stage verdict = grammar membership, and every ungrammatical string raises BlackbirdSyntaxError at a token not before the first bad one", "correspondence", ok)
        model.close()
    else:
        res.oblige("model binary available", "correspondence", False)
    return finish(res, level="proof", trusted=fw.TRUSTED_COMMON + ["the ANTLR error strategy and ALL(*) prediction are not modelled; the error listener (error.py) is exercised, not modelled"],
                  rule="grammatical bases (structured scripts and random derivations of the grammar), every/sampled single-token deletion, insertion, "
                       "substitution, adjacent swap and truncation of each, token soups and hand-written classics; oracle = proved recogniser (membership) "
                       "and proved viable-prefix decision (first bad token); non-trivial = >= 6 tokens")


def replay(rep):
    import impl
    from gram import Grammar
    if rep["input"].get("check") == "file-rewrite":
        import os
        import shutil
        import tempfile
        import blackbird
        d = tempfile.mkdtemp(prefix="bbverif.", dir="/var/tmp")
        outs = []
        try:
            for text in rep["input"]["texts"]:
                with open(os.path.join(d, "prog.xbb"), "w") as fh:
                    fh.write(text)
                os.utime(os.path.join(d, "prog.xbb"), (1600000000, 1600000000))
                try:
                    blackbird.load(os.path.join(d, "prog.xbb"))
                    outs.append("ok")
                except Exception as e:  # noqa: BLE001
                    outs.append(type(e).__name__)
        finally:
            shutil.rmtree(d, ignore_errors=True)
        print(outs)
        return 0 if outs[0] == outs[2] and outs[0] != outs[1] else 1
    if rep["input"].get("check") == "syntax-env":
        import subproc
        o = subproc.run_batch([{"kind": "loads", "text": rep["input"]["text"]}], rep["input"]["seed"], rep["input"]["cwd"])[0]
        print(o.get("out"), o.get("cls"))
        return 0 if (o.get("out") == "error" and o.get("cls") == "BlackbirdSyntaxError") else 1
    fw.build()
    model = fw.Model()
    res = Result(PROP, "quick", 0)
    msg = judge(res, model, impl, Grammar(), rep["input"]["text"], "replay", model.ask("VIABLE", "19,58") in ("T", "F"))
    print(msg)
    return 1 if msg else 0
