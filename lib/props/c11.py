"""C11 — ill-formed but grammatical programs are refused, never silently accepted."""
import loadcmp
from gen_script import Gen

PROP = "C11"
NEEDS = ["model/Syntax.v", "model/Parser.v", "model/Values.v", "model/Eval.v", "model/Loader.v", "proofs/EvalP.v", "extract/Extract.v"]
HDR = "name f\nversion 1.0\n"
DECLS = "int n = 2\nfloat x = 0.5\nint array A =\n    1, 2\n    3, 4\n"

# slots: {F} is replaced by the faulty expression
SLOTS = {
    "positional": "Op({F}) | 0",
    "positional-2nd": "Op(1, 2 * {F} + 1) | 0",
    "keyword": "Op(a={F}) | 0",
    "keyword-after-pos": "Op(1, b=x, a={F}) | 0",
    "list-element": "Op(l=[1, {F}, 3]) | 0",
    "mode": "Op(1) | {F}",
    "mode-2nd": "Op(1) | [0, {F}]",
    "array-index": "Op(A[{F}]) | 0",
    "loop-list": "for int i in [0, {F}]\n    Op(i) | 0",
    "loop-body": "for int i in 0:2\n    Op(i, {F}) | i",
    "scalar-decl": "float y = {F}\nOp(y) | 0",
    "array-decl": "float array B =\n    1, {F}\nOp(B) | 0",
    "nested": "Op(sin(({F}) * 2) + 1) | 0",
    "after-statements": "Vac | 0\nVac | 1\nOp({F}) | 0",
}


def _cases(rng, quick, gr):
    # 1. undefined names in every slot and at several statement positions
    for slot, tmpl in SLOTS.items():
        for name in ["u", "undefined_1", "N", "xx"]:
            for pos in range(3):
                pre = ["Vac | %d" % k for k in range(pos)]
                yield {"tag": "undefined:" + slot, "text": HDR + DECLS + "\n".join(pre + [tmpl.replace("{F}", name)]) + "\nVac | 3\n"}
    # undefined array name used with an index
    for slot in ["positional", "keyword", "list-element", "mode", "scalar-decl", "loop-list"]:
        yield {"tag": "undefined-array:" + slot, "text": HDR + DECLS + SLOTS[slot].replace("{F}", "U[0]") + "\n"}
    # metadata options
    for meta in ["target dev (shots=u)", "type tdm (temporal_modes=u + 1)", "target dev (a=1, b=[u])", "target dev (u)", "target dev (2 * u, shots=10)", "type demo (u)",
                 "type tdm (u + 1, temporal_modes=2)"]:
        yield {"tag": "undefined:metadata", "text": "name f\nversion 1.0\n%s\nVac | 0\n" % meta}
    # 2. reserved names
    for nm in ["q0", "q12", "name", "version", "target", "type"]:
        for ty in ["int", "float", "complex"]:
            yield {"tag": "reserved:scalar", "text": HDR + "Vac | 0\n%s %s = 1\nVac | 1\n" % (ty, nm)}
            yield {"tag": "reserved:array", "text": HDR + "%s array %s =\n    1, 2\nVac | 1\n" % (ty, nm)}
            yield {"tag": "reserved:array-shape", "text": HDR + "%s array %s[1, 2] =\n    1, 2\nVac | 1\n" % (ty, nm)}
    # 3. non-integer modes: float, complex, string; literal, variable, computed
    for m in ["0.5", "1.0", "x", "1j", "2 * 1j", "1 / 2", "2 ** -1", "n / 2", "sqrt(4)", "pi", "s", "A[0] / 1"]:
        for tmpl in ["Op(1) | {F}", "Op | [0, {F}]", "MeasureX | ({F}, 1)", "for int i in 0:2\n    Op | [i, {F}]"]:
            yield {"tag": "mode-not-int", "text": HDR + DECLS + 'str s = "a"\n' + tmpl.replace("{F}", m) + "\n"}
    # 3a. a loop body whose mode is an integer in the first iteration(s) and not in a later one
    for hdr, body in [("0:3", "Vac | 2 ** (1 - i)"), ("0:3", "Op | [0, 2 ** (2 - i) + 4]"), ("0:3", "MeasureX | (i, 4 ** (1 - i) + 5)"), ("[0, 1, 3]", "Op(1) | 2 ** (1 - i)"),
                      ("(1, 0, 2)", "Op(i) | [3, 2 ** (1 - i)]"), ("0:4", "Vac | i\n    Op(2) | 8 ** (2 - i)")]:
        yield {"tag": "mode-not-int-in-later-iteration", "text": HDR + DECLS + "for int i in %s\n    %s\nVac | 7\n" % (hdr, body)}
    # 3b. ... also when the value equals a mode number the program has already acted on
    for m in ["1.0", "2 / 2", "fm", "1 + 0j", "F1[0]", "1e0"]:
        for pre in ["Vac | 1\n", "Op(1) | [0, 1]\n", "for int i in 0:2\n    Vac | i\n"]:
            for tmpl in ["Op(1) | {F}", "Op | [0, {F}]", "for int i in 0:2\n    Op | {F}"]:
                yield {"tag": "mode-not-int-used-before", "text": HDR + DECLS + "float fm = 1.0\nfloat array F1 =\n    1.0, 2.0\n" + pre + tmpl.replace("{F}", m) + "\n"}
    # 4. complex into int/float variables and arrays, literal or computed
    for v in ["1+2j", "2j", "2 * (1+1j)", "1j * 1j", "exp(1j)", "x * 1j", "z", "z + 1"]:
        for ty in ["int", "float"]:
            yield {"tag": "complex-into-" + ty, "text": HDR + DECLS + "complex z = 1+1j\n%s v = %s\nOp(v) | 0\n" % (ty, v)}
            yield {"tag": "complex-into-%s-array" % ty, "text": HDR + DECLS + "complex z = 1+1j\n%s array V =\n    1, %s\nOp(V) | 0\n" % (ty, v)}
    # 5. loop values not of the loop type
    for ty, v in [("int", '"a"'), ("int", "1.5"), ("int", "2j"), ("float", '"x"'), ("float", "1j"), ("str", "1"), ("str", "True"),
                  ("bool", "2"), ("bool", '"t"'), ("int", "x"), ("int", "n / 2")]:
        good = {"int": "1", "float": "1.5", "str": '"s"', "bool": "True"}[ty]
        for hdr in ["[%s, %s]" % (good, v), "(%s, %s)" % (v, good), "%s" % v]:
            yield {"tag": "loop-value", "text": HDR + DECLS + "for %s i in %s\n    Op(i) | 0\n" % (ty, hdr)}
    # 5b. ranges: the values of a range are integers, so a str loop and (beyond 0:2) a bool loop are refused, and a
    #     float / complex loop variable is not a mode
    for ty in ["str", "bool"]:
        for hdr in ["0:2", "0:3", "1:4", "0:6:2", "2:3"]:
            yield {"tag": "loop-range-value", "text": HDR + DECLS + "for %s i in %s\n    Op(i) | 0\n" % (ty, hdr)}
    for ty in ["float", "complex"]:
        for hdr in ["0:2", "0:3", "1:6:2"]:
            for body in ["Op(1) | i", "Op | [0, i]", "MeasureX | (i, 1)", "Op(A[i]) | 0"]:
                yield {"tag": "loop-range-mode", "text": HDR + DECLS + "for %s i in %s\n    %s\n" % (ty, hdr, body)}
    # 5c. calls of included programs with the wrong number of modes or the wrong keyword arguments
    import os
    import shutil
    import tempfile
    d = tempfile.mkdtemp(prefix="bbverif.", dir="/var/tmp")
    try:
        subs = {os.path.join(d, "sub.xbb"): "name sub\nversion 1.0\nVac | 4\nBSgate(0.5, 0.1) | [4, 7]\n",
                os.path.join(d, "tsub.xbb"): "name tsub\nversion 1.0\nRgate({a}) | 1\nSgate({a}, {b}) | [0, 1]\n",
                os.path.join(d, "one.xbb"): "name one\nversion 1.0\nVac | 9\n",
                # template parameters spelt like p-array names, like registers' neighbours, like functions (parameters all the same)
                os.path.join(d, "psub.xbb"): "name psub\nversion 1.0\nRgate({p1}) | 0\n",
                os.path.join(d, "psub2.xbb"): "name psub2\nversion 1.0\nSgate({p0}, {p12}) | [0, 1]\n",
                os.path.join(d, "nsub.xbb"): "name nsub\nversion 1.0\nSgate({q}, {sinx}) | [0, 1]\nRgate({pi2}) | 1\n",
                os.path.join(d, "gap.xbb"): "name gap\nversion 1.0\nRgate(0.5) | 0\nBSgate(0.5, 0.1) | [0, 2]\n"}
        for pth, txt in subs.items():
            with open(pth, "w") as f:
                f.write(txt)
        # the variables of one included file are not visible in another one (nor in its metadata options)
        prep, meas, meas2 = os.path.join(d, "prep.xbb"), os.path.join(d, "meas.xbb"), os.path.join(d, "meas2.xbb")
        more = {prep: "name prep\nversion 1.0\nint n = 3\nfloat x9 = 0.5\nVac | 0\n",
                meas: "name meas\nversion 1.0\ntarget gaussian (shots=n)\nMeasureX | 0\n",
                meas2: "name meas2\nversion 1.0\ntype tdm (temporal_modes=n + 1)\nMeasureX(x9) | 0\n"}
        for pth, txt in more.items():
            with open(pth, "w") as f:
                f.write(txt)
        for order in ([prep, meas], [prep, meas2], [prep, prep, meas], [meas, prep], [prep, meas2, meas]):
            yield {"tag": "include-scope", "text": "name f\nversion 1.0\n" + "".join('include "%s"\n' % pth for pth in order) + "\nprep | 0\nVac | 1\n",
                   "files": dict(more)}
        yield {"tag": "include-scope", "text": "name f\nversion 1.0\ninclude \"%s\"\n\nprep | 0\nVac(n) | 1\n" % prep, "files": dict(more)}
        inc = "".join('include "%s"\n' % pth for pth in subs)
        calls = ["sub | [2, 3, 3]", "sub | [2, 3, 2]", "sub | [2, 3, 4]", "sub | 2", "sub | [3, 3, 3]", "one | [1, 1]", "one | [0, 1]",
                 "sub(a=1) | [2, 3]", "one(x=0.5) | 3", "tsub | [2, 3]", "tsub(a=1) | [2, 3]", "tsub(b=1) | [2, 3]",
                 "tsub(a=1, b=2, c=3) | [2, 3]", "tsub(a=1, c=2) | [2, 3]", "tsub(1, 2) | [2, 3]", "tsub(a=1, b=2) | [2, 3, 3]",
                 "tsub(a=1, b=2) | 2",
                 "psub | 2", "psub(p1=0.3) | 2", "psub(p0=0.3) | 2", "psub(p1=0.3, p2=1) | 2", "psub2 | [2, 3]", "psub2(p0=1) | [2, 3]", "psub2(p0=1.5, p12=2.5) | [2, 3]",
                 "psub2(p12=2) | [2, 3]", "nsub | [2, 3]", "nsub(q=1, sinx=2) | [2, 3]", "nsub(q=1.5, sinx=2.5, pi2=3.5) | [2, 3]", "nsub(q=1, sinx=2, pi=3) | [2, 3]",
                 # as many modes as the LARGEST mode number of the included program suggests (its modes are not 0..n-1)
                 "gap | [4, 5, 6]", "gap | [0, 1, 2]", "sub | [0, 1, 2, 3, 4, 5, 6, 7]", "one | [0, 1, 2, 3, 4, 5, 6, 7, 8, 9]", "gap | 3",
                 "for int i in 0:2\n    sub | [i, i + 1, i + 1]", "for int i in 0:2\n    tsub(a=i) | [i, i + 1]"]
        for c in calls:
            for pre in ["", "Vac | 0\n"]:
                yield {"tag": "include-call", "text": "name f\nversion 1.0\n" + inc + "\n" + pre + c + "\nVac | 5\n", "files": dict(subs)}
    finally:
        shutil.rmtree(d, ignore_errors=True)
    # 6. one fault injected into random valid scripts (undefined name replacing a random NAME-free literal slot)
    n = 250 if quick else 15000
    for i in range(n):
        g = Gen(rng, allow_loops=True)
        try:
            text = g.script()
        except Exception:  # noqa: BLE001
            continue
        lines = text.split("\n")
        cand = [k for k, ln in enumerate(lines) if "|" in ln and "(" in ln.split("|")[0] and not ln.startswith("for")]
        if not cand:
            continue
        k = rng.choice(cand)
        head, _, tail = lines[k].partition("(")
        fault = rng.choice(["undef_%d" % rng.randint(0, 9), "Undef[0]"])
        lines[k] = head + "(" + fault + (", " + tail if not tail.startswith(")") else tail)
        yield {"tag": "injected-undefined", "text": "\n".join(lines)}


def cases(rng, quick, gr):
    texts = []
    for c in _cases(rng, quick, gr):
        if "text" in c and not c.get("files") and len(texts) < 400:
            texts.append(c["text"])
        yield c
    # a complex element in an int / float array whose other elements are unusual (an integer beyond 64 bits, a string variable,
    # a bool): the array must be refused whatever its neighbours are (beyond-int64 neighbours are outside the model: judged here)
    for ty in ["float", "int"]:
        for cx in ["2*1j", "1j*1j*1j", "exp(1j)", "(1+2j)**2", "1j/2", "zc9", "2j"]:
            for other in ["100000000000000000000000000000", "18446744073709551616", "sv9", "True", "1.5", "-3"]:
                for first in (True, False):
                    row = "%s, %s" % ((cx, other) if first else (other, cx))
                    t = HDR + DECLS + 'complex zc9 = 0.5+1j\nstr sv9 = "s"\n%s array AC9 =\n    %s\nVac | 0\n' % (ty, row)

                    def pred(impl, t=t):
                        try:
                            p = impl.loads(t)
                        except Exception:  # noqa: BLE001
                            return None
                        return "an %s with a complex element was turned into a program: %r" % (t.split("\n")[-4], p.variables.get("AC9"))
                    yield {"tag": "complex-in-real-array", "pred": pred, "key": t, "input": {"check": "must-refuse", "text": t}}
    # reserved names declared with string and boolean LITERAL values (and matching or non-matching declared types)
    for nm in ["q0", "q12", "name", "version", "target", "type"]:
        for ty, v in [("str", '"abc"'), ("bool", "True"), ("int", '"7"'), ("str", "False"), ("bool", '"x"'), ("float", "True")]:
            t = HDR + DECLS + "%s %s = %s\nVac | 0\n" % (ty, nm, v)
            texts.append(t)
            yield {"tag": "reserved-literal-value", "text": t}
    # a name that WAS a loop variable is undefined again after its loop: used afterwards in every slot
    for slot, tmpl in SLOTS.items():
        for lv in ["m", "idx"]:
            for hdr in ["0:3", "[4, 5]"]:
                t = HDR + DECLS + "for int %s in %s\n    Vac | %s\n" % (lv, hdr, lv) + tmpl.replace("{F}", lv) + "\nVac | 3\n"
                texts.append(t)
                yield {"tag": "ended-loop-variable:" + slot, "text": t}
    # the verdict does not depend on the process environment: the same scripts in an interpreter whose working directory has been
    # removed are refused with the same exception class (and the valid ones load)
    sample = rng.sample(texts, min(len(texts), 60 if quick else 400)) + [HDR + DECLS + "Vac | 0\n", HDR + "Sgate(0.5) | 1\n"]

    def pred(impl, sample=sample):
        import subproc
        outs = subproc.run_batch([{"kind": "loads", "text": t} for t in sample], "0", "@removed")
        for t, o in zip(sample, outs):
            try:
                impl.loads(t)
                ref = ("ok", None)
            except Exception as e:  # noqa: BLE001
                ref = ("error", type(e).__name__)
            got = (o.get("out"), o.get("cls") if o.get("out") == "error" else None)
            if got != ref:
                return "in a process whose working directory no longer exists the script gives %s instead of %s: %r" % (got, ref, t[-120:])
        return None
    yield {"tag": "environment-removed-cwd", "pred": pred, "key": "environment", "input": {"check": "pred", "tag": "environment-removed-cwd"}}


def run(tier, seed):
    return loadcmp.run_property(
        PROP, tier, seed, cases, NEEDS,
        rule="fault class x syntactic slot matrix: undefined names (positional, keyword, list element, mode, array index, array name, "
             "loop list, loop body, metadata option, scalar and array declaration, nested expression) at several statement positions; "
             "reserved names qN/name/version/target/type as scalar and array names; float/complex/string modes (literal, variable, "
             "computed); literal or computed complex values into int/float scalars and arrays; loop values not of the loop type; calls of included programs with too few / too many / repeated surplus modes and missing, extra or misnamed keyword arguments; one "
             "undefined name injected into random valid scripts. The model must refuse (theorem: a non-Ok sub-result never becomes Ok) "
             "and the implementation must raise; for undefined/reserved names a BlackbirdSyntaxError naming identifier, line, column")


def replay(rep):
    if rep["input"].get("check") == "must-refuse":
        import impl
        try:
            impl.loads(rep["input"]["text"])
            print("loaded as a program")
            return 1
        except Exception as e:  # noqa: BLE001
            print("refused:", type(e).__name__)
            return 0
    return loadcmp.replay_load(PROP, rep)
