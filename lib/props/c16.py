"""C16 — the dependency graph is an order-respecting DAG of the operations."""
import random
import time

import framework as fw
from framework import Result, finish, proof_obligations

PROP = "C16"
NEEDS = ["model/Graph.v", "proofs/GraphP.v", "extract/Extract.v"]


MODEPOOL = [0, 1, 2, 10, 3, 11, 23, 12, 100, 7, 101]      # one-, two- and three-digit mode / register numbers


def gen_program(rng, maxlen=40, maxmode=8):
    n = rng.randint(0, maxlen) if rng.random() < 0.9 else rng.randint(0, 4)
    nm = rng.randint(1, maxmode)
    pool = MODEPOOL if rng.random() < 0.6 else list(range(len(MODEPOOL)))
    if rng.random() < 0.15:
        pool = [-1, 0, -2, 1, 2, -7, 3, 10, -10, 4, 5]       # any integer is a mode number, negative ones included
    lines = ["name g", "version 1.0", ""]
    for i in range(n):
        k = rng.choice([1, 1, 1, 2, 2, 3])
        modes = [pool[rng.randrange(nm)] for _ in range(k)]
        if rng.random() < 0.7:
            modes = list(dict.fromkeys(modes))
        args = []
        r = rng.random()
        if r < 0.25:
            argtext = ""
        else:
            for _ in range(rng.randint(0, 2)):
                if rng.random() < 0.35:
                    regs = [abs(pool[x]) for x in rng.sample(range(nm + 2), rng.randint(1, 2))]
                    args.append(" + ".join("q%d * %d" % (q, rng.randint(1, 3)) for q in regs))
                else:
                    args.append(rng.choice(["0.5", "1", "2.5e-1", "pi"]))
            if rng.random() < 0.3:
                if rng.random() < 0.5:
                    args.append("phi=q%d / 2" % abs(pool[rng.randrange(nm + 2)]))
                else:
                    args.append("phi=%s" % rng.choice(["0.1", "[1, 2]"]))
            elif rng.random() < 0.25:
                # several keyword arguments in any order: plain values, list values (numbers, strings, booleans) and values that read
                # measured registers - before, between and after one another
                kws = []
                for nmk in rng.sample(["select", "dark_counts", "r", "theta", "cutoff"], rng.randint(2, 4)):
                    t = rng.random()
                    if t < 0.4:
                        kws.append("%s=%s" % (nmk, rng.choice(["q%d", "2 * q%d - 1", "q%d / 4"]) % abs(pool[rng.randrange(nm + 2)])))
                    elif t < 0.75:
                        kws.append("%s=%s" % (nmk, rng.choice(["[1, 2]", "[0.5]", '["a", True]', "[]", "[3, 4, 5]"])))
                    else:
                        kws.append("%s=%s" % (nmk, rng.choice(["0.1", "7", '"s"', "True"])))
                args += kws
            argtext = "(" + ", ".join(args) + ")"
        name = rng.choice(["Sgate", "BSgate", "MeasureX", "Dgate", "Vac", "Rgate"])
        mt = ", ".join(map(str, modes))
        lines.append("%s%s | %s" % (name, argtext, mt if rng.random() < 0.5 else "[" + mt + "]"))
    return "\n".join(lines) + "\n"


def wires_of(op):
    from blackbird.listener import RegRefTransform
    w = list(op["modes"])
    for a in op.get("args", []):
        if isinstance(a, RegRefTransform):
            w += list(a.regrefs)
    for v in op.get("kwargs", {}).values():
        if isinstance(v, RegRefTransform):
            w += list(v.regrefs)
    return [int(x) for x in w]


def wires_from_text(text):
    """modes and measured registers of every statement, read off the script itself (one statement per line)"""
    import re
    out = []
    for ln in text.split("\n"):
        if " | " not in ln:
            continue
        left, right = ln.rsplit(" | ", 1)
        out.append([int(x) for x in re.findall(r"-?\d+", right)] + [int(x) for x in re.findall(r"\bq(\d+)\b", left)])
    return out


def check_graph(model, impl, text):
    """-> message or None"""
    import copy

    import networkx as nx
    from blackbird.utils import to_DiGraph
    p = impl.loads(text)
    ops = copy.deepcopy(p.operations)
    wires = wires_from_text(text)
    if len(wires) != len(p.operations):
        return "harness: %d statements, %d operations" % (len(wires), len(p.operations))
    for i, o in enumerate(p.operations):
        if sorted(set(wires_of(o))) != sorted(set(wires[i])):
            return "operation %d acts on modes / depends on registers %s, the script says %s" % (i, sorted(set(wires_of(o))), sorted(set(wires[i])))
    # the model's wires are natural numbers: integers are sent through the injection w -> 2w (w >= 0), -2w - 1 (w < 0); only the
    # equality of wires matters for the graph
    out = model.ask("DIGRAPH", ";".join(",".join(str(2 * x if x >= 0 else -2 * x - 1) for x in w) for w in wires))
    _, ns, _, es = (out.split(" ") + ["", ""])[:4] if out.startswith("N") else (None, None, None, None)
    mnodes = set(int(x) for x in ns.split(",") if x)
    medges = set(tuple(int(y) for y in x.split(">")) for x in es.split(",") if x)
    try:
        G = to_DiGraph(p)
    except Exception as e:  # noqa: BLE001
        return "to_DiGraph raises %s: %s" % (type(e).__name__, str(e)[:100])
    n = len(ops)
    if set(G.nodes) != mnodes or G.number_of_nodes() != n:
        return "node set %s, expected exactly one node per operation %s" % (sorted(G.nodes), sorted(mnodes))
    for i in range(n):
        d = G.nodes[i]
        if d.get("name") != ops[i]["op"] or tuple(d.get("modes", ())) != tuple(ops[i]["modes"]):
            return "node %d carries %r | %r, expected %r | %r" % (i, d.get("name"), d.get("modes"), ops[i]["op"], ops[i]["modes"])
        if repr(list(d.get("args", []))) != repr(list(ops[i].get("args", []))) or repr(dict(d.get("kwargs", {}))) != repr(dict(ops[i].get("kwargs", {}))):
            return "node %d carries arguments %r %r, expected %r %r" % (i, d.get("args"), d.get("kwargs"), ops[i].get("args", []), ops[i].get("kwargs", {}))
    gedges = set((int(a), int(b)) for a, b in G.edges)
    if gedges != medges:
        return "edge set differs from the consecutive-on-a-wire relation: extra %s, missing %s" % (sorted(gedges - medges)[:5], sorted(medges - gedges)[:5])
    # the graph axioms, directly on the networkx object
    for a, b in gedges:
        if not a < b:
            return "edge %d -> %d does not point from an earlier to a later operation" % (a, b)
    if not nx.is_directed_acyclic_graph(G):
        return "the graph has a cycle"
    # reachability iff chain of operations successively sharing a wire
    share = [[bool(set(wires[i]) & set(wires[j])) for j in range(n)] for i in range(n)]
    reach = [[False] * n for _ in range(n)]
    for i in range(n - 1, -1, -1):
        for j in range(i + 1, n):
            if share[i][j]:
                reach[i][j] = True
                for k in range(j + 1, n):
                    if reach[j][k]:
                        reach[i][k] = True
    for i in range(n):
        desc = nx.descendants(G, i)
        want = {j for j in range(n) if reach[i][j]}
        if desc != want:
            return "operations reachable from %d are %s, expected %s (chains sharing a mode or measured register)" % (i, sorted(desc), sorted(want))
    return None


def check_history(impl, text, vals):
    """graphs of a template and of programs instantiated from it, in several orders of building them: every graph carries the
    arguments of the program it was built from (-> message or None)"""
    from blackbird.utils import to_DiGraph
    t = impl.loads(text)

    def nodes_ok(prog, what):
        G = to_DiGraph(prog)
        if G.number_of_nodes() != len(prog.operations):
            return "%s: %d nodes for %d operations" % (what, G.number_of_nodes(), len(prog.operations))
        for i, o in enumerate(prog.operations):
            d = G.nodes[i]
            if d.get("name") != o["op"] or repr(list(d.get("args", []))) != repr(list(o.get("args", []))) \
                    or repr(dict(d.get("kwargs", {}))) != repr(dict(o.get("kwargs", {}))) or list(d.get("modes", ())) != list(o["modes"]):
                return "%s: node %d carries %r %r %r | %r, the operation is %r" % (what, i, d.get("name"), d.get("args"), d.get("kwargs"), d.get("modes"), o)
        return None
    m = nodes_ok(t, "template")
    if m:
        return m
    for k, v in enumerate(vals):
        inst = t(**v)
        m = nodes_ok(inst, "instance %d (after the graph of the template was built)" % k) or nodes_ok(t, "template again") or nodes_ok(inst, "instance %d again" % k)
        if m:
            return m
    return None


def topo_pred(impl, text, rng):
    import networkx as nx
    from blackbird.utils import to_DiGraph
    p = impl.loads(text)
    wires = wires_from_text(text)
    G = to_DiGraph(p)
    if not nx.is_directed_acyclic_graph(G):
        return "cycle"
    # a random topological order (random tie-breaking)
    order = list(nx.lexicographical_topological_sort(G, key=lambda x: rng.random()))
    pos = {v: k for k, v in enumerate(order)}
    n = len(wires)
    for i in range(n):
        for j in range(i + 1, n):
            if set(wires[i]) & set(wires[j]) and not pos[i] < pos[j]:
                return "a topological order places operation %d before %d although they share a mode" % (j, i)
    return None


def run(tier, seed):
    res = Result(PROP, tier, seed)
    rng = random.Random(seed)
    status = fw.build()
    proof_obligations(res, status, "props/C16.v", NEEDS, translators=())
    quick = tier == "quick"
    if status.bbmodel_ok:
        import impl
        model = fw.Model()
        ok = True
        n = 400 if quick else 40000
        t_end = time.time() + (70 if quick else 1500)
        cases = []
        # exhaustive: all op lists of length <= 3 over 2 modes (single- and two-mode ops) in thorough; sample in quick
        small = []
        opts = ["0", "1", "0, 1", "1, 0"]
        for a in opts:
            small.append([a])
            for b in opts:
                small.append([a, b])
                for c in opts:
                    small.append([a, b, c])
        if quick:
            small = rng.sample(small, 30)
        for ms in small:
            cases.append(("exhaustive-small", "name g\nversion 1.0\n" + "".join("Op%d | %s\n" % (i, m) for i, m in enumerate(ms))))
        for _ in range(n):
            cases.append(("random", gen_program(rng, 40 if rng.random() < 0.7 else 12)))
        for tag, text in cases:
            if time.time() > t_end:
                res.extra["stopped_by_time_budget"] = True
                break
            try:
                msg = check_graph(model, impl, text) or topo_pred(impl, text, rng)
            except fw.ModelError as e:
                res.oblige("model answers DIGRAPH", "correspondence", False, str(e)[:200])
                break
            res.case(text, text.count("|") >= 2, {"script": text} if len(res.samples) < 3 and len(text) < 300 else None)
            res.count(tag)
            if msg:
                ok = False
                res.violate("to_DiGraph: " + msg, {"check": "graph", "text": text})
                if len(res.violations) >= 5:
                    break
        # graphs along a history: template -> graph -> instantiate -> graph (a graph belongs to the program it was built from)
        for k in range(30 if quick else 1000):
            pars = rng.sample(["alpha", "beta", "y", "r"], rng.randint(1, 2))
            lines = ["name g", "version 1.0", ""]
            for j in range(rng.randint(2, 6)):
                q = rng.choice(pars)
                lines.append(rng.choice(["Sgate({%s}, 0.1) | %d", "Dgate(0.5, phi=2 * {%s}) | %d", "Rgate({%s} + 1) | %d", "MeasureX | %d", "Zgate(2 * q0, {%s}) | %d"]).replace("{%s}", "{" + q + "}") % rng.randrange(3))
            for q in pars:
                lines.append("Rgate({%s}) | 0" % q)
            text = "\n".join(lines) + "\n"
            vals = [{q: round(rng.uniform(0.1, 2.0), 3) for q in pars} for _ in range(2)]
            try:
                msg = check_history(impl, text, vals)
            except Exception as e:  # noqa: BLE001
                msg = None
                res.count("history-skipped:%s" % type(e).__name__)
            res.case(text + repr(vals), True, None)
            res.count("template-history")
            if msg:
                ok = False
                res.violate("to_DiGraph: " + msg, {"check": "history", "text": text, "values": vals})
                break
        res.oblige("correspondence: to_DiGraph = model edges/nodes and the graph axioms hold on every generated program", "correspondence", ok)
        model.close()
    else:
        res.oblige("model binary available", "correspondence", False)
    return finish(res, level="proof", trusted=fw.TRUSTED_COMMON + ["networkx DiGraph / descendants / topological sort"],
                  rule="random programs (length <= 40, <= 8 modes, multi-mode operations, operations without arguments, register "
                       "transforms in positional and keyword position) and small exhaustive operation lists; node set, node attributes and "
                       "edge set compared with the extracted model (edges = consecutive operations on a wire, proved equivalent to Consec); "
                       "acyclicity, forward edges, reachability = chains sharing a wire, and a random topological order checked on the "
                       "networkx object; non-trivial = >= 2 operations")


def replay(rep):
    import impl
    fw.build()
    model = fw.Model()
    if rep["input"].get("check") == "history":
        msg = check_history(impl, rep["input"]["text"], rep["input"]["values"])
        print(msg)
        return 1 if msg else 0
    msg = check_graph(model, impl, rep["input"]["text"])
    print(msg)
    return 1 if msg else 0
