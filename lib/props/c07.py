"""C07 — calling an included program equals inlining it with renamed modes."""
import os
import random
import shutil
import tempfile
import time

import framework as fw
import observe
from framework import Result, finish, proof_obligations

PROP = "C07"
NEEDS = ["model/Values.v", "model/Eval.v", "model/Loader.v", "proofs/LoadP.v", "extract/Extract.v"]
GATES = ["Sgate", "Dgate", "BSgate", "Rgate", "Vac", "Kgate", "MeasureX"]


class Sub:
    def __init__(self, name, relpath, modes, params, stmts, includes):
        self.name, self.relpath, self.modes, self.params, self.stmts, self.includes = name, relpath, modes, params, stmts, includes


def val(x):
    return repr(x) if isinstance(x, float) else str(x)


def gen_layout(rng, depth=2):
    """returns dict name -> Sub for a tree of subroutines, and the list of leaf-to-root order"""
    dirs = ["", "lib", "a", "a/b", "lib/x"]
    subs = {}
    order = []
    crossed = rng.random() < 0.25      # a caller with the SAME parameter names passes them crosswise
    nleaf = rng.randint(1, 3)
    for k in range(nleaf):
        name = "leaf%d" % k
        modes = sorted(rng.sample([0, 1, 2, 3, 5, 8, 9, 16, 17, 20, 24, 33, 100], rng.randint(1, 3)))
        params = rng.sample(["x", "phi", "ab", "a"], 2 if crossed else rng.randint(0, 2))
        stmts = []
        mlist = list(modes)
        rng.shuffle(mlist)
        for m in mlist:                       # every mode is used; statement order is arbitrary
            args = []
            for _ in range(rng.randint(0, 2)):
                if len(params) == 2 and rng.random() < 0.4:
                    # one argument mentioning both parameters (bound simultaneously, not one after the other)
                    args.append(rng.choice(["3 * {%s} - {%s}", "{%s} + 2 * {%s}", "{%s} * {%s} + {%s}" % ("%s", "%s", params[0])]) % tuple(rng.sample(params, 2)))
                elif params and rng.random() < 0.6:
                    p = rng.choice(params)
                    args.append(rng.choice(["{%s}", "2 * {%s}", "{%s} + 0.5", "{%s} / 4"]) % p)
                else:
                    args.append(rng.choice(["0.5", "1", "pi / 2", "3"]))
            other = rng.choice(modes)
            ms = [m] if other == m or rng.random() < 0.5 else [m, other]
            stmts.append(("op", rng.choice(GATES), args, ms))
        # make sure every parameter occurs
        for p in params:
            if not any("{%s}" % p in a for s in stmts for a in s[2]):
                stmts.append(("op", "Rgate", ["{%s}" % p], [modes[0]]))
        subs[name] = Sub(name, os.path.join(rng.choice(dirs), name + ".xbb"), modes, params, stmts, [])
        order.append(name)
    nmid = rng.randint(0, 2) if depth >= 2 else 0
    if crossed:
        nmid = max(nmid, 1)
    for k in range(nmid):
        name = "mid%d" % k
        uses = rng.sample(order[:nleaf], rng.randint(1, min(2, nleaf)))
        modes = sorted(rng.sample([0, 1, 2, 4, 6, 9, 12, 40], rng.randint(2, 4)))
        # parameter names of the caller may coincide with (other) parameter names of the called template
        params = rng.sample(["t", "s", "x", "phi", "a"], rng.randint(0, 2))
        if crossed:
            params = list(subs[uses[0]].params)
        stmts = []
        for u in uses:
            su = subs[u]
            for _ in range(rng.randint(1, 2)):
                if len(modes) < len(su.modes):
                    continue
                call_modes = rng.sample(modes, len(su.modes))
                kw = {}
                if crossed and len(params) == 2 and set(su.params) == set(params):
                    a, b = su.params
                    kw[a] = rng.choice(["{%s}", "2 * {%s}", "{%s} + 1"]) % b
                    kw[b] = rng.choice(["{%s}", "3 * {%s}", "{%s} - 1", "{%s} + {%s}" % ("%s", b)]) % a
                    stmts.append(("call", u, call_modes, kw))
                    continue
                for p in su.params:
                    if params and rng.random() < 0.5:
                        q = rng.choice(params)
                        kw[p] = rng.choice(["{%s}", "2 * {%s}", "{%s} + 1", "{%s} / 2"]) % q
                        if len(params) == 2 and rng.random() < 0.3:
                            kw[p] += " + {%s}" % params[1 - params.index(q)]
                    else:
                        kw[p] = rng.choice([0.25, 1.5, 2, 3])
                stmts.append(("call", u, call_modes, kw))
        for m in modes:
            stmts.append(("op", rng.choice(GATES), [rng.choice(["0.1", "2"])] + (["{%s}" % params[0]] if params else []), [m]))
        for q in params[1:]:
            stmts.append(("op", "Rgate", ["{%s}" % q], [modes[0]]))
        others = [o for o in order[:nleaf] if o not in uses]
        if others and rng.random() < 0.35:
            # a plain (native) operation that merely has the NAME of a program which this file does not include (but a
            # file including this one may): included files see only their own includes
            o = rng.choice(others)
            k = min(len(subs[o].modes), len(modes))
            stmts.append(("op", o, [], rng.sample(modes, k)))
        rng.shuffle(stmts)
        subs[name] = Sub(name, os.path.join(rng.choice(dirs), name + ".xbb"), modes, params, stmts, uses)
        order.append(name)
    return subs, order


def rel_include(rng, from_rel, to_rel, root):
    """text of an include path from file from_rel to file to_rel: relative (possibly through ..), or absolute"""
    fd = os.path.dirname(from_rel)
    r = rng.random()
    if r < 0.2:
        return os.path.join(root, to_rel)
    rel = os.path.relpath(os.path.join("/R", to_rel), os.path.join("/R", fd))
    if r < 0.4 and fd:
        # a detour through ..
        rel = os.path.join("..", os.path.basename(fd), rel) if "/" not in fd else rel
    return rel


def file_text(rng, sub, subs, root):
    lines = ["name %s" % sub.name, "version 1.0"]
    incs = []
    for u in sub.includes:
        incs.append('include "%s"' % rel_include(rng, sub.relpath, subs[u].relpath, root))
    if incs and rng.random() < 0.3:
        incs.append(incs[0])          # a repeated include line
    lines += incs
    lines.append("")
    for s in sub.stmts:
        if s[0] == "op":
            a = "(%s)" % ", ".join(s[2]) if s[2] or rng.random() < 0.5 else ""
            lines.append("%s%s | %s" % (s[1], a, ", ".join(map(str, s[3])) if rng.random() < 0.5 else "[%s]" % ", ".join(map(str, s[3]))))
        else:
            kw = ", ".join("%s=%s" % (k, v if isinstance(v, str) else val(v)) for k, v in s[3].items())
            lines.append("%s%s | %s" % (s[1], "(%s)" % kw if s[3] else "", "[%s]" % ", ".join(map(str, s[2]))))
    return "\n".join(lines) + "\n"


def inline(sub, subs, call_modes, sigma):
    """operation lines of `sub` applied to call_modes with parameter texts sigma (dict name -> text)"""
    mm = dict(zip(sorted(sub.modes), call_modes))
    out = []
    for s in sub.stmts:
        if s[0] == "op":
            args = []
            for a in s[2]:
                for p, t in sigma.items():
                    a = a.replace("{%s}" % p, "(%s)" % t)
                args.append(a)
            has = bool(s[2])
            out.append(("%s(%s)" % (s[1], ", ".join(args)) if True else s[1], [mm[m] for m in s[3]]))
        else:
            inner = subs[s[1]]
            sg = {}
            for k, v in s[3].items():
                t = v if isinstance(v, str) else val(v)
                for p, tt in sigma.items():
                    t = t.replace("{%s}" % p, "(%s)" % tt)
                sg[k] = t
            out += inline(inner, subs, [mm[m] for m in s[2]], sg)
    return out


def main_case(rng, root):
    subs, order = gen_layout(rng)
    files = {}
    for name in order:
        files[os.path.join(root, subs[name].relpath)] = file_text(rng, subs[name], subs, root)
    main_rel = os.path.join(rng.choice(["", "a", "progs"]), "main.xbb")
    lines = ["name main", "version 1.0"]
    hdr_extra = []
    if rng.random() < 0.3:
        # the including script is a template itself: a parameter in its target / type options, before the include lines
        hdr_extra = [rng.choice(["target gaussian (shots={nshots})", "type mytype (copies={ncopies}, depth=2)", "target dev (shots={nshots}, cutoff={nshots})"])]
        lines += hdr_extra
    used = rng.sample(order, rng.randint(1, len(order)))
    for u in used:
        lines.append('include "%s"' % rel_include(rng, main_rel, subs[u].relpath, root))
    if rng.random() < 0.3:
        lines.append(lines[-1])
    lines.append("")
    inl = ["name main", "version 1.0"] + hdr_extra + [""]
    pool = [0, 1, 2, 3, 4, 5, 6, 7, 8, 9]
    prev_kw = {}
    for u in used:
        su = subs[u]
        for _ in range(rng.randint(1, 3)):
            cm = rng.sample(pool, len(su.modes))
            if rng.random() < 0.3:
                # the program applied to its OWN modes, in every order (increasing, reversed, the iteration order of the set, shuffled)
                own = sorted(su.modes)
                cm = rng.choice([own, own[::-1], list(set(own)), rng.sample(own, len(own))])
            kw = {p: rng.choice([0.5, 1.25, 2, 7, 1, 1.0, 2.0, 0.0, 0]) for p in su.params}
            if prev_kw.get(u) and set(prev_kw[u]) == set(kw) and rng.random() < 0.5:
                # the same call again with values that Python calls equal but that are other Blackbird values (1 / 1.0, 0 / 0.0)
                kw = {p: (float(v) if isinstance(v, int) else (int(v) if float(v).is_integer() else v)) for p, v in prev_kw[u].items()}
            prev_kw[u] = dict(kw)
            kws = ", ".join("%s=%s" % (k, val(v)) for k, v in kw.items())
            lines.append("%s%s | %s" % (u, "(%s)" % kws if kw else "", "[%s]" % ", ".join(map(str, cm))))
            for text, ms in inline(su, subs, cm, {k: val(v) for k, v in kw.items()}):
                inl.append("%s | [%s]" % (text, ", ".join(map(str, ms))))
        if rng.random() < 0.5:
            st = "Vac | %d" % rng.choice(pool)
            lines.append(st)
            inl.append(st)
    files[os.path.join(root, main_rel)] = "\n".join(lines) + "\n"
    return files, os.path.join(root, main_rel), "\n".join(inl) + "\n", subs, used


def regref_digest(p):
    """operations with register transforms described by their text, registers and values at fixed measurement results"""
    from blackbird import RegRefTransform

    def d(v):
        if isinstance(v, RegRefTransform):
            pts = []
            for k in range(2):
                vals = [0.37 + 0.61 * r + 0.29 * k for r in v.regrefs]
                try:
                    pts.append(round(float(v.func(*vals)), 9))
                except Exception as e:  # noqa: BLE001
                    pts.append(type(e).__name__)
            return ("transform", sorted(v.regrefs), sorted(zip(v.regrefs, [0.37 + 0.61 * r for r in v.regrefs]))[:0], pts)
        if isinstance(v, list):
            return [d(x) for x in v]
        return (type(v).__name__, repr(v))
    return [(o["op"], [d(a) for a in o.get("args", [])], sorted((k, d(v)) for k, v in o.get("kwargs", {}).items()), [int(m) for m in o["modes"]]) for o in p.operations]


def regref_case(rng, root):
    """an included template whose parameters are used bare ({p}) and a call that binds them to measured registers or
    expressions over them: the same as writing the register expression at that place of the inlined operation"""
    ps = rng.sample(["p", "phi", "gain", "th", "w"], rng.randint(1, 3))
    modes = sorted(rng.sample([0, 1, 2, 5, 9], rng.randint(1, 3)))
    forms = ["Zgate({%s}) | %d", "Kgate(k={%s}) | %d", "Dgate(0.5, {%s}) | %d", "Rgate(phi={%s}) | %d"]
    stmts = []
    for q in ps:
        for _ in range(rng.randint(1, 2)):
            stmts.append((rng.choice(forms), q, rng.choice(modes)))
    for m in modes:
        stmts.append(("Vac%s | %d", None, m))
    if rng.random() < 0.6:
        # a register expression written INSIDE the included program: registers are measurement results, not wires of the
        # subroutine, and are delivered as written whatever modes the call names
        stmts.append(("Xgate(2 * q%d + 1%%s) | %%d" % rng.choice(modes), None, rng.choice(modes)))
    rng.shuffle(stmts)
    sub_text = "name Feed\nversion 1.0\n\n" + "".join((f % (q, m) if q else f % ("", m)) + "\n" for f, q, m in stmts)
    regs = rng.sample([3, 4, 6, 7, 8, 10, 12] + modes + modes, 2)       # (often registers numbered like the subroutine's own modes)
    lines = ["name main", "version 1.0", 'include "feed.xbb"', ""] + ["MeasureX | %d" % r for r in regs]
    inl = ["name main", "version 1.0", ""] + ["MeasureX | %d" % r for r in regs]
    for _ in range(rng.randint(1, 3)):
        cm = rng.sample([0, 1, 2, 5, 9, 11], len(modes))
        mm = dict(zip(modes, cm))
        vals = {q: rng.choice(["q%d" % regs[0], "2 * q%d + 1" % regs[1], "q%d - q%d" % (regs[0], regs[1]), "q%d / 4" % regs[1], "0.25", "3"]) for q in ps}
        lines.append("Feed(%s) | [%s]" % (", ".join("%s=%s" % kv for kv in vals.items()), ", ".join(map(str, cm))))
        for f, q, m in stmts:
            inl.append(f.replace("{%s}", "(%s)") % (vals[q], mm[m]) if q else f % ("", mm[m]))
    return {os.path.join(root, "feed.xbb"): sub_text, os.path.join(root, "main.xbb"): "\n".join(lines) + "\n"}, os.path.join(root, "main.xbb"), "\n".join(inl) + "\n"


def write_files(files):
    for p, t in files.items():
        os.makedirs(os.path.dirname(p), exist_ok=True)
        with open(p, "w") as f:
            f.write(t)


def ops_digest(p):
    out = []
    for o in p.operations:
        args = [complex(a) if not isinstance(a, (str, bool)) else a for a in o.get("args", [])]
        out.append((o["op"], args, sorted((k, complex(v) if not isinstance(v, (str, bool, list)) else repr(v)) for k, v in o.get("kwargs", {}).items()), [int(m) for m in o["modes"]]))
    return out


def kinds_digest(p):
    """numeric kind (int / float / complex) of every argument: inlining and calling must agree on these too
    (1, 1.0 and True are different Blackbird values although Python calls them equal)"""
    import math

    import roundtrip
    out = []
    for o in p.operations:
        row = []
        for a in list(o.get("args", [])) + [v for _, v in sorted(o.get("kwargs", {}).items())]:
            row.append(roundtrip.kind(a))      # (signs of computed zeros legitimately differ between numpy and the lambdified function)
        out.append(row)
    return out


def close_digest(a, b):
    if len(a) != len(b):
        return False
    for x, y in zip(a, b):
        if x[0] != y[0] or x[3] != y[3] or len(x[1]) != len(y[1]):
            return False
        for u, v in zip(x[1], y[1]):
            if isinstance(u, complex) and isinstance(v, complex):
                if abs(u - v) > 1e-9 * max(1, abs(u)):
                    return False
            elif u != v:
                return False
    return True


def symlink_case(rng, root):
    """a directory of the layout is a symbolic link: "lib/chip.xbb" includes "../common/mz.xbb", which the file system resolves
    from the link's TARGET; a decoy of the same name sits where a textual normalisation of the path would look (-> message or None)"""
    import blackbird
    vend = os.path.join(root, "vendor", "libs")
    proj = os.path.join(root, "proj")
    os.makedirs(os.path.join(vend, "v2"))
    os.makedirs(os.path.join(vend, "common"))
    os.makedirs(os.path.join(proj, "common"))
    a, b = rng.choice([0.25, 0.5, 0.75]), rng.choice([0.1, 0.2])
    open(os.path.join(vend, "common", "mz.xbb"), "w").write("name MZ\nversion 1.0\nBSgate(%s, {phi}) | [0, 1]\nRgate({phi}) | 1\n" % b)
    open(os.path.join(proj, "common", "mz.xbb"), "w").write("name MZ\nversion 1.0\nRgate({phi}) | 0\nBSgate(%s, 0.25) | [0, 1]\n" % b)
    open(os.path.join(vend, "v2", "chip.xbb"), "w").write('name Chip\nversion 1.0\ninclude "../common/mz.xbb"\nSgate(%s) | 3\nMZ(phi=%s) | [5, 3]\n' % (a, a))
    os.symlink(os.path.join(vend, "v2"), os.path.join(proj, "lib"))
    open(os.path.join(proj, "main.xbb"), "w").write('name main\nversion 1.0\ninclude "lib/chip.xbb"\nChip | [2, 4]\nVac | 0\n')
    want = "name main\nversion 1.0\nSgate(%s) | 2\nBSgate(%s, %s) | [4, 2]\nRgate(%s) | 2\nVac | 0\n" % (a, b, a, a)
    try:
        p = blackbird.load(os.path.join(proj, "main.xbb"))
    except Exception as e:  # noqa: BLE001
        return "a layout with a symbolic link fails to load: %s: %s" % (type(e).__name__, str(e)[:120])
    if not close_digest(ops_digest(p), ops_digest(blackbird.loads(want))):
        return "include through a symbolic link: %s, expected %s" % (ops_digest(p), ops_digest(blackbird.loads(want)))
    return None


def file_symlink_case(rng, root):
    """a script FILE that is a symbolic link to a file in another directory (the main script, or an included one): its include
    lines are relative to the including file as it is NAMED (the directory the link sits in), where the intended sub-program
    lies; a different program of the same name sits next to the link's target (-> message or None)"""
    import blackbird
    proj, shared = os.path.join(root, "project"), os.path.join(root, "shared")
    os.makedirs(os.path.join(proj, "parts"))
    os.makedirs(shared)
    a = rng.choice([0.25, 0.5, 0.75])
    open(os.path.join(proj, "sub.xbb"), "w").write("name Sub\nversion 1.0\nRgate({t}) | 3\nBSgate({t}, 0.5) | [7, 3]\n")
    open(os.path.join(proj, "parts", "sub.xbb"), "w").write("name Sub\nversion 1.0\nRgate({t}) | 3\nBSgate({t}, 0.5) | [7, 3]\n")
    open(os.path.join(shared, "sub.xbb"), "w").write("name Sub\nversion 1.0\nSgate({t}) | 7\nSgate({t}) | 3\n")
    open(os.path.join(shared, "top_v1.xbb"), "w").write('name top\nversion 1.0\ninclude "sub.xbb"\nSub(t=%s) | [5, 2]\nSub(t=0.125) | [2, 5]\n' % a)
    open(os.path.join(shared, "mid_v1.xbb"), "w").write('name Mid\nversion 1.0\ninclude "sub.xbb"\nSub(t=%s) | [0, 1]\n' % a)
    os.symlink(os.path.join("..", "shared", "top_v1.xbb"), os.path.join(proj, "top.xbb"))
    os.symlink(os.path.join(shared, "mid_v1.xbb"), os.path.join(proj, "parts", "mid.xbb"))
    open(os.path.join(proj, "outer.xbb"), "w").write('name outer\nversion 1.0\ninclude "parts/mid.xbb"\nMid | [4, 6]\nVac | 0\n')
    want_top = "name top\nversion 1.0\nRgate(%s) | 5\nBSgate(%s, 0.5) | [2, 5]\nRgate(0.125) | 2\nBSgate(0.125, 0.5) | [5, 2]\n" % (a, a)
    want_outer = "name outer\nversion 1.0\nRgate(%s) | 4\nBSgate(%s, 0.5) | [6, 4]\nVac | 0\n" % (a, a)
    old = os.getcwd()
    try:
        for cwd, given, want in ((root, os.path.join(proj, "top.xbb"), want_top), (proj, "top.xbb", want_top), (root, os.path.join("project", "top.xbb"), want_top),
                                 (shared, os.path.join(proj, "outer.xbb"), want_outer), (proj, "outer.xbb", want_outer)):
            os.chdir(cwd)
            try:
                p = blackbird.load(given)
            except Exception as e:  # noqa: BLE001
                return "a script reached through a symbolic link to a file (%s) fails to load: %s: %s" % (given.replace(root, "<root>"), type(e).__name__, str(e)[:120])
            if not close_digest(ops_digest(p), ops_digest(blackbird.loads(want))):
                return "includes of a script file that is a symbolic link (%s) are not resolved next to the including file as named: %s, expected %s" % (
                    given.replace(root, "<root>"), ops_digest(p)[:2], ops_digest(blackbird.loads(want))[:2])
    finally:
        os.chdir(old)
    return None


def run(tier, seed):
    res = Result(PROP, tier, seed)
    rng = random.Random(seed)
    status = fw.build()
    proof_obligations(res, status, "props/C07.v", NEEDS)
    quick = tier == "quick"
    stats = {}
    scratch = tempfile.mkdtemp(prefix="bbverif.", dir="/var/tmp")
    old_cwd = os.getcwd()
    try:
        if status.bbmodel_ok:
            import blackbird
            import impl
            model = fw.Model()
            ok = True
            n = 60 if quick else 2000
            t_end = time.time() + (70 if quick else 1500)
            for i in range(n):
                if time.time() > t_end:
                    res.extra["stopped_by_time_budget"] = True
                    break
                root = os.path.join(scratch, "L%d" % i)
                files, main_path, inlined, subs, used = main_case(rng, root)
                write_files(files)
                os.makedirs(os.path.join(root, "elsewhere"), exist_ok=True)
                # decoys: files with the same RELATIVE spelling as every relative include, but relative to the working
                # directories (a different program of the same name): includes are relative to the including file only
                import re as _re
                decoy_dirs = [os.path.join(root, "elsewhere"), root]
                for ftext in list(files.values()):
                    for inc in _re.findall(r'include "([^"]+)"', ftext):
                        if os.path.isabs(inc):
                            continue
                        for dd in decoy_dirs:
                            dp = os.path.normpath(os.path.join(dd, inc))
                            if dp in files or os.path.exists(dp) or not dp.startswith(root):
                                continue
                            nm = os.path.splitext(os.path.basename(inc))[0]
                            real = subs.get(nm)
                            if real is None:
                                continue
                            os.makedirs(os.path.dirname(dp), exist_ok=True)
                            with open(dp, "w") as fh:
                                fh.write("name %s\nversion 1.0\n\n" % nm + "".join("Decoy(%s) | %d\n" % (", ".join("{%s}" % q for q in real.params) or "0", m) for m in real.modes))
                cwds = [root, os.path.dirname(main_path), os.path.join(root, "elsewhere")]
                msg = None
                digests = []
                for cwd in cwds:
                    os.chdir(cwd)
                    path_given = main_path if rng.random() < 0.5 else os.path.relpath(main_path, cwd)
                    impl.reset_tables()
                    try:
                        p = blackbird.load(path_given)
                    except Exception as e:  # noqa: BLE001
                        msg = "loading a program with includes fails (cwd %s, path %s): %s: %s" % (os.path.relpath(cwd, root), path_given.replace(root, "<root>"), type(e).__name__, str(e)[:120])
                        break
                    mo = observe.model_load(model, path_given, cwd=cwd, files=files)
                    if mo["out"] == "ok":
                        d = observe.cmp_prog(mo["v"], p, stats, lax_kind=True)
                        if d:
                            msg = "program differs from the model's inlining: " + "; ".join(d[:3])
                            break
                    elif mo["out"] == "refuse":
                        msg = "the model refuses (%s) what the implementation loads" % mo["err"]
                        break
                    else:
                        res.count("model-unspec")
                    digests.append(ops_digest(p))
                if msg is None and digests:
                    impl.reset_tables()
                    pin = blackbird.loads(inlined)
                    din = ops_digest(pin)
                    if not close_digest(digests[0], din):
                        k = next((j for j, (a, b) in enumerate(zip(digests[0], din)) if not close_digest([a], [b])), min(len(din), len(digests[0])))
                        msg = "calling included programs differs from inlining them at operation %d: %s vs %s" % (k, digests[0][k] if k < len(digests[0]) else None, din[k] if k < len(din) else None)
                    elif any(not close_digest(digests[0], d) for d in digests[1:]):
                        msg = "the loaded program depends on the process working directory"
                    elif kinds_digest(p) != kinds_digest(pin):
                        ka, kb = kinds_digest(p), kinds_digest(pin)
                        k = next(j for j, (a, b) in enumerate(zip(ka, kb)) if a != b)
                        msg = "calling included programs differs from inlining them at operation %d in the kind of a number: %s vs %s (arguments %s / %s)" % (
                            k, ka[k], kb[k], p.operations[k].get("args"), pin.operations[k].get("args"))
                res.case(files[main_path] + "".join(sorted(files)), len(files) >= 2, {"main": files[main_path], "files": {k.replace(root, "<root>"): v for k, v in files.items() if k != main_path}} if len(res.samples) < 2 else None)
                res.count("layout:%d-files" % len(files))
                if msg:
                    ok = False
                    res.violate(msg, {"check": "include", "files": {k.replace(root, "<root>"): v for k, v in files.items()}, "main": main_path.replace(root, "<root>"), "inlined": inlined})
                    if len(res.violations) >= 5:
                        break
                os.chdir(scratch)
                shutil.rmtree(root, ignore_errors=True)
            # the same include STRING in two files of different directories names two different files (paths are relative to the
            # including file): both are read, in either order of the include lines
            for i in range(8 if quick else 100):
                if len(res.violations) >= 5:
                    break
                root = os.path.join(scratch, "D%d" % i)
                g1, g2, g3 = rng.sample(GATES, 3)
                order_first = i % 2 == 0
                incs = ['include "lib/chip.xbb"', 'include "util.xbb"']
                files = {
                    os.path.join(root, "util.xbb"): "name Prep\nversion 1.0\n\n%s(0.25, 0.0) | 1\n%s(0.5) | [0, 1]\n" % (g1, g2),
                    os.path.join(root, "lib", "util.xbb"): "name Helper\nversion 1.0\n\n%s(0.75) | 0\n" % g3,
                    os.path.join(root, "lib", "chip.xbb"): 'name Chip\nversion 1.0\ninclude "util.xbb"\n\nHelper | 1\n%s(0.125) | 0\n' % g1,
                    os.path.join(root, "main.xbb"): "name main\nversion 1.0\n%s\n\nChip | [4, 5]\nPrep | [3, 2]\nVac | 0\n" % "\n".join(incs if order_first else incs[::-1]),
                }
                inlined = "name main\nversion 1.0\n\n%s(0.75) | 5\n%s(0.125) | 4\n%s(0.25, 0.0) | 2\n%s(0.5) | [3, 2]\nVac | 0\n" % (g3, g1, g1, g2)
                write_files(files)
                main_path = os.path.join(root, "main.xbb")
                impl.reset_tables()
                msg = None
                try:
                    os.chdir(rng.choice([root, scratch, os.path.join(root, "lib")]))
                    p = blackbird.load(main_path)
                    impl.reset_tables()
                    if not close_digest(ops_digest(p), ops_digest(blackbird.loads(inlined))):
                        msg = "two include lines spelt alike in different directories: calling the included programs differs from inlining them: %s" % (ops_digest(p)[-3:],)
                except Exception as e:  # noqa: BLE001
                    msg = "two include lines spelt alike in different directories: loading fails: %s: %s" % (type(e).__name__, str(e)[:100])
                mo = observe.model_load(model, main_path, cwd=root, files=files)
                if msg is None and mo["out"] == "ok":
                    d = observe.cmp_prog(mo["v"], p, stats, lax_kind=True)
                    if d:
                        msg = "program differs from the model's inlining: " + "; ".join(d[:3])
                res.case(files[main_path] + "same-spelling", True, None)
                res.count("same-include-string-two-directories")
                if msg:
                    ok = False
                    res.violate(msg, {"check": "include", "files": {k.replace(root, "<root>"): v for k, v in files.items()}, "main": "<root>/main.xbb", "inlined": inlined})
                os.chdir(scratch)
                shutil.rmtree(root, ignore_errors=True)
            # include file names of every shape (no extension, other extensions, dotted directories): the file NAMED is the file
            # read, also when a sibling with a similar name (<name>.xbb, the name without its extension, ...) holds another program
            names = ["phase", "lib/ops", "lib.v2/ops", "phase.bb", "phase.txt", "phase.xbb.bak", "Phase.XBB", "sub/phase.", "phase.xbb.xbb", "x.y/z.w/ops", ".hidden", "sub/.ops"]
            rng.shuffle(names)
            for i, nm in enumerate(names[: (6 if quick else len(names))]):
                if len(res.violations) >= 5:
                    break
                root = os.path.join(scratch, "E%d" % i)
                g1, g2, g3 = rng.sample(GATES, 3)
                dn, bn = os.path.dirname(nm), os.path.basename(nm)
                stem = os.path.splitext(bn)[0]
                sibs = {bn + ".xbb", stem, stem + ".xbb", bn.lower(), bn.rstrip("."), bn + ".bb"} - {bn, ""}
                files = {os.path.join(root, "mid", nm): "name Phase\nversion 1.0\n\n%s({a}) | 0\n" % g1}
                for sb in sorted(sibs):
                    files[os.path.join(root, "mid", dn, sb)] = "name Phase\nversion 1.0\n\n%s(0.5) | 0\n%s({a}) | 0\n" % (g2, g3)
                files[os.path.join(root, "mid", "mz.xbb")] = 'name Mz\nversion 1.0\ninclude "%s"\n\nPhase(a={t}) | 1\nPhase(a=0.125) | 0\n' % nm
                files[os.path.join(root, "main.xbb")] = 'name main\nversion 1.0\ninclude "mid/mz.xbb"\n\nMz(t=0.75) | [3, 2]\nVac | 0\n'
                inlined = "name main\nversion 1.0\n\n%s(0.75) | 2\n%s(0.125) | 3\nVac | 0\n" % (g1, g1)
                write_files(files)
                main_path = os.path.join(root, "main.xbb")
                impl.reset_tables()
                msg = None
                try:
                    os.chdir(rng.choice([root, scratch, os.path.join(root, "mid")]))
                    p = blackbird.load(main_path)
                    impl.reset_tables()
                    if not close_digest(ops_digest(p), ops_digest(blackbird.loads(inlined))):
                        msg = "include \"%s\" next to similarly named files: calling the included program differs from inlining the file named: %s" % (nm, ops_digest(p)[:3])
                except Exception as e:  # noqa: BLE001
                    msg = "include \"%s\": loading fails: %s: %s" % (nm, type(e).__name__, str(e)[:100])
                mo = observe.model_load(model, main_path, cwd=root, files=files)
                if msg is None and mo["out"] == "ok":
                    d = observe.cmp_prog(mo["v"], p, stats, lax_kind=True)
                    if d:
                        msg = "program differs from the model's inlining: " + "; ".join(d[:3])
                res.case(files[main_path] + "name-shape" + nm, True, None)
                res.count("include-file-name-shapes")
                if msg:
                    ok = False
                    res.violate(msg, {"check": "include", "files": {k.replace(root, "<root>"): v for k, v in files.items()}, "main": "<root>/main.xbb", "inlined": inlined})
                os.chdir(scratch)
                shutil.rmtree(root, ignore_errors=True)
            # "nested to any depth": chains of 20 and 40 includes (beyond the fuel of the model's loader: judged against hand inlining)
            for depth in ((20,) if quick else (20, 40, 80)):
                root = os.path.join(scratch, "N%d" % depth)
                files = {}
                for k in range(1, depth + 1):
                    dpath = os.path.join(root, *["d%d" % j for j in range(1, k + 1)])
                    body = "name L%d\nversion 1.0\n" % k
                    if k < depth:
                        body += 'include "d%d/l%d.xbb"\n\nRgate(%d) | 0\nL%d | [1, 0]\n' % (k + 1, k + 1, k, k + 1)
                    else:
                        body += "\nRgate(%d) | 0\nSgate(0.5) | 1\n" % k
                    files[os.path.join(dpath, "l%d.xbb" % k)] = body
                files[os.path.join(root, "main.xbb")] = 'name main\nversion 1.0\ninclude "d1/l1.xbb"\n\nL1 | [0, 1]\n'
                write_files(files)
                exp = []
                a, b = 0, 1
                for k in range(1, depth + 1):
                    exp.append(("Rgate", float(k), a))
                    if k == depth:
                        exp.append(("Sgate", 0.5, b))
                    a, b = b, a
                msg = None
                try:
                    os.chdir(scratch)
                    impl.reset_tables()
                    p = blackbird.load(os.path.join(root, "main.xbb"))
                    got = [(o["op"], float(o["args"][0]), int(o["modes"][0])) for o in p.operations]
                    if got != exp:
                        k = next((j for j, (x, y) in enumerate(zip(got, exp)) if x != y), min(len(got), len(exp)))
                        msg = "a chain of %d nested includes differs from its inlining at operation %d: %s vs %s" % (depth, k, got[k:k + 1], exp[k:k + 1])
                except Exception as e:  # noqa: BLE001
                    msg = "loading a chain of %d nested includes fails: %s: %s" % (depth, type(e).__name__, str(e)[:120])
                res.case("nested-chain-%d" % depth, True, None)
                res.count("nested-include-chain")
                if msg:
                    ok = False
                    res.violate(msg, {"check": "include-chain", "depth": depth})
                shutil.rmtree(root, ignore_errors=True)
            # keyword arguments of an include call that are measured registers (or expressions over them)
            for i in range(25 if quick else 500):
                if len(res.violations) >= 5:
                    break
                root = os.path.join(scratch, "R%d" % i)
                files, main_path, inlined = regref_case(rng, root)
                write_files(files)
                impl.reset_tables()
                msg = None
                try:
                    p = blackbird.load(main_path)
                except Exception as e:  # noqa: BLE001
                    msg = "an include call whose keyword arguments are measured registers fails: %s: %s" % (type(e).__name__, str(e)[:120])
                if msg is None:
                    impl.reset_tables()
                    da, db = regref_digest(p), regref_digest(blackbird.loads(inlined))
                    if da != db:
                        k = next((j for j, (a, b) in enumerate(zip(da, db)) if a != b), min(len(da), len(db)))
                        msg = "an include call with measured-register arguments differs from its inlining at operation %d: %s vs %s" % (k, da[k] if k < len(da) else None, db[k] if k < len(db) else None)
                res.case(files[main_path] + files[os.path.join(root, "feed.xbb")], True, None)
                res.count("regref-valued-include-call")
                if msg:
                    ok = False
                    res.violate(msg, {"check": "include", "files": {k.replace(root, "<root>"): v for k, v in files.items()}, "main": main_path.replace(root, "<root>"), "inlined": inlined})
                shutil.rmtree(root, ignore_errors=True)
            # several loads in ONE process: same relative path strings in different directories, an include file
            # edited between two loads, and a later program that merely uses an operation named like an earlier include
            for i in range(12 if quick else 200):
                if len(res.violations) >= 5:
                    break
                base = os.path.join(scratch, "P%d" % i)
                texts = {}
                for proj in ("A", "B"):
                    g1, g2 = rng.sample(GATES, 2)
                    m1, m2 = sorted(rng.sample([1, 4, 9, 12], 2))
                    sub = "name Sub\nversion 1.0\n\n%s({x}) | %d\n%s(0.5, {x}) | [%d, %d]\n" % (g1, m1, g2, m2, m1)
                    main = 'name main\nversion 1.0\ninclude "lib/sub.xbb"\n\nSub(x=%s) | [%d, %d]\nVac | 0\nSub(x=2) | [%d, %d]\n' % (
                        rng.choice(["0.5", "1.25", "3"]), rng.randint(0, 3), rng.randint(4, 6), rng.randint(4, 6), rng.randint(0, 3))
                    texts[proj] = (sub, main, g1, g2, m1, m2)
                    os.makedirs(os.path.join(base, proj, "lib"), exist_ok=True)
                    open(os.path.join(base, proj, "lib", "sub.xbb"), "w").write(sub)
                    open(os.path.join(base, proj, "main.xbb"), "w").write(main)

                def expect(proj, base=base):
                    files = {os.path.join(base, proj, "lib", "sub.xbb"): texts[proj][0], os.path.join(base, proj, "main.xbb"): texts[proj][1]}
                    return observe.model_load(model, "main.xbb", cwd=os.path.join(base, proj), files=files)
                seqs = [("A", "B", "A"), ("B", "A")]
                msg = None
                for proj in rng.choice(seqs):
                    os.chdir(os.path.join(base, proj))
                    impl.reset_tables()
                    try:
                        p = blackbird.load("main.xbb")
                    except Exception as e:  # noqa: BLE001
                        msg = "loading project %s (relative path, after other loads in this process) fails: %s: %s" % (proj, type(e).__name__, str(e)[:100])
                        break
                    mo = expect(proj)
                    d = observe.cmp_prog(mo["v"], p, stats, lax_kind=True) if mo["out"] == "ok" else ["model: %s" % mo["out"]]
                    if d:
                        msg = "after earlier loads in the same process, project %s (same relative include path, different files) is not its inlining: %s" % (proj, "; ".join(d[:2]))
                        break
                if msg is None:
                    # edit the include file and load again through the same (absolute) path
                    pa = os.path.join(base, "A", "main.xbb")
                    os.chdir(scratch)
                    impl.reset_tables()
                    blackbird.load(pa)
                    newsub = texts["B"][0]
                    open(os.path.join(base, "A", "lib", "sub.xbb"), "w").write(newsub)
                    impl.reset_tables()
                    p = blackbird.load(pa)
                    mo = observe.model_load(model, pa, cwd=scratch, files={os.path.join(base, "A", "lib", "sub.xbb"): newsub, pa: texts["A"][1]})
                    d = observe.cmp_prog(mo["v"], p, stats, lax_kind=True) if mo["out"] == "ok" else []
                    if d:
                        msg = "an include file edited between two loads of the same path is not re-read: " + "; ".join(d[:2])
                if msg is None:
                    # a later, unrelated program using an operation called Sub (no include) must keep it as an operation
                    impl.reset_tables()
                    q = blackbird.loads("name other\nversion 1.0\nSub(x=1) | [0, 1]\n")
                    if len(q.operations) != 1 or q.operations[0]["op"] != "Sub":
                        msg = "an operation named like a program included by an EARLIER load is expanded: %r" % (q.operations,)
                res.case("history-%d" % i + texts["A"][0] + texts["B"][0], True, None)
                res.count("same-process-sequence")
                if msg:
                    ok = False
                    res.violate(msg, {"check": "include-history", "A": {"sub": texts["A"][0], "main": texts["A"][1]}, "B": {"sub": texts["B"][0], "main": texts["B"][1]}})
                os.chdir(scratch)
                shutil.rmtree(base, ignore_errors=True)
            # faults: wrong number of modes, wrong / missing keyword arguments
            nf = 0
            for i in range(30 if quick else 600):
                root = os.path.join(scratch, "F%d" % i)
                files, main_path, inlined, subs, used = main_case(rng, root)
                u = subs[used[0]]
                kind = rng.choice(["arity", "kw-extra", "kw-missing", "kw-on-plain"])
                if kind == "arity":
                    call = "%s%s | [%s]" % (u.name, "(%s)" % ", ".join("%s=1" % p for p in u.params) if u.params else "", ", ".join(map(str, range(len(u.modes) + 1))))
                elif kind == "kw-extra":
                    if not u.params:
                        continue
                    call = "%s(%s, zzz=1) | [%s]" % (u.name, ", ".join("%s=1" % p for p in u.params), ", ".join(map(str, range(len(u.modes)))))
                elif kind == "kw-missing":
                    if not u.params:
                        continue
                    call = "%s | [%s]" % (u.name, ", ".join(map(str, range(len(u.modes)))))
                else:
                    if u.params:
                        continue
                    call = "%s(zzz=1) | [%s]" % (u.name, ", ".join(map(str, range(len(u.modes)))))
                files[main_path] = files[main_path] + call + "\n"
                write_files(files)
                os.chdir(root)
                impl.reset_tables()
                mo = observe.model_load(model, main_path, cwd=root, files=files)
                try:
                    blackbird.load(main_path)
                    loaded = True
                except Exception:  # noqa: BLE001
                    loaded = False
                nf += 1
                res.count("fault:%s" % kind)
                res.case(files[main_path] + kind, True, None)
                if mo["out"] == "refuse" and loaded:
                    ok = False
                    res.violate("a call of an included program with %s is accepted" % kind, {"check": "include-fault", "files": {k.replace(root, "<root>"): v for k, v in files.items()}, "main": main_path.replace(root, "<root>")})
                os.chdir(scratch)
                shutil.rmtree(root, ignore_errors=True)
            for k in range(3 if quick else 30):
                impl.reset_tables()
                msg = symlink_case(rng, os.path.join(scratch, "SL%d" % k))
                res.case("symlink-%d" % k, True, None)
                res.count("symlink-layout")
                if msg:
                    ok = False
                    res.violate(msg, {"check": "symlink"})
                    break
            for k in range(2 if quick else 10):
                impl.reset_tables()
                msg = file_symlink_case(rng, os.path.join(scratch, "FSL%d" % k))
                res.case("file-symlink-%d" % k, True, None)
                res.count("file-symlink-layout")
                if msg:
                    ok = False
                    res.violate(msg, {"check": "file-symlink"})
                    break
            res.oblige("correspondence: load(main) = model inlining = load(inlined text), for 3 working directories; bad calls refused", "correspondence", ok)
            model.close()
        else:
            res.oblige("model binary available", "correspondence", False)
    finally:
        os.chdir(old_cwd)
        shutil.rmtree(scratch, ignore_errors=True)
    res.extra["comparison_stats"] = stats
    return finish(res, level="proof", trusted=fw.TRUSTED_COMMON + ["the operating system's path resolution (the model normalises paths lexically)"],
                  rule="directory trees with 1-3 leaf subroutines (arbitrary mode numbers, arbitrary statement order, 0-2 parameters) and 0-2 "
                       "mid-level subroutines that include and call them, a main program that includes (relative paths, .. detours, absolute "
                       "paths, repeated include lines) and calls each 1-3 times; loaded from 3 working directories with absolute or relative "
                       "file names; compared with the model (include resolution, instantiation, modes renamed in increasing order), with the "
                       "textually inlined main program, and across working directories; wrong arity / keywords must be refused")


def replay(rep):
    if rep["input"].get("check") == "file-symlink":
        import impl  # noqa: F401
        d = tempfile.mkdtemp(prefix="bbverif.", dir="/var/tmp")
        try:
            msg = file_symlink_case(random.Random(0), os.path.join(d, "FSL"))
        finally:
            shutil.rmtree(d, ignore_errors=True)
        print(msg)
        return 1 if msg else 0
    if rep["input"].get("check") == "symlink":
        import impl  # noqa: F401
        d = tempfile.mkdtemp(prefix="bbverif.", dir="/var/tmp")
        try:
            msg = symlink_case(random.Random(0), os.path.join(d, "SL"))
        finally:
            shutil.rmtree(d, ignore_errors=True)
        print(msg)
        return 1 if msg else 0
    import blackbird
    import impl
    inp = rep["input"]
    scratch = tempfile.mkdtemp(prefix="bbverif.", dir="/var/tmp")
    if inp.get("check") == "include-history":
        try:
            outs = {}
            for proj in ("A", "B"):
                os.makedirs(os.path.join(scratch, proj, "lib"))
                open(os.path.join(scratch, proj, "lib", "sub.xbb"), "w").write(inp[proj]["sub"])
                open(os.path.join(scratch, proj, "main.xbb"), "w").write(inp[proj]["main"])
            import subproc
            pristine = {}
            for proj in ("A", "B"):
                pristine[proj] = subproc.run_batch([{"kind": "load", "path": os.path.join(scratch, proj, "main.xbb")}], 0)[0]["obs"]["ops"]
            import json
            import worker
            bad = False
            for proj in ("A", "B", "A"):
                os.chdir(os.path.join(scratch, proj))
                got = worker.observe(blackbird.load("main.xbb"))["ops"]
                if json.dumps(got, sort_keys=True) != json.dumps(pristine[proj], sort_keys=True):
                    print("project %s differs from its pristine load" % proj)
                    bad = True
            return 1 if bad else 0
        finally:
            os.chdir("/verif")
            shutil.rmtree(scratch, ignore_errors=True)
    try:
        files = {k.replace("<root>", scratch): v.replace("<root>", scratch) for k, v in inp["files"].items()}
        write_files(files)
        main = inp["main"].replace("<root>", scratch)
        os.chdir(scratch)
        try:
            p = blackbird.load(main)
        except Exception as e:  # noqa: BLE001
            print("load fails:", type(e).__name__, e)
            return 1 if inp.get("check") == "include" else 0
        if inp.get("check") == "include-fault":
            print("bad call accepted")
            return 1
        impl.reset_tables()
        same = close_digest(ops_digest(p), ops_digest(blackbird.loads(inp["inlined"])))
        print("equals inlined:", same)
        return 0 if same else 1
    finally:
        os.chdir("/verif")
        shutil.rmtree(scratch, ignore_errors=True)
