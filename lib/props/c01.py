"""C01 — serialise-then-parse round trip preserves every parsed program."""
import random
import time

import framework as fw
import observe
import roundtrip
from framework import Result, finish, proof_obligations
from gen_script import Gen

PROP = "C01"
NEEDS = ["model/Values.v", "model/Eval.v", "model/Loader.v", "model/Serialize.v", "model/Unparse.v", "model/Skeleton.v", "proofs/SerializeP.v",
         "proofs/UnparseP.v", "proofs/RoundtripP.v", "extract/Extract.v", "model/Render.v", "proofs/RenderP.v", "proofs/RenderLoadP.v"]


import re
NONFINITE = re.compile(r"(?<![A-Za-z0-9_{])(inf|nan|oo|zoo)(?![A-Za-z0-9_}])")
STRINGS = re.compile(r'"[^"\n]*"')


def gen_text(rng, i):
    if i % 9 == 0:
        # tdm programs: p-arrays by name, the variable block, strings that look like p-names
        from props.c15 import tdm_script
        return tdm_script(rng, with_params=False, with_loop=(i % 2 == 0))[0]
    g = Gen(rng, allow_params=(i % 2 == 0), allow_regs=(i % 3 == 0), tdm=False)
    g.real_sym_coeffs = True
    lines = g.header() + [""]
    n = rng.randint(1, 8)
    for _ in range(n):
        r = rng.random()
        syms = rng.random() < 0.5
        if r < 0.15:
            lines.append(g.scalar_decl())
        elif r < 0.3:
            lines.append(g.array_decl(with_params=False))
        elif r < 0.42:
            lines.append(g.forloop(syms))
        else:
            lines.append(g.statement(rng.choice([1, 2, 3]), syms))
    return "\n".join(lines) + "\n"


def check_case(model, impl, text, stats, generations=3):
    """-> (message or None, dump text)"""
    import blackbird
    try:
        p = impl.loads(text)
    except Exception:  # noqa: BLE001
        return None, None             # validity of the script is judged elsewhere (C02/C11)
    cur, dumps = p, []
    for g in range(1, generations + 1):
        try:
            d = blackbird.dumps(cur)
        except Exception as e:  # noqa: BLE001
            return "generation %d: serialising a loaded program fails: %s: %s" % (g, type(e).__name__, str(e)[:120]), None
        dumps.append(d)
        if g == 1 and NONFINITE.search(STRINGS.sub('""', d)):
            # an expression of the script overflowed to inf / nan while loading: outside the property (finite values)
            stats["non_finite_program"] = stats.get("non_finite_program", 0) + 1
            return None, None
        try:
            nxt = impl.loads(d)
        except Exception as e:  # noqa: BLE001
            return "generation %d: the serialised text does not load: %s: %s" % (g, type(e).__name__, str(e)[:150]), d
        diffs = roundtrip.compare(cur, nxt, variables=(cur.programtype["name"] == "tdm"))
        if diffs:
            return "generation %d: re-loaded program differs: %s" % (g, "; ".join(diffs[:3])), d
        if g == 1:
            # correspondence: the dump, read by the MODEL, denotes the program that was serialised
            mo = observe.model_loads(model, d)
            if mo["out"] == "ok":
                md = observe.cmp_prog(mo["v"], p, stats, check_vars=False)
                if md:
                    return "the serialised text denotes (by the model) a different program: " + "; ".join(md[:3]), d
            elif mo["out"] == "refuse":
                return "the serialised text is refused by the model (%s)" % mo["err"], d
            else:
                stats["model_unspec"] = stats.get("model_unspec", 0) + 1
            import json
            # the TEXT the model writes for this program (serialise, print, render: RenderP.ser_text_roundtrip says the model reads it
            # back) is read by the IMPLEMENTATION as the same program
            mt = json.loads(model.ask("SERTEXT", observe.enc("/"), observe.enc(text)))
            if p.programtype["name"] == "tdm" and any(re.fullmatch(r"A[0-9]+", str(k_)) for k_ in p.variables):
                pass        # names like the hoisted arrays': outside the model serialiser's theorem (wf_prog.wf_vars), see below
            elif mt is None:
                stats["model_text_undefined"] = stats.get("model_text_undefined", 0) + 1
            elif NONFINITE.search(STRINGS.sub('""', mt)) is None:
                try:
                    pm = impl.loads(mt)
                except Exception as e:  # noqa: BLE001
                    return "the text the model serialiser writes for this program is refused by the implementation: %s: %s" % (type(e).__name__, str(e)[:150]), mt
                mo0 = observe.model_loads(model, text)
                dm = observe.cmp_prog(mo0["v"], pm, stats, check_vars=False) if mo0["out"] == "ok" else []
                if dm:
                    return "the text the model serialiser writes denotes (by the implementation) a different program: " + "; ".join(dm[:3]), mt
                stats["model_text_read_by_impl"] = stats.get("model_text_read_by_impl", 0) + 1
            # structural tie of the Coq serialiser to the implementation's text: same skeleton
            a = json.loads(model.ask("SERSKEL", observe.enc("/"), observe.enc(text)))
            b = json.loads(model.ask("TEXTSKEL", observe.enc(d)))
            if p.programtype["name"] == "tdm" and any(re.fullmatch(r"A[0-9]+", str(k_)) for k_ in p.variables):
                # variables named like the arrays the serialiser declares: the names it picks depend on them; the model's theorem
                # (wf_prog.wf_vars) excludes this case, the round trip above is checked all the same
                stats["skeleton_skipped_names_like_hoisted"] = stats.get("skeleton_skipped_names_like_hoisted", 0) + 1
            elif a is None:
                stats["model_serialiser_undefined"] = stats.get("model_serialiser_undefined", 0) + 1
            elif a != b:
                k = next((i for i, (x, y) in enumerate(zip(a, b or [])) if x != y), min(len(a), len(b or [])))
                return "the serialised text has a different structure than the model serialiser prescribes at item %d: %r vs model %r" % (
                    k, (b or [None] * (k + 1))[k] if b and k < len(b) else None, a[k] if k < len(a) else None), d
            else:
                stats["skeleton_agree"] = stats.get("skeleton_agree", 0) + 1
        cur = nxt
    if len(dumps) >= 3 and dumps[1] != dumps[2]:
        return "the serialisation is not stable: generation 2 and 3 texts differ", dumps[2]
    return None, dumps[0]


TRICKY = ["-({a}**2)", "-({a}**2)*{b}", "0 - {a}**2/3", "-({a}+{b})**2", "{b}**(-({a}**2))", "-(2**{a}) + {b}", "-({a}**2)*{b}*pi", "-{a}*{b}**2",
          "{a}/({b}**2) - {a}**2", "-({a}*{b})**2", "1/({a}+{b}) - {a}**2/5", "-(q0**2)*q1", "-(q0**2)/3 + q1", "(0-1)*{a}**3", "-({a}**2)/({b}**2)",
          "2j*{a} - ({a}**2)*1j", "-(q1**2)*0.5j", "{a}**2**2", "-{a}**2", "(-{a})**3", "-(-{a})**2",
          "-(0.00002**{a})", "-(1e20**{a})*3", "-(2.5**{a})*{b}", "-(pi**{a})", "{b} - 3e-9**{a}", "-(0.5**{a})/{b}", "1e-10*{a} - 1e22*{b}**2",
          "-(1e-7**q0)", "-(2.5e-5**q1)*q0", "-1.5e-8*{a}**2",
          "-((({a}+{b})*{a})**{b})", "-1*(({a}+1)**2)**{b}", "-(((q2+1)*q2)**0.5)", "0.5-((q2+1)*q2)**0.5", "-((2*({a}+{b}))**{a})*{b}", "-(sin(({a}+1)*{b})**2)",
          "(q0**2)**0.5", "(q0*q0)**0.5 + q1", "(q1**4)**0.25 * 2", "(q0**2*{a})**0.5", "(q0**2)**1.5 - q1", "(q2**-2)**0.5",
          "{I} - 8e2j", "{I}*1j + 2", "2j*{E} - {I}", "({I} / 7 + 0) * (3J - 9)", "q1*1j - {I}"]


def named_like_hoisted_text(rng):
    """a tdm program whose own arrays are called like the names the serialiser invents for array arguments (A0, A1, ...), passed in
    another order; and list values whose elements mention measured registers"""
    if rng.random() < 0.5:
        names = rng.sample(["A0", "A1", "A2", "A3", "A10"], rng.randint(2, 4))
        lines = ["name t", "version 1.0", "type tdm (temporal_modes=%d)" % rng.randint(1, 3), ""]
        for k, nm in enumerate(names):
            lines.append("float array %s =\n    %s" % (nm, ", ".join(str(rng.randint(1, 9) + 10 * k) for _ in range(2))))
        if rng.random() < 0.5:
            lines.append("float array p0 =\n    0.5, 0.25")
        if rng.random() < 0.5:
            # an argument array that equals a variable called A0 / A1 up to the sign of a zero
            ty = rng.choice(["float", "complex"])
            z = {"float": ("0.0, 1", "-0.0, 1"), "complex": ("1+0.0j, 2", "1-0.0j, 2")}[ty]
            k = rng.randint(0, 1)
            lines = [ln for ln in lines if not ln.startswith("float array A%d =" % k)]
            names = [n for n in names if n != "A%d" % k] + ["A%d" % k, "Wz"]
            lines.append("%s array A%d =\n    %s" % (ty, k, z[rng.randint(0, 1)]))
            lines.append("%s array Wz =\n    %s" % (ty, z[rng.randint(0, 1)]))
            lines.append(rng.choice(["Sgate(Wz, 0.5) | 0", "Kgate(U=Wz) | 1"]))
        if rng.random() < 0.6:
            # SCALAR variables (of every type) called like hoisted arrays, next to arrays that will be hoisted
            free = [n for n in ["A0", "A1", "A2", "A3"] if n not in names]
            for nm in rng.sample(free, min(len(free), rng.randint(1, 2))):
                lines.append(rng.choice(["float %s = 0.5", "int %s = 3", 'str %s = "lab"', "bool %s = True", "complex %s = 1+2j"]) % nm)
                if rng.random() < 0.5:
                    lines.append("Rgate(0.25, tag=%s) | 0" % nm)
            lines.append("float array Wv =\n    1, 2\n    3, 4")
            lines.append(rng.choice(["Interferometer(Wv) | [0, 1]", "Kgate(U=Wv) | 1"]))
        for _ in range(rng.randint(1, 4)):
            a, b = rng.sample(names, 2)
            lines.append(rng.choice(["Sgate(%s, 0.5) | 0\nDgate(%s) | 1", "BSgate(%s, U=%s) | [0, 1]", "Kgate(U=%s, V=%s) | 1", "Ggate(%s) | 0\nGgate(%s, 1) | 1"]) % (a, b))
        return "\n".join(lines) + "\n"
    lines = ["name t", "version 1.0", "", "MeasureX | 0", "MeasureP | 1"]
    for _ in range(rng.randint(1, 3)):
        lines.append(rng.choice(["Kgate(phi=[q0, 1]) | 2", "Dgate(0.5, l=[2 * q1 + 1, q0, 3]) | 2", "Sgate(q0, l=[q0 - q1]) | 3", "Kgate(l=[q1, {a}], k={a} + 1) | 2",
                                 "Rgate(k=[1, q0 * q1]) | 3"]))
    return "\n".join(lines) + "\n"


def kwarg_order_text(rng):
    """operations with two to four keyword arguments that mix array variables with scalars, lists and strings in every order
    (the serialiser hoists array arguments into declarations: the keyword order must survive that)"""
    lines = ["name t", "version 1.0", "", "float array U =\n    1.5, -2.0\n    0.25, 4.0", "complex array V[1, 2] =\n    1+2j, 0.5j", "int array W =\n    3, 1, 2", ""]
    vals = {"arr": ["U", "V", "W"], "other": ["0.5", "3", '"rect"', "True", "[1, 2]", "1-2j", "2 * 0.25"]}
    for _ in range(rng.randint(1, 3)):
        n = rng.randint(2, 4)
        keys = rng.sample(["tol", "U", "mesh", "a", "phi", "zeta", "B", "cutoff"], n)
        kinds = [rng.choice(["arr", "other"]) for _ in range(n)]
        if "arr" not in kinds:
            kinds[rng.randrange(1, n)] = "arr"
        kws = ["%s=%s" % (k, rng.choice(vals[kd])) for k, kd in zip(keys, kinds)]
        pos = rng.choice([[], ["0.5"], ["U"], ["1", "W"]])
        lines.append("%s(%s) | %s" % (rng.choice(["Interferometer", "Gate", "Sgate"]), ", ".join(pos + kws), rng.choice(["0", "[0, 1]", "2"])))
    return "\n".join(lines) + "\n"


def tricky_text(rng):
    lines = ["name t", "version 1.0", ""]
    for _ in range(rng.randint(1, 4)):
        e = rng.choice(TRICKY)
        form = rng.choice(["Sgate(%s) | 0", "Dgate(0.5, %s) | [0, 1]", "Rgate(phi=%s) | 2", "BSgate(%s, r=%s) | [1, 0]" ])
        lines.append(form % ((e,) * form.count("%s")))
    return "\n".join(lines) + "\n"


def run(tier, seed):
    res = Result(PROP, tier, seed)
    rng = random.Random(seed)
    status = fw.build()
    proof_obligations(res, status, "props/C01.v", NEEDS)
    quick = tier == "quick"
    stats = {}
    import impl
    for k in [k for k in fw.load_known() if k["property"] == PROP and k.get("status") == "known"]:
        model0 = None
        try:
            import blackbird
            p = impl.loads(k["witness"])
            q = impl.loads(blackbird.dumps(p))
            if roundtrip.compare(p, q):
                res.known.append("%s: %s" % (k["id"], k["what"]))
        except Exception as e:  # noqa: BLE001
            res.known.append("%s: %s -> %s" % (k["id"], k["what"], type(e).__name__))
    if status.bbmodel_ok:
        model = fw.Model()
        ok = True
        n = 400 if quick else 20000
        t_end = time.time() + (75 if quick else 1500)
        for i in range(n):
            if time.time() > t_end:
                res.extra["stopped_by_time_budget"] = True
                break
            try:
                text = tricky_text(rng) if i % 8 == 7 else kwarg_order_text(rng) if i % 16 == 5 else named_like_hoisted_text(rng) if i % 16 == 3 else gen_text(rng, i)
            except Exception:  # noqa: BLE001
                continue
            try:
                msg, d = check_case(model, impl, text, stats)
            except fw.ModelError as e:
                res.oblige("model answers", "correspondence", False, str(e)[:200])
                break
            res.case(text, text.count("\n") >= 5, {"script": text, "dump": d} if len(res.samples) < 3 and len(text) < 500 else None)
            res.count("script")
            if msg:
                ok = False
                res.violate(msg, {"check": "roundtrip", "text": text, "dump": d})
                if len(res.violations) >= 5:
                    break
        res.oblige("correspondence: loads(dumps(p)) == p for 3 generations, and the model reads the dump as p", "correspondence", ok)
        model.close()
    else:
        res.oblige("model binary available", "correspondence", False)
    res.extra["comparison_stats"] = stats
    return finish(res, level="proof", trusted=fw.TRUSTED_COMMON + ["CPython float repr round-trips (shortest repr); sympy's printer re-parses to an equal expression (checked per case at sample points)"],
                  rule="valid scripts (typed variables, arrays, expressions, keyword/list arguments, loops, template parameters with overlapping names, "
                       "measured-register arguments, target/type options); p = loads(s); three generations of dumps/loads must each reproduce the "
                       "program exactly (numbers, booleans, strings, lists, arrays) or up to 1e-9 at sample points (symbolic), generation 2 and 3 "
                       "dumps must be identical texts, and the model's reading of the first dump must equal p")


def replay(rep):
    import impl
    fw.build()
    model = fw.Model()
    msg, _ = check_case(model, impl, rep["input"]["text"], {})
    print(msg)
    return 1 if msg else 0
