"""C09 — programs assembled through the API serialise to valid, equivalent scripts."""
import random
import time

import numpy as np
import sympy as sym

import framework as fw
import observe
import roundtrip
from framework import Result, finish, proof_obligations

PROP = "C09"
NEEDS = ["model/Values.v", "model/Eval.v", "model/Loader.v", "model/Serialize.v", "model/Unparse.v", "model/Skeleton.v", "proofs/SerializeP.v",
         "proofs/UnparseP.v", "proofs/RoundtripP.v", "extract/Extract.v", "model/Render.v", "proofs/RenderP.v", "proofs/RenderLoadP.v"]
EXTREME_F = [0.0, -0.0, 1.0, -1.5, 5e-324, 2.2250738585072014e-308, 1e300, -1e300, 1e-300, 1.7976931348623157e308, 0.1, 1 / 3, 123456789.123456789, 1e22, 1e-7, 1e16]
EXTREME_I = [0, 1, -1, 7, 2 ** 31, -2 ** 31, 2 ** 53 + 1, 2 ** 62, -(2 ** 62)]


def scalar(rng, flavour=None):
    """a supported scalar value in Python or numpy flavour"""
    k = rng.choice(["int", "float", "complex", "bool", "str"])
    np_fl = rng.random() < 0.5 if flavour is None else flavour
    if k == "int":
        v = rng.choice(EXTREME_I) if rng.random() < 0.3 else rng.randint(-50, 50)
        return np.int64(v) if np_fl else int(v)
    if k == "float":
        v = rng.choice(EXTREME_F) if rng.random() < 0.4 else round(rng.uniform(-10, 10), rng.randint(0, 12))
        return np.float64(v) if np_fl else float(v)
    if k == "complex":
        re = rng.choice(EXTREME_F) if rng.random() < 0.3 else round(rng.uniform(-5, 5), 3)
        im = rng.choice(EXTREME_F) if rng.random() < 0.3 else round(rng.uniform(-5, 5), 3)
        return np.complex128(complex(re, im)) if np_fl else complex(re, im)
    if k == "bool":
        b = rng.random() < 0.5
        return np.bool_(b) if np_fl else b
    return rng.choice(["fock", "a b", "", "x#y", "p0", "1+2", "name", "sin(1)", "é"])


_RECENT = []


def array(rng):
    # now and then: the same elements as an earlier array in another shape (1xN vs Nx1 vs reshaped), or the very same array
    if _RECENT and rng.random() < 0.35:
        a = rng.choice(_RECENT)
        n = a.size
        shapes = [(r, n // r) for r in range(1, n + 1) if n % r == 0]
        b = a.reshape(rng.choice(shapes)).copy()
        if rng.random() < 0.3:
            b = a.T.copy()
        return b
    a = _array(rng)
    _RECENT.append(a)
    del _RECENT[:-4]
    r = rng.random()
    if r < 0.3:
        # the same logical array in another memory layout: a transposed view, Fortran order, reversed / strided views
        a = rng.choice([lambda x: x.T, np.asfortranarray, lambda x: x[::-1], lambda x: x[:, ::-1], lambda x: x.T.conj() if x.dtype.kind == "c" else x.T,
                        lambda x: np.repeat(np.repeat(x, 2, axis=0), 2, axis=1)[::2, ::2]])(a)
    return a


def _array(rng):
    r, c = rng.randint(1, 4), rng.randint(1, 4)
    k = rng.choice(["int", "float", "complex"])
    if k == "int":
        return np.array([[rng.choice(EXTREME_I) if rng.random() < 0.3 else rng.randint(-9, 9) for _ in range(c)] for _ in range(r)], dtype=np.int64)
    if k == "float":
        return np.array([[rng.choice(EXTREME_F) if rng.random() < 0.4 else round(rng.uniform(-9, 9), 4) for _ in range(c)] for _ in range(r)], dtype=np.float64)
    return np.array([[complex(rng.choice(EXTREME_F) if rng.random() < 0.3 else round(rng.uniform(-9, 9), 2),
                              rng.choice(EXTREME_F) if rng.random() < 0.3 else round(rng.uniform(-9, 9), 2)) for _ in range(c)] for _ in range(r)], dtype=np.complex128)


def symexpr(rng, params):
    names = rng.sample(["a", "ab", "abc", "beta", "bet", "p", "par", "x", "e", "theta", "y", "var", "res", "val", "lambda", "is", "E", "I", "S", "N", "oo", "rhs", "np", "q0_phase", "q1r", "q10b", "q", "qq2"], rng.randint(1, 3))
    syms = [sym.Symbol(n) for n in names]
    e = 0
    for s in syms:
        c = rng.choice([2, -1, 0.5, 3, -2.5, 1])
        t = rng.choice([s, s ** 2, s * rng.choice(syms), s / 3])
        e = e + c * t
    if rng.random() < 0.4:
        e = e + rng.choice([1, -0.25, sym.pi])
    r = rng.random()
    if r < 0.45:
        # negated powers and products, rational and negative coefficients, powers in exponents
        a = syms[0]
        b = syms[-1] if len(syms) > 1 else sym.Symbol(names[0] + "z")
        e = rng.choice([-(a ** 2), -(a ** 2) * b, -(a ** 2) / 3, -(a + b) ** 2, sym.Rational(-2, 3) * a ** 2, -(a ** 3) / b,
                        b - (a ** 2) / 3, b ** (-(a ** 2)), -2 ** a + b, -(a ** 2) * b * sym.pi, sym.Rational(-1, 7) * a ** 2 * b,
                        (a - b) ** 3 * (-1), -a * b ** 2, a / (b ** 2) - a ** 2, -(a * b) ** 2, 1 / (a + b) - a ** 2 / 5,
                        # number bases in every printed form: small/large floats (scientific notation), rationals, pi
                        -(sym.Float(0.00002) ** a), -(sym.Float(1e20) ** a) * 3, -(sym.Float(2.5) ** a) * b, -(sym.Rational(1, 3) ** a),
                        -(sym.pi ** a), -(sym.Float(1e-7) ** (a + b)), b - sym.Float(3e-9) ** a, -(sym.Float(0.5) ** a) / b,
                        sym.Float(1e-10) * a - sym.Float(1e22) * b ** 2, -sym.Float(1.5e-8) * a ** 2,
                        # bases that print with nested parentheses
                        -((a + b) * a) ** b, -((a + 1) ** 2) ** b, -(((a + 1) * a) ** sym.Float(0.5)), -((2 * (a + b)) ** a) * b, -((b * (a + 1)) ** 3) / 7])
    if not getattr(e, "free_symbols", None):
        e = syms[0] * 2 + 1          # constant sympy numbers are not "expressions in named parameters"
    for s in e.free_symbols:
        params.add(s)
    return e


def build(rng):
    from blackbird import BlackbirdProgram
    del _RECENT[:]
    p = BlackbirdProgram(name=rng.choice(["prog", "api_1", "X"]), version=rng.choice(["1.0", "1.1"]))
    params = set()
    if rng.random() < 0.5:
        p._target["name"] = rng.choice(["gaussian", "X8_01", "dev.1"])
        if rng.random() < 0.6:
            p._target["options"] = {k: (scalar(rng) if rng.random() < 0.8 else [scalar(rng) for _ in range(rng.randint(1, 3))]) for k in rng.sample(["shots", "cutoff_dim", "backend", "flag"], rng.randint(1, 3))}
    if rng.random() < 0.4:
        p._type["name"] = rng.choice(["standard", "tdmx", "tdm"])
        if rng.random() < 0.6:
            p._type["options"] = {k: scalar(rng) for k in rng.sample(["copies", "temporal_modes", "mode"], rng.randint(1, 2))}
    for _ in range(rng.randint(0, 8)):
        nm = rng.randint(1, 3)
        modes = [rng.randint(0, 9) for _ in range(nm)]
        if rng.random() < 0.3:
            modes = [np.int64(m) for m in modes]
        op = {"op": rng.choice(["Sgate", "Dgate", "BSgate", "MeasureX", "Interferometer", "Kgate"]), "modes": modes}
        if rng.random() < 0.8:
            args = []
            for _ in range(rng.randint(0, 3)):
                r = rng.random()
                if r < 0.15:
                    args.append(array(rng))
                elif r < 0.3:
                    args.append(symexpr(rng, params))
                else:
                    args.append(scalar(rng))
            kwargs = {}
            for k in rng.sample(["phi", "r", "select", "dark_counts", "U"], rng.randint(0, 3)):
                r = rng.random()
                if r < 0.15:
                    kwargs[k] = array(rng)
                elif r < 0.3:
                    kwargs[k] = symexpr(rng, params)
                elif r < 0.5:
                    kwargs[k] = [scalar(rng) for _ in range(rng.randint(1, 3))]
                else:
                    kwargs[k] = scalar(rng)
            op["args"], op["kwargs"] = args, kwargs
        p._operations.append(op)
        p._modes |= set(int(m) for m in modes)
    p._parameters = sorted(params, key=str)
    if p._type["name"] == "tdm":
        # in a tdm program a string spelt like a p-name IS a reference to a p-array (none is declared here): use other strings
        def fix(v):
            if isinstance(v, str) and v[:1] == "p" and v[1:].isdigit():
                return rng.choice(["", "pz", "p", "q"])
            if isinstance(v, list):
                return [fix(x) for x in v]
            return v
        for o in p._operations:
            if "args" in o:
                o["args"] = [fix(a) for a in o["args"]]
                o["kwargs"] = {k: fix(v) for k, v in o["kwargs"].items()}
                if rng.random() < 0.5:
                    o["args"].append("")
        # a declared variable called like a hoisted array (A<k>) whose value equals an argument array except for the sign of a
        # zero: the argument must not be written as a reference to that variable
        if rng.random() < 0.5:
            arg = np.array([[-0.0, 1.5], [2.0, 0.0]][: rng.randint(1, 2)])
            for k in rng.sample(range(4), rng.randint(1, 3)):
                p._var["A%d" % k] = np.abs(arg) if rng.random() < 0.7 else arg.copy()
            p._operations.append({"op": "Kgate", "modes": [0], "args": [arg], "kwargs": {}})
            p._modes.add(0)
        # target / type OPTIONS are plain values in every program type: a string spelt like a p-name stays a string there
        if rng.random() < 0.6:
            if p._target["name"] is None:
                p._target["name"] = "TD2"
            p._target["options"] = dict(p._target["options"], profile=rng.choice(["p1", "p0", "p12"]))
        if rng.random() < 0.4:
            p._type["options"] = dict(p._type["options"], labels=[rng.choice(["p0", "p3"]), "x"])
    return p


def describe(p):
    return {"target": repr(p.target), "type": repr(p.programtype), "ops": [repr(o) for o in p.operations]}


def check(model, impl, p, stats):
    import blackbird
    try:
        d = blackbird.dumps(p)
    except Exception as e:  # noqa: BLE001
        return "serialising an API-built program fails: %s: %s" % (type(e).__name__, str(e)[:150]), None
    try:
        q = impl.loads(d)
    except Exception as e:  # noqa: BLE001
        return "the serialised script is not accepted: %s: %s" % (type(e).__name__, str(e)[:150]), d
    diffs = roundtrip.compare(p, q)
    if diffs:
        return "the serialised script denotes a different program: " + "; ".join(diffs[:3]), d
    mo = observe.model_loads(model, d)
    if mo["out"] == "ok":
        md = observe.cmp_prog(mo["v"], p, stats, check_vars=False)
        if md:
            return "the serialised script denotes (by the model) a different program: " + "; ".join(md[:3]), d
    elif mo["out"] == "refuse":
        return "the serialised script is refused by the model (%s)" % mo["err"], d
    else:
        stats["model_unspec"] = stats.get("model_unspec", 0) + 1
    # the dump is a fixed point of the model serialiser's structure: skeleton(ser(load(d))) = skeleton(d)
    import json
    a = json.loads(model.ask("SERSKEL", observe.enc("/"), observe.enc(d)))
    b = json.loads(model.ask("TEXTSKEL", observe.enc(d)))
    if a is None:
        stats["model_serialiser_undefined"] = stats.get("model_serialiser_undefined", 0) + 1
    elif p.programtype["name"] == "tdm":
        # re-loading a tdm dump turns the hoisted arrays A<k> into variables, which a second serialisation writes again in the
        # variable block: the dump is not a fixed point there (by design), only the program is preserved
        stats["skeleton_skipped_tdm"] = stats.get("skeleton_skipped_tdm", 0) + 1
    elif a != b:
        k = next((i for i, (x, y) in enumerate(zip(a, b or [])) if x != y), min(len(a), len(b or [])))
        return "the serialised script has a different structure than the model serialiser prescribes at item %d: %r vs model %r" % (
            k, b[k] if b and k < len(b) else None, a[k] if k < len(a) else None), d
    else:
        stats["skeleton_agree"] = stats.get("skeleton_agree", 0) + 1
    return None, d


def sym_constants():
    """real SymPy expressions without any parameter (numbers, rationals, pi, roots): negated powers, powers of pi, quotients"""
    pi, R, I_, F = sym.pi, sym.Rational, sym.Integer, sym.Float
    return [-pi ** 2, -I_(2) ** R(1, 3), pi / 2, -(pi ** 2) / 3, R(-2, 3) * pi ** 2, -sym.sqrt(2), -sym.sqrt(3) ** 3, R(1, 3), -pi ** R(1, 2), -(pi + 1) ** 2,
            2 ** pi, -2 ** pi, -(I_(3) ** pi) / 7, pi ** -2, -pi ** -2, -F(1.5) * pi ** 2, -(R(2, 3) ** pi), 3 * pi / 4, -(2 * pi) ** 2, -(pi / 2) ** 3,
            (-pi) ** 2, -(pi ** 2) ** R(1, 3), 1 - pi ** 2, -(I_(5) ** R(2, 3)) * pi]


def sym_constant_case(impl, k):
    import blackbird
    from blackbird import BlackbirdProgram
    cs = sym_constants()
    c1, c2, c3 = cs[k % len(cs)], cs[(k * 7 + 3) % len(cs)], cs[(k * 5 + 1) % len(cs)]
    p = BlackbirdProgram(name="consts", version="1.0")
    p._operations.append({"op": "Rgate", "modes": [0], "args": [c1, 0.5], "kwargs": {"phi": c2, "l": [1, c3]}})
    p._operations.append({"op": "Dgate", "modes": [1], "args": [c3], "kwargs": {"r": c1}})
    p._modes = {0, 1}
    try:
        d = blackbird.dumps(p)
        q = impl.loads(d)
    except Exception as e:  # noqa: BLE001
        return "a program with constant SymPy values (%s, %s, %s) does not serialise and re-load: %s: %s" % (c1, c2, c3, type(e).__name__, str(e)[:100])
    want = [c1, 0.5, c2, c3, c3, c1]
    o0, o1 = q.operations
    got = list(o0["args"]) + [o0["kwargs"]["phi"], o0["kwargs"]["l"][1]] + list(o1["args"]) + [o1["kwargs"]["r"]]
    for w, g in zip(want, got):
        try:
            bad = not abs(complex(g) - complex(sym.N(w, 30))) <= 1e-12 * abs(complex(sym.N(w, 30)))
        except Exception:  # noqa: BLE001
            bad = True
        if bad:
            return "the constant SymPy value %s (%.17g) is written so that it reads back as %r:\n%s" % (w, float(w), g, d)
    return None


def run(tier, seed):
    res = Result(PROP, tier, seed)
    rng = random.Random(seed)
    status = fw.build()
    proof_obligations(res, status, "props/C09.v", NEEDS)
    quick = tier == "quick"
    stats = {}
    if status.bbmodel_ok:
        import impl
        model = fw.Model()
        ok = True
        n = 400 if quick else 20000
        t_end = time.time() + (75 if quick else 1500)
        for i in range(n):
            if time.time() > t_end:
                res.extra["stopped_by_time_budget"] = True
                break
            st = rng.getstate()
            p = build(rng)
            try:
                msg, d = check(model, impl, p, stats)
            except fw.ModelError as e:
                res.oblige("model answers", "correspondence", False, str(e)[:200])
                break
            res.case(repr(describe(p)), len(p.operations) >= 2, {"program": describe(p), "dump": d} if len(res.samples) < 3 else None)
            res.count("api-program:%d-ops" % min(len(p.operations), 5))
            if msg:
                ok = False
                res.violate(msg, {"check": "api", "case": i, "seed": seed, "program": describe(p), "dump": d})
                if len(res.violations) >= 5:
                    break
        for k in range(12 if quick else 96):
            kk = k + (seed % 24)
            try:
                msg = sym_constant_case(impl, kk)
            except Exception as e:  # noqa: BLE001
                msg = "harness error in constant case %d: %s: %s" % (kk, type(e).__name__, str(e)[:100])
            res.case("sym-constant-%d" % kk, True, None)
            res.count("sympy-constants")
            if msg:
                ok = False
                res.violate(msg, {"check": "sym-constant", "k": kk})
        res.oblige("correspondence: dumps of API-built programs load (implementation and model) to the same program; arrays exact", "correspondence", ok)
        model.close()
    else:
        res.oblige("model binary available", "correspondence", False)
    res.extra["comparison_stats"] = stats
    return finish(res, level="proof", trusted=fw.TRUSTED_COMMON + ["CPython/numpy float repr round-trips"],
                  rule="programs built through the API: Python and numpy ints/floats/complex/bools, quote-free strings (also containing '#', "
                       "keywords, non-ASCII), lists of these, 2-D int/float/complex arrays r x c >= 1x1 with extreme elements (-0.0, subnormal, "
                       "1e+-300, max double, negative parts, +-2^62), real sympy expressions over overlapping parameter names, in positional and "
                       "keyword position and in target/type options; dumps must be accepted and denote the same program (exact for numbers and "
                       "arrays), by the implementation's loader and by the model's")


def replay(rep):
    import impl
    inp = rep["input"]
    if inp.get("check") == "sym-constant":
        msg = sym_constant_case(impl, inp["k"])
        print(msg)
        return 1 if msg else 0
    fw.build()
    model = fw.Model()
    rng = random.Random(inp["seed"])
    for i in range(inp["case"] + 1):
        p = build(rng)
    msg, _ = check(model, impl, p, {})
    print(msg)
    return 1 if msg else 0
