"""Shared by C01 / C09 / C19 / C13: exact comparison of two implementation programs (round-trip equivalence)."""
import numpy as np
import sympy as sym

POINTS = [0.7133, 1.2917, 0.4361]


def is_num(v):
    return isinstance(v, (int, float, complex, np.integer, np.floating, np.complexfloating)) and not isinstance(v, (bool, np.bool_))


def kind(v):
    from blackbird.listener import RegRefTransform
    if isinstance(v, RegRefTransform):
        return "trf"
    if isinstance(v, (bool, np.bool_)):
        return "bool"
    if isinstance(v, (int, np.integer)):
        return "int"
    if isinstance(v, (float, np.floating)):
        return "float"
    if isinstance(v, (complex, np.complexfloating)):
        return "complex"
    if isinstance(v, str):
        return "str"
    if isinstance(v, sym.Expr):
        return "sym"
    if isinstance(v, np.ndarray):
        return "arr"
    if isinstance(v, (list, tuple)):
        return "list"
    return type(v).__name__


def zero_signs(v):
    """signs of the zero parts of a float/complex (negative zero is a value of its own); None for non-zero parts"""
    import math
    c = complex(v)
    return tuple((math.copysign(1.0, x) if x == 0 else None) for x in (c.real, c.imag)) if kind(v) != "int" else None


def sym_close(a, b, names):
    fa = sym.lambdify([sym.Symbol(n) for n in names], a)
    fb = sym.lambdify([sym.Symbol(n) for n in names], b)
    for k in range(3):
        pt = [POINTS[(i * 2 + k) % 3] + k / 17.0 for i in range(len(names))]
        try:
            x, y = complex(fa(*pt)), complex(fb(*pt))
        except Exception:  # noqa: BLE001
            return False
        if abs(x - y) > 1e-9 * max(1.0, abs(x)):
            return False
    return True


def same(a, b, path, out, exact_kinds=True):
    """a: value before, b: value after the round trip"""
    ka, kb = kind(a), kind(b)
    if ka in ("int", "float", "complex") and kb in ("int", "float", "complex"):
        if exact_kinds and ka != kb:
            out.append("%s: %r (%s) came back as %r (%s)" % (path, a, ka, b, kb))
        elif ka == "int" and kb == "int":
            if int(a) != int(b):
                out.append("%s: %r came back as %r" % (path, a, b))
        elif complex(a) != complex(b) and not (a != a and b != b):
            out.append("%s: %r came back as %r" % (path, a, b))
        elif ka == kb and zero_signs(a) != zero_signs(b):
            out.append("%s: %r came back as %r (the sign of a zero changed)" % (path, a, b))
        return
    if ka != kb:
        out.append("%s: %r (%s) came back as %r (%s)" % (path, a, ka, b, kb))
        return
    if ka in ("bool", "str"):
        if a != b:
            out.append("%s: %r came back as %r" % (path, a, b))
    elif ka == "list":
        if len(a) != len(b):
            out.append("%s: list of %d came back with %d elements" % (path, len(a), len(b)))
        else:
            for i, (x, y) in enumerate(zip(a, b)):
                same(x, y, "%s[%d]" % (path, i), out, exact_kinds)
    elif ka == "arr":
        if a.shape != b.shape or a.dtype.kind != b.dtype.kind:
            out.append("%s: array %s %s came back as %s %s" % (path, a.dtype, a.shape, b.dtype, b.shape))
        elif a.dtype.kind == "O":
            for i, (x, y) in enumerate(zip(a.reshape(-1).tolist(), b.reshape(-1).tolist())):
                same(x, y, "%s[%d]" % (path, i), out, exact_kinds)
        elif not np.array_equal(a, b):
            out.append("%s: array elements changed: %r -> %r" % (path, a.tolist(), b.tolist()))
        elif a.dtype.kind in "fc" and not (np.array_equal(np.signbit(a.real), np.signbit(b.real)) and np.array_equal(np.signbit(a.imag), np.signbit(b.imag))):
            out.append("%s: array elements changed (the sign of a zero): %r -> %r" % (path, a.tolist(), b.tolist()))
    elif ka == "sym":
        na, nb = sorted(str(s) for s in a.free_symbols), sorted(str(s) for s in b.free_symbols)
        if na != nb:
            out.append("%s: symbols %s came back as %s" % (path, na, nb))
        elif not sym_close(a, b, na):
            out.append("%s: expression %s came back as %s (not equal at sample points)" % (path, a, b))
    elif ka == "trf":
        if sorted(a.regrefs) != sorted(b.regrefs):
            out.append("%s: transform registers %s came back as %s" % (path, a.regrefs, b.regrefs))
        else:
            names = ["q%d" % r for r in sorted(a.regrefs)]
            if not sym_close(a.expr, b.expr, names):
                out.append("%s: transform %s came back as %s" % (path, a.func_str, b.func_str))
    else:
        if repr(a) != repr(b):
            out.append("%s: %r came back as %r" % (path, a, b))


def compare(p, q, variables=False, exact_kinds=True):
    """differences between program p and its round-tripped version q"""
    out = []
    if p.name != q.name:
        out.append("name %r -> %r" % (p.name, q.name))
    if str(p.version) != str(q.version):
        out.append("version %r -> %r" % (p.version, q.version))
    for what, a, b in (("target", p.target, q.target), ("type", p.programtype, q.programtype)):
        if a["name"] != b["name"]:
            out.append("%s %r -> %r" % (what, a["name"], b["name"]))
        if list(a["options"]) != list(b["options"]):
            out.append("%s options %s -> %s" % (what, list(a["options"]), list(b["options"])))
        else:
            for k in a["options"]:
                same(a["options"][k], b["options"][k], "%s.%s" % (what, k), out, exact_kinds)
    if set(p.parameters) != set(q.parameters):
        out.append("free parameters %s -> %s" % (sorted(p.parameters), sorted(q.parameters)))
    if len(p.operations) != len(q.operations):
        out.append("%d operations -> %d" % (len(p.operations), len(q.operations)))
    for i, (a, b) in enumerate(zip(p.operations, q.operations)):
        if a["op"] != b["op"]:
            out.append("op[%d] %s -> %s" % (i, a["op"], b["op"]))
        if [int(m) for m in a["modes"]] != [int(m) for m in b["modes"]]:
            out.append("op[%d] modes %s -> %s" % (i, a["modes"], b["modes"]))
        aa, ab = a.get("args", []), b.get("args", [])
        if len(aa) != len(ab):
            out.append("op[%d] %d positional arguments -> %d" % (i, len(aa), len(ab)))
        for j, (x, y) in enumerate(zip(aa, ab)):
            same(x, y, "op[%d].args[%d]" % (i, j), out, exact_kinds)
        ka, kb = a.get("kwargs", {}), b.get("kwargs", {})
        if list(ka) != list(kb):
            out.append("op[%d] keywords %s -> %s" % (i, list(ka), list(kb)))
        else:
            for k in ka:
                same(ka[k], kb[k], "op[%d].%s" % (i, k), out, exact_kinds)
    if variables:
        # arrays passed by value are written as declarations A0, A1, ...: re-loading adds those names, nothing else
        import re
        extra = set(q.variables) - set(p.variables)
        if not set(p.variables) <= set(q.variables) or any(not re.fullmatch(r"A[0-9]+", k) for k in extra):
            out.append("variables %s -> %s" % (sorted(p.variables), sorted(q.variables)))
        else:
            for k in p.variables:
                same(p.variables[k], q.variables[k], "var.%s" % k, out, exact_kinds)
    return out
