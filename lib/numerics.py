"""Evaluation of the model's symbolic terms with mpmath (50 digits) together with a forward bound on the error
an IEEE-double evaluation of the same term may legitimately have (conditioning guard)."""
import mpmath as mp

mp.mp.dps = 50
EPS = mp.mpf(2) ** -52


def zval(s):
    """integers are printed by the driver in binary: "b101" / "-b101" """
    if isinstance(s, int):
        return s
    neg = s.startswith("-")
    body = s[2:] if neg else s[1:]
    v = int(body, 2)
    return -v if neg else v


class Undefined(Exception):
    pass


FUNS = {
    "exp": (mp.exp, lambda x: mp.exp(x)),
    "log": (mp.log, lambda x: 1 / x),
    "sin": (mp.sin, lambda x: mp.cos(x)),
    "cos": (mp.cos, lambda x: -mp.sin(x)),
    "tan": (mp.tan, lambda x: 1 / mp.cos(x) ** 2),
    "arcsin": (mp.asin, lambda x: 1 / mp.sqrt(1 - x * x)),
    "arccos": (mp.acos, lambda x: -1 / mp.sqrt(1 - x * x)),
    "arctan": (mp.atan, lambda x: 1 / (1 + x * x)),
    "sinh": (mp.sinh, lambda x: mp.cosh(x)),
    "cosh": (mp.cosh, lambda x: mp.sinh(x)),
    "tanh": (mp.tanh, lambda x: 1 / mp.cosh(x) ** 2),
    "arcsinh": (mp.asinh, lambda x: 1 / mp.sqrt(x * x + 1)),
    "arccosh": (mp.acosh, lambda x: 1 / mp.sqrt(x * x - 1)),
    "arctanh": (mp.atanh, lambda x: 1 / (1 - x * x)),
    "sqrt": (mp.sqrt, lambda x: 1 / (2 * mp.sqrt(x))),
}


def has_i(t):
    if t[0] == "i":
        return True
    return any(isinstance(x, list) and has_i(x) for x in t[1:])


def ev(t, env=None):
    """-> (value, err).  A sub-term without the imaginary unit is evaluated by numpy in REAL arithmetic, so a
    non-real exact value there (negative base to a fractional power, sqrt/log of a negative number, arcsin(2), ...)
    is outside the real domain: Undefined."""
    v, e = _ev(t, env)
    if not has_i(t) and mp.im(v) != 0:
        raise Undefined("outside the real domain")
    if abs(v) > mp.mpf("1e300") or (v != 0 and abs(v) < mp.mpf("1e-300")):
        raise Undefined("outside the range of finite doubles")
    return v, e


def _ev(t, env=None):
    """-> (value mpc/mpf, err mpf): err bounds (heuristically, first order) the absolute error of a double evaluation"""
    k = t[0]
    if k == "dec":
        m, e = zval(t[1]), zval(t[2])
        if abs(e) > 400:
            raise Undefined("exponent")
        v = mp.mpf(m) * mp.mpf(10) ** e
        return v, abs(v) * EPS
    if k == "pi":
        return mp.pi, mp.pi * EPS
    if k == "i":
        return mp.mpc(0, 1), mp.mpf(0)
    if k in ("par", "reg"):
        if env is None or t[1] not in env:
            raise Undefined("free symbol %s" % t[1])
        v = mp.mpmathify(env[t[1]])
        return v, abs(v) * EPS
    if k == "add":
        a, ea = ev(t[1], env)
        b, eb = ev(t[2], env)
        v = a + b
        return v, ea + eb + abs(v) * EPS
    if k == "neg":
        a, ea = ev(t[1], env)
        return -a, ea
    if k == "mul":
        a, ea = ev(t[1], env)
        b, eb = ev(t[2], env)
        v = a * b
        return v, abs(a) * eb + abs(b) * ea + ea * eb + 2 * abs(v) * EPS
    if k == "inv":
        a, ea = ev(t[1], env)
        if a == 0:
            raise Undefined("division by zero")
        if ea > mp.mpf(1e-6) * abs(a):
            raise Undefined("ill-conditioned operand of a non-linear operation")
        v = 1 / a
        return v, ea / abs(a) ** 2 + 2 * abs(v) * EPS
    if k == "pow":
        a, ea = ev(t[1], env)
        b, eb = ev(t[2], env)
        if ea > mp.mpf(1e-6) * abs(a) or eb > mp.mpf(1e-6) * max(abs(b), mp.mpf(1)):
            raise Undefined("ill-conditioned operand of a non-linear operation")
        if a == 0:
            if mp.re(b) > 0:
                return mp.mpf(0), mp.mpf(0)
            if b == 0:
                return mp.mpf(1), mp.mpf(0)
            raise Undefined("0 ** non-positive")
        try:
            v = mp.power(a, b)
        except Exception:  # noqa: BLE001
            raise Undefined("pow")
        la = abs(mp.log(a)) if a != 1 else mp.mpf(0)
        err = abs(v) * (abs(b) * ea / abs(a) + la * eb) + 8 * abs(v) * EPS * (1 + abs(b) * (1 + la))
        return v, err
    if k == "fn":
        f, df = FUNS[t[1]]
        a, ea = ev(t[2], env)
        if ea > mp.mpf(1e-6) * max(abs(a), mp.mpf("1e-3")):
            raise Undefined("ill-conditioned operand of a non-linear operation")
        try:
            v = f(a)
            d = abs(df(a))
        except Exception:  # noqa: BLE001
            raise Undefined("function domain")
        return v, d * ea + 4 * abs(v) * EPS + 4 * EPS * d * abs(a)
    raise ValueError("bad term %r" % (t,))


def is_real(v, tol=0):
    return mp.im(v) == 0


def close(impl, val, err, rel=1e-12, slack=1024):
    """is the implementation's number within the property's tolerance of the exact value (conditioning aware)?
    returns (ok, well_conditioned)"""
    try:
        iv = mp.mpmathify(impl)
    except Exception:  # noqa: BLE001
        return False, True
    if not (mp.isfinite(mp.re(iv)) and mp.isfinite(mp.im(iv))):
        return False, True
    d = abs(iv - val)
    bound = max(mp.mpf(rel) * abs(val), slack * err, mp.mpf("1e-300"))
    well = slack * err <= mp.mpf(1e-9) * abs(val) or abs(val) == 0
    return d <= bound, bool(well)
