"""Structured generator of (mostly valid) Blackbird scripts.

Expressions are generated together with their exact value (mpmath / Python int) so that the generator can keep
them inside the quantifier of the properties: finite values, no division by (near) zero, real functions inside
their real domains, integers well inside int64, modest magnitudes.  The value computed here is NOT the oracle
(the Coq model is); it only filters.
"""
import mpmath as mp

mp.mp.dps = 50

FUNCS = ["exp", "log", "sin", "cos", "tan", "arcsin", "arccos", "arctan", "sinh", "cosh", "tanh",
         "arcsinh", "arccosh", "arctanh", "sqrt"]
MPF = {"exp": mp.exp, "log": mp.log, "sin": mp.sin, "cos": mp.cos, "tan": mp.tan, "arcsin": mp.asin,
       "arccos": mp.acos, "arctan": mp.atan, "sinh": mp.sinh, "cosh": mp.cosh, "tanh": mp.tanh,
       "arcsinh": mp.asinh, "arccosh": mp.acosh, "arctanh": mp.atanh, "sqrt": mp.sqrt}
RESERVED = {"for", "in", "pi", "name", "version", "target", "type", "include", "array", "float", "complex", "int",
            "str", "bool", "True", "False"} | set(FUNCS)
GATES = ["Sgate", "Dgate", "BSgate", "Rgate", "Vac", "Coherent", "Xgate", "Zgate", "Interferometer", "S2gate", "Kgate", "Op"]
MEASURES = ["MeasureX", "MeasureFock", "MeasureHomodyne", "Measure", "MeasureP"]


class Reject(Exception):
    pass


class E:
    """expression node: text, kind ('int','float','complex','sym'), value (int | mpf | mpc | None), depth, nops"""
    __slots__ = ("text", "kind", "val", "prec", "nops", "syms")

    def __init__(self, text, kind, val, prec, nops=0, syms=()):
        # every intermediate value must stay well inside the range of finite doubles (and of int64 for integers)
        if val is not None:
            if isinstance(val, int):
                if abs(val) >= 2 ** 62:
                    raise Reject("int range")
            elif not (abs(val) < mp.mpf("1e150")) or (val != 0 and abs(val) < mp.mpf("1e-150")):
                raise Reject("magnitude")
        self.text, self.kind, self.val, self.prec, self.nops, self.syms = text, kind, val, prec, nops, frozenset(syms)


def kmax(a, b):
    order = ["int", "float", "complex", "sym"]
    return order[max(order.index(a), order.index(b))]


def small(v, lim=mp.mpf(10) ** 9):
    return v is None or abs(v) <= lim


class Gen:
    def __init__(self, rng, allow_complex=True, allow_funcs=True, allow_params=False, allow_regs=False,
                 allow_arrays=True, allow_loops=True, allow_strbool=True, tdm=False, allow_meta_opts=True,
                 sym_funcs=False):
        self.r = rng
        self.allow_complex = allow_complex
        self.allow_funcs = allow_funcs
        self.allow_params = allow_params
        self.allow_regs = allow_regs
        self.allow_arrays = allow_arrays
        self.allow_loops = allow_loops
        self.allow_strbool = allow_strbool
        self.tdm = tdm
        self.allow_meta_opts = allow_meta_opts
        self.allow_redeclare = True      # names may be declared again (the later declaration wins)
        self.vars = {}        # name -> ("scalar", kind, val) | ("array", kind, rows, cols, [vals]) | ("str", s) | ("bool", b) | ("symscalar",)
        self.used_names = set()
        self.params = []
        self.features = set()

    # ------------------------------------------------------------------ names
    def fresh(self, prefix=None):
        for _ in range(100):
            base = prefix or self.r.choice(["a", "b", "x", "y", "alpha", "beta", "th", "phi", "n", "m", "k", "r_1", "Val", "zz", "u2", "ab", "a1",
                                            "forx", "int_1", "pix", "sinx", "Truex", "e", "E1", "j", "J", "qq", "p_", "inn", "name1", "typeA", "I", "A_0_0"])
            nm = base if self.r.random() < 0.6 else base + str(self.r.randrange(10))
            if nm not in self.used_names and nm not in RESERVED and not (nm[0] == "q" and nm[1:].isdigit()) \
                    and not (nm[0] == "p" and nm[1:].isdigit()) and not nm.startswith("Measure"):
                self.used_names.add(nm)
                return nm
        raise Reject("names")

    # ------------------------------------------------------------------ literals
    def int_lit(self, lo=0, hi=12):
        v = self.r.randint(lo, hi)
        if hi == 12 and self.r.random() < 0.04:
            v = self.r.choice([100, 255, 1024, 65536, 10 ** 6, 2 ** 31, 10 ** 12])
        t = str(v)
        if self.r.random() < 0.05:
            t = "0" + t
        return E(t, "int", v, 10)

    def float_lit(self):
        forms = self.r.random()
        if forms < 0.5:
            a = self.r.randint(0, 20)
            b = self.r.randint(0, 999)
            t = "%d.%d" % (a, b)
        elif forms < 0.7:
            t = "%de%d" % (self.r.randint(1, 9), self.r.randint(0, 3))
        elif forms < 0.85:
            t = "%d.%dE-%d" % (self.r.randint(0, 9), self.r.randint(0, 99), self.r.randint(1, 3))
        else:
            t = "%d.%de+%d" % (self.r.randint(1, 9), self.r.randint(0, 9), self.r.randint(0, 2))
        return E(t, "float", mp.mpf(t), 10)

    def num_text(self):
        if self.r.random() < 0.5:
            return str(self.r.randint(0, 9))
        return self.float_lit().text

    def complex_lit(self):
        im = self.num_text()
        j = self.r.choice("jJ")
        if self.r.random() < 0.5:
            t = im + j
            v = mp.mpc(0, mp.mpf(im))
        else:
            re = self.num_text()
            sg = self.r.choice("+-")
            t = re + sg + im + j
            v = mp.mpc(mp.mpf(re), mp.mpf(im) if sg == "+" else -mp.mpf(im))
        return E(t, "complex", v, 10)

    # ------------------------------------------------------------------ atoms
    def atom(self, want=None, syms=False):
        r = self.r.random()
        cands = []
        for nm, info in self.vars.items():
            if info[0] == "scalar" and (want is None or info[1] == want or (want == "float" and info[1] == "int")):
                cands.append(E(nm, info[1], info[2], 10))
            if info[0] == "array" and self.r.random() < 0.5:
                _, k, rows, cols, vals = info
                if want is None or k == want:
                    idx = self.r.randrange(rows * cols)
                    if vals[idx] is not None:
                        it = str(idx) if self.r.random() < 0.7 else "%d + %d" % (idx - idx // 2, idx // 2)
                        cands.append(E("%s[%s]" % (nm, it), k, vals[idx], 10))
        if syms and r < 0.35:
            s = self.sym_atom()
            if s is not None:
                return s
        if syms and getattr(self, "real_sym_coeffs", False) and want is None:
            want = self.r.choice(["int", "float"])       # no complex coefficients next to symbols (recorded finding D6)
        if cands and r < 0.3:
            return self.r.choice(cands)
        if want == "int":
            return self.int_lit()
        if want == "complex" or (want is None and self.allow_complex and r > 0.9):
            return self.complex_lit()
        if want == "float":
            return self.float_lit() if self.r.random() < 0.85 else E("pi", "float", mp.pi, 10)
        c = self.r.random()
        if c < 0.4:
            return self.int_lit()
        if c < 0.9:
            return self.float_lit()
        return E("pi", "float", mp.pi, 10)

    def sym_atom(self):
        opts = []
        if self.allow_params:
            opts.append("par")
        if self.allow_regs:
            opts.append("reg")
        if not opts:
            return None
        mode = getattr(self, "sym_mode", None)
        if mode not in opts:
            mode = self.r.choice(opts)
        if mode == "par":
            if self.params and self.r.random() < 0.6:
                p = self.r.choice(self.params)
            else:
                p = self.fresh(self.r.choice(["p", "par", "a", "ab", "theta", "beta", "bet", "x", "al", "alpha", "ph", "y", "var", "res", "val", "lambda", "is", "E", "I", "S", "N", "oo", "rhs", "np", "q0_phase", "q1r", "q"]))
                self.params.append(p)
            self.features.add("param")
            return E("{%s}" % p, "sym", None, 10, syms=[p])
        n = self.r.choice([0, 1, 2, 3, 7, 12])
        self.features.add("regref")
        return E("q%d" % n, "sym", None, 10, syms=["q%d" % n])

    # ------------------------------------------------------------------ expressions
    def paren(self, e, need):
        """wrap in brackets if its top operator binds weaker than needed"""
        if e.prec < need:
            return "(" + e.text + ")"
        return e.text

    def expr(self, depth, want=None, syms=False):
        """random expression; want in (None,'int','float','complex'); returns E (kind may be 'sym' if syms)"""
        # one argument mentions template parameters or measured registers, never both (outside every quantifier)
        opts = (["par"] if self.allow_params else []) + (["reg"] if self.allow_regs else [])
        self.sym_mode = self.r.choice(opts) if opts else None
        for _ in range(40):
            try:
                e = self._expr(depth, want, syms)
                if e.kind != "sym":
                    if want == "int" and e.kind != "int":
                        continue
                    if want == "float" and e.kind not in ("float",):
                        continue
                    if want == "complex" and e.kind != "complex":
                        continue
                if e.val is not None and not small(e.val):
                    continue
                return e
            except Reject:
                continue
        return self.atom(want)

    def _expr(self, depth, want, syms):
        r = self.r.random()
        if depth <= 0 or r < 0.25:
            return self.atom(want, syms)
        # choose operator
        ops = ["+", "-", "*", "br", "neg"]
        if want != "int":
            ops += ["/", "/"]
            if self.allow_funcs:
                ops += ["fn", "fn"]
        ops += ["**"]
        op = self.r.choice(ops)
        if op == "br":
            a = self._expr(depth - 1, want, syms)
            return E("(" + a.text + ")", a.kind, a.val, 10, a.nops, a.syms)
        if op == "neg":
            a = self._expr(depth - 1, want, syms)
            sgn = self.r.choice(["-", "-", "+"])
            t = sgn + self.paren(a, 9)
            # "- 2j" would be fine, but "-2j" lexes as one COMPLEX token with the same value
            v = None if a.val is None else (-a.val if sgn == "-" else a.val)
            return E(t, a.kind, v, 9, a.nops + 1, a.syms)
        if op == "fn":
            f = self.r.choice(FUNCS)
            a = self._expr(depth - 1, None if want != "complex" else "complex", False)
            if a.kind == "sym":
                raise Reject
            v = self.fn_value(f, a)
            k = "complex" if a.kind == "complex" else "float"
            return E("%s(%s)" % (f, a.text), k, v, 10, a.nops + 1, a.syms)
        if op == "**":
            a = self._expr(depth - 1, want if want == "int" else None, syms)
            if a.kind == "sym":
                b = self.int_lit(2, 3)
                return E(self.paren(a, 9) + " ** " + self.paren(b, 8), "sym", None, 8, a.nops + 1, a.syms)
            if a.kind == "int":
                if want == "int" or self.r.random() < 0.6:
                    b = self.int_lit(0, 5)
                    if abs(a.val) > 40:
                        raise Reject
                    if a.val == 0 and b.val == 0:
                        raise Reject
                    v = a.val ** b.val
                else:
                    b = self.r.choice([self.float_lit(), E("-" + str(self.r.randint(1, 3)), "int", -self.r.randint(1, 3), 9)])
                    if b.text.startswith("-"):
                        b = E(b.text, "int", -int(b.text[1:]), 9)
                    if a.val <= 0:
                        raise Reject
                    v = mp.power(a.val, b.val)
                k = "int" if (b.kind == "int" and b.val >= 0) else "float"
                return E(self.paren(a, 9) + " ** " + self.paren(b, 8), k, v, 8, a.nops + 1)
            b = self.r.choice([self.int_lit(0, 4), self.float_lit()])
            if a.kind == "float" and a.val <= mp.mpf("0.05"):
                if b.kind != "int" or a.val == 0:
                    raise Reject
            if a.kind == "complex" and (abs(a.val) < 0.05 or abs(mp.im(a.val)) < 0.05):
                raise Reject
            if abs(b.val) > 6:
                raise Reject
            v = mp.power(a.val, b.val)
            return E(self.paren(a, 9) + " ** " + self.paren(b, 8), kmax(a.kind, "float") if a.kind != "complex" else "complex", v, 8, a.nops + 1)
        # binary + - * /
        wa = want if want in ("int", "complex") else None
        a = self._expr(depth - 1, wa if want == "int" else None, syms)
        b = self._expr(depth - 1, wa if want == "int" else None, syms and self.r.random() < 0.5)
        nops = a.nops + b.nops + 1
        sy = a.syms | b.syms
        if a.kind == "sym" or b.kind == "sym":
            if op == "/":
                if b.kind == "sym":
                    raise Reject        # symbolic divisors may vanish at the sample points
                if b.val == 0 or abs(b.val) < 0.05:
                    raise Reject
            if op in "+-" and a.syms & b.syms:
                raise Reject            # avoid identical cancellation of a symbol
            if op in "+-":
                return E(self.paren(a, 6) + " %s " % op + self.paren(b, 7), "sym", None, 6, nops, sy)
            if op == "*" and (a.kind == "sym" and b.kind == "sym"):
                if a.syms & b.syms:
                    raise Reject
            if (b.kind != "sym" and b.val == 0) or (a.kind != "sym" and a.val == 0):
                raise Reject            # 0 * symbol cancels the symbol
            return E(self.paren(a, 7) + " %s " % op + self.paren(b, 8), "sym", None, 7, nops, sy)
        k = kmax(a.kind, b.kind)
        if op == "+":
            v = a.val + b.val
            self.check_cancel(v, a.val, b.val)
            return E(self.paren(a, 6) + " + " + self.paren(b, 7), k, v, 6, nops)
        if op == "-":
            v = a.val - b.val
            self.check_cancel(v, a.val, b.val)
            return E(self.paren(a, 6) + " - " + self.paren(b, 7), k, v, 6, nops)
        if op == "*":
            v = a.val * b.val
            return E(self.paren(a, 7) + " * " + self.paren(b, 8), k, v, 7, nops)
        if op == "/":
            if abs(b.val) < mp.mpf("0.05"):
                raise Reject
            v = mp.mpf(a.val) / b.val if k != "complex" else mp.mpc(a.val) / b.val
            return E(self.paren(a, 7) + " / " + self.paren(b, 8), kmax(k, "float"), v, 7, nops)
        raise Reject

    def check_cancel(self, v, a, b):
        if isinstance(v, int):
            return
        m = max(abs(a), abs(b))
        if m > 0 and abs(v) < m * mp.mpf("1e-3"):
            raise Reject

    def fn_value(self, f, a):
        x = a.val
        if a.kind == "complex":
            if f not in ("exp", "sin", "cos", "sinh", "cosh"):
                raise Reject
            if abs(x) > 6:
                raise Reject
            return MPF[f](mp.mpc(x))
        x = mp.mpf(x)
        ok = {
            "exp": lambda: abs(x) <= 15, "log": lambda: x >= mp.mpf("0.05"), "sin": lambda: abs(x) <= 50,
            "cos": lambda: abs(x) <= 50, "tan": lambda: abs(x) <= 50 and abs(mp.cos(x)) > 0.1,
            "arcsin": lambda: abs(x) <= 0.95, "arccos": lambda: abs(x) <= 0.95, "arctan": lambda: True,
            "sinh": lambda: abs(x) <= 15, "cosh": lambda: abs(x) <= 15, "tanh": lambda: True,
            "arcsinh": lambda: True, "arccosh": lambda: x >= mp.mpf("1.05"), "arctanh": lambda: abs(x) <= 0.95,
            "sqrt": lambda: x >= mp.mpf("0.01") or x == 0,
        }[f]()
        if not ok:
            raise Reject
        return MPF[f](x)

    # ------------------------------------------------------------------ values for arguments
    def arg_val(self, depth, syms, allow_array=True):
        r = self.r.random()
        if self.allow_strbool and r < 0.08:
            self.features.add("str")
            return ('"%s"' % self.r.choice(["a", "hello", "fock", "x y", "", "p0x", "1+2", "x#y", "True", "{p}", "q0", "é", "a,b", " lead", "[0]", "name",
                                           "False", "pi", "a\x0cb", "v\x0bt", "n\x85l", "l\u2028s", "tab\there", "\x1c", "for", "# no comment", "'"]), "str")
        if self.allow_strbool and r < 0.14:
            self.features.add("bool")
            return (self.r.choice(["True", "False"]), "bool")
        if r < 0.2 and self.allow_arrays and allow_array:
            arrs = [nm for nm, i in self.vars.items() if i[0] == "array" and None not in i[4]]
            if arrs:
                self.features.add("array-arg")
                return (self.r.choice(arrs), "array")
        want = self.r.choice([None, None, "int", "float"] + (["complex"] if self.allow_complex else []))
        e = self.expr(depth, want, syms)
        return (e.text, e.kind)

    def arguments(self, depth, syms, maxn=3):
        npos = self.r.choice([0, 1, 1, 2, 3][:maxn + 2])
        nkw = self.r.choice([0, 0, 0, 1, 2])
        parts = [self.arg_val(depth, syms)[0] for _ in range(npos)]
        keys = []
        for _ in range(nkw):
            k = self.r.choice(["a", "b", "phi", "cutoff", "select", "shots", "r", "dim"])
            if k in keys:
                continue
            keys.append(k)
            if self.r.random() < 0.3:
                n = self.r.randint(0, 3)
                items = [self.arg_val(max(0, depth - 1), False, allow_array=False)[0] for _ in range(n)]
                self.features.add("kwlist")
                parts.append("%s=[%s]" % (k, ", ".join(items)))
            else:
                parts.append("%s=%s" % (k, self.arg_val(depth, syms)[0]))
            self.features.add("kwarg")
        return "(" + ", ".join(parts) + ")"

    def modes_text(self, ms):
        body = ", ".join(ms)
        style = self.r.random()
        if style < 0.4:
            return body
        if style < 0.7:
            return "[" + body + "]"
        if style < 0.9:
            return "(" + body + ")"
        return body

    def mode_exprs(self, n, loopvar=None, maxmode=7):
        out = []
        for _ in range(n):
            r = self.r.random()
            ints = [nm for nm, i in self.vars.items() if i[0] == "scalar" and i[1] == "int" and 0 <= i[2] <= 20]
            if loopvar and r < 0.5:
                out.append(loopvar if self.r.random() < 0.7 else "%s + %d" % (loopvar, self.r.randint(1, 3)))
            elif ints and r < 0.3:
                out.append(self.r.choice(ints))
            elif r < 0.15:
                a = self.r.randint(0, 3)
                out.append("%d + %d" % (a, self.r.randint(0, 3)))
            else:
                out.append(str(self.r.randint(0, maxmode)))
        return out

    def statement(self, depth=2, syms=False, loopvar=None, loopkind=None):
        meas = self.r.random() < 0.2
        name = self.r.choice(MEASURES if meas else GATES)
        nm = self.r.choice([1, 1, 1, 2, 2, 3])
        ms = self.mode_exprs(nm, loopvar if loopkind == "int" else None)
        r = self.r.random()
        if r < 0.2:
            args = ""
        elif r < 0.25:
            args = "()"
        else:
            args = self.arguments(depth, syms)
            if loopvar and self.r.random() < 0.7 and args != "()":
                # use the loop variable inside the arguments
                ins = loopvar if loopkind in ("str", "bool") else self.r.choice([loopvar, "%s * 2" % loopvar, "%s + 1" % loopvar])
                args = "(" + ins + (", " + args[1:] if args != "()" else ")")
        self.features.add("measure" if meas else "gate")
        return "%s%s | %s" % (name, args, self.modes_text(ms))

    # ------------------------------------------------------------------ declarations
    def scalar_decl(self):
        ty = self.r.choice(["int", "float", "float", "complex"] + (["bool", "str"] if self.allow_strbool else []))
        if ty == "complex" and not self.allow_complex:
            ty = "float"
        nm = self.fresh()
        olds = [k for k, i in self.vars.items() if i[0] in ("scalar", "bool", "str")]
        if olds and self.allow_redeclare and self.r.random() < 0.08:
            nm = self.r.choice(olds)          # declared again: later uses see the new value
            self.features.add("redeclared-scalar")
        if ty == "bool":
            b = self.r.choice(["True", "False"])
            self.vars[nm] = ("bool", b == "True")
            return "bool %s = %s" % (nm, b)
        if ty == "str":
            s = self.r.choice(["fock", "a b", "gaussian", ""])
            self.vars[nm] = ("str", s)
            return 'str %s = "%s"' % (nm, s)
        if ty == "int":
            e = self.expr(2, "int")
            self.vars[nm] = ("scalar", "int", e.val)
        elif ty == "float":
            e = self.expr(2, self.r.choice(["float", "int"]))
            self.vars[nm] = ("scalar", "float", mp.mpf(e.val))
        else:
            e = self.expr(2, self.r.choice(["complex", "float", "int"]))
            self.vars[nm] = ("scalar", "complex", mp.mpc(e.val))
        self.features.add("scalar-" + ty)
        return "%s %s = %s" % (ty, nm, e.text)

    def array_decl(self, name=None, with_params=False, rows=None, cols=None):
        ty = self.r.choice(["int", "float", "float", "complex"])
        if ty == "complex" and not self.allow_complex:
            ty = "float"
        if with_params and ty == "int" and getattr(self, "float_param_values", True):
            ty = "float"       # instantiation values are generic reals: keep parameters out of int arrays
        nm = name or self.fresh(self.r.choice(["A", "U", "M", "arr", "B1"]))
        olda = [k for k, i in self.vars.items() if i[0] == "array"]
        if name is None and olda and self.allow_redeclare and self.r.random() < 0.1:
            nm = self.r.choice(olda)          # the array name is declared again
            self.features.add("redeclared-array")
        rows = rows or self.r.choice([1, 1, 2, 2, 3])
        cols = cols or self.r.choice([1, 2, 2, 3, 4])
        vals = []
        lines = []
        for _ in range(rows):
            row = []
            for _ in range(cols):
                if with_params and rows * cols > 1 and self.r.random() < 0.3:
                    p = self.sym_atom()
                    if p is not None and p.text.startswith("{"):
                        row.append(p.text)
                        vals.append(None)
                        self.features.add("array-param-elem")
                        continue
                want = {"int": "int", "float": self.r.choice(["float", "int"]), "complex": self.r.choice(["complex", "float", "int"])}[ty]
                e = self.expr(1, want)
                row.append(e.text)
                vals.append({"int": lambda v: v, "float": mp.mpf, "complex": mp.mpc}[ty](e.val))
            lines.append("    " + ", ".join(row))
        shape = ""
        if self.r.random() < 0.5:
            shape = "[%d, %d]" % (rows, cols)
            self.features.add("array-shape")
        self.vars[nm] = ("array", ty, rows, cols, vals)
        self.features.add("array-" + ty)
        return "%s array %s%s =\n%s" % (ty, nm, shape, "\n".join(lines))

    # ------------------------------------------------------------------ loops
    def forloop(self, syms=False):
        ty = self.r.choice(["int", "int", "int", "float"] + (["str", "bool"] if self.allow_strbool else []))
        x = self.fresh(self.r.choice(["i", "j", "k", "m", "idx"]))
        style = self.r.random()
        if ty in ("int", "float") and style < 0.5:
            a = self.r.randint(0, 4)
            b = self.r.randint(0, 7)
            hdr = "%d:%d" % (a, b)
            if self.r.random() < 0.4:
                hdr += ":%d" % self.r.randint(1, 3)
            self.features.add("range")
        else:
            n = self.r.randint(1, 4)
            if ty == "int":
                items = [self.expr(1, "int").text for _ in range(n)]
            elif ty == "float":
                items = [self.expr(1, self.r.choice(["float", "int"])).text for _ in range(n)]
            elif ty == "str":
                items = ['"%s"' % self.r.choice(["a", "b", "xy"]) for _ in range(n)]
            else:
                items = [self.r.choice(["True", "False"]) for _ in range(n)]
            body = ", ".join(items)
            hdr = self.r.choice(["[%s]", "(%s)", "%s"]) % body
            if hdr.startswith("(") and n > 0 and items[0].startswith("("):
                hdr = "[%s]" % body
            self.features.add("looplist")
        nst = self.r.choice([1, 1, 2, 3])
        # loop variable visible in the body (value unknown to the generator: used only where any value is fine)
        sts = [self.statement(1, syms, loopvar=x, loopkind=ty) for _ in range(nst)]
        self.features.add("for-" + ty)
        return "for %s %s in %s\n%s" % (ty, x, hdr, "\n".join("    " + s for s in sts))

    # ------------------------------------------------------------------ whole script
    def header(self, name=None):
        lines = ["name %s" % (name or self.r.choice(["prog", "test", "gbs", "sub_1", "X"])),
                 "version %s" % self.r.choice(["1.0", "1.0", "1.1", "0.5", "2.10"])]
        if self.r.random() < 0.5:
            dev = self.r.choice(["gaussian", "fock", "X8_01", "tf", "dev.1", "chip2"])
            opts = ""
            if self.allow_meta_opts and self.r.random() < 0.5:
                opts = " " + self.meta_opts()
            lines.append("target %s%s" % (dev, opts))
            self.features.add("target")
        if self.tdm or self.r.random() < 0.3:
            tyname = "tdm" if self.tdm else self.r.choice(["standard", "gbs", "tdmx"])
            opts = ""
            if self.allow_meta_opts and self.r.random() < 0.5:
                opts = " " + self.meta_opts()
            lines.append("type %s%s" % (tyname, opts))
            self.features.add("type")
        return lines

    def meta_opts(self):
        n = self.r.randint(1, 3)
        parts = []
        keys = []
        for _ in range(n):
            k = self.r.choice(["shots", "cutoff_dim", "backend", "copies", "temporal_modes", "flag"])
            if k in keys:
                continue
            keys.append(k)
            r = self.r.random()
            if r < 0.5:
                v = str(self.r.randint(1, 100))
            elif r < 0.7:
                v = self.float_lit().text
            elif r < 0.8 and self.allow_strbool:
                v = '"%s"' % self.r.choice(["fock", "gaussian"])
            elif r < 0.9 and self.allow_strbool:
                v = self.r.choice(["True", "False"])
            else:
                v = self.expr(1, None).text
            parts.append("%s=%s" % (k, v))
        self.features.add("meta-opts")
        return "(" + ", ".join(parts) + ")"

    def script(self, nitems=None, syms_prob=0.0):
        lines = self.header()
        lines.append("")
        n = nitems if nitems is not None else self.r.randint(1, 8)
        for _ in range(n):
            r = self.r.random()
            syms = self.r.random() < syms_prob
            if r < 0.2:
                lines.append(self.scalar_decl())
            elif r < 0.32 and self.allow_arrays:
                lines.append(self.array_decl(with_params=syms and self.allow_params))
            elif r < 0.45 and self.allow_loops:
                lines.append(self.forloop(syms))
            else:
                lines.append(self.statement(self.r.choice([1, 2, 2, 3]), syms))
            if self.r.random() < 0.2:
                lines.append("")
        return "\n".join(lines) + "\n"
