"""Common machinery of the checks: build (translators, Coq, extraction, OCaml), model process,
obligation bookkeeping, evidence, violations, known findings."""
import fcntl
import hashlib
import json
import os
import re
import shutil
import subprocess
import sys
import time

VERIF = os.path.dirname(os.path.dirname(os.path.abspath(__file__)))
# evidence of registered runs goes to /verif/evidence; experiments on seeded changes (tools/eval_mutant.py) redirect it
EVIDENCE_DIR = os.environ.get("BB_EVIDENCE_DIR") or os.path.join(VERIF, "evidence")
REPO = os.environ.get("BB_REPO", "/repo")
COQ = os.path.join(VERIF, "coq")
GEN = os.path.join(COQ, "gen")
OCAML_BUILD = os.path.join(VERIF, "ocaml", "build")
BBMODEL = os.path.join(OCAML_BUILD, "bbmodel")
PY = "/venv/bin/python"
NCPU = 16

FORBIDDEN = re.compile(
    r"\b(Admitted|admit|Axiom|Axioms|Parameter|Parameters|Conjecture|Conjectures|Admit\s+Obligations|"
    r"Unset\s+Guard\s+Checking|Unset\s+Positivity\s+Checking|Unset\s+Universe\s+Checking|bypass_check|"
    r"type-in-type|impredicative-set|native_compute)\b")


def sha(s):
    if isinstance(s, str):
        s = s.encode()
    return hashlib.sha256(s).hexdigest()


def write_if_changed(path, text):
    try:
        if open(path).read() == text:
            return False
    except OSError:
        pass
    tmp = path + ".tmp%d" % os.getpid()
    with open(tmp, "w") as f:
        f.write(text)
    os.replace(tmp, path)
    return True


# --------------------------------------------------------------------------------------- build
class BuildStatus:
    def __init__(self):
        self.translator_errors = {}   # name -> message
        self.failed_v = {}            # relative .v path -> first error lines
        self.bbmodel_ok = False
        self.log = ""
        self.wall = 0.0

    def vo_ok(self, rel_v):
        vo = os.path.join(COQ, rel_v[:-2] + ".vo")
        return rel_v not in self.failed_v and os.path.exists(vo)


TRANSLATORS = [
    # (name, script, inputs relative to REPO (or special), output .v)
    ("g4_to_coq", "g4_to_coq.py", "G4Data.v"),
    ("atn_to_coq", "atn_to_coq.py", "AtnData.v"),
    ("facts_from_py", "facts_from_py.py", "Facts.v"),
]


def stub_for(out):
    """A failed translator leaves a stub so that files not depending on its data still build; every file that
    needs the data imports a name the stub does not define and therefore fails."""
    return "(* STUB: translator failed; see build log *)\nDefinition translator_failed_%s := tt.\n" % out[:-2]


def run_translators(status):
    os.makedirs(GEN, exist_ok=True)
    for name, script, out in TRANSLATORS:
        sp = os.path.join(VERIF, "translators", script)
        if not os.path.exists(sp):
            continue
        dst = os.path.join(GEN, out)
        tmp = dst + ".new"
        r = subprocess.run([PY, sp, REPO, tmp], capture_output=True, text=True, timeout=300)
        if r.returncode != 0 or not os.path.exists(tmp):
            status.translator_errors[name] = (r.stderr or r.stdout).strip()[-2000:]
            write_if_changed(dst, stub_for(out))
            if os.path.exists(tmp):
                os.remove(tmp)
        else:
            text = open(tmp).read()
            os.remove(tmp)
            write_if_changed(dst, text)


def coq_files():
    out = []
    for line in open(os.path.join(COQ, "_CoqProject")):
        line = line.strip()
        if line.endswith(".v"):
            out.append(line)
    return out


def scan_forbidden():
    """grep the hand-written development for declarations / switches the brief forbids"""
    hits = []
    for rel in coq_files():
        if rel.startswith("gen/"):
            continue
        p = os.path.join(COQ, rel)
        try:
            src = open(p).read()
        except OSError:
            continue
        # strip comments (non-nested is enough for our files) and strings
        src2 = re.sub(r"\(\*.*?\*\)", " ", src, flags=re.S)
        src2 = re.sub(r'"[^"]*"', '""', src2)
        for m in FORBIDDEN.finditer(src2):
            hits.append("%s: %s" % (rel, m.group(0)))
    return hits


def build(verbose=False):
    """Regenerate gen/*.v from REPO, rebuild Coq (full .vo), extraction and the OCaml binary. Serialised by a lock."""
    status = BuildStatus()
    t0 = time.time()
    lock = open(os.path.join(VERIF, ".build.lock"), "w")
    fcntl.flock(lock, fcntl.LOCK_EX)
    try:
        run_translators(status)
        mk = os.path.join(COQ, "Makefile")
        cp = os.path.join(COQ, "_CoqProject")
        if not os.path.exists(mk) or os.path.getmtime(mk) < os.path.getmtime(cp):
            subprocess.run(["coq_makefile", "-f", "_CoqProject", "-o", "Makefile"], cwd=COQ, check=True,
                           capture_output=True)
        r = subprocess.run(["timeout", "1500", "make", "-k", "-j%d" % NCPU], cwd=COQ, capture_output=True, text=True)
        status.log = r.stdout + r.stderr
        # attribute errors to files
        cur = None
        for line in status.log.splitlines():
            m = re.match(r'File "\./([^"]+\.v)", line (\d+)', line)
            if m:
                cur = m.group(1)
                status.failed_v.setdefault(cur, line)
            elif cur and line.startswith("Error"):
                status.failed_v[cur] += " " + line
            m = re.search(r"\*\*\* \[[^\]]*?:\s*\d+: ([^\]]+?)\.vo\] Error", line)
            if m:
                status.failed_v.setdefault(m.group(1) + ".v", "make: failed")
        # drop warnings-only mentions: a file is failed only if its .vo is missing or make said Error for it
        really = {}
        for rel, msg in status.failed_v.items():
            vo = os.path.join(COQ, rel[:-2] + ".vo")
            if "Error" in msg or "failed" in msg or not os.path.exists(vo):
                really[rel] = msg
        status.failed_v = really
        for rel in coq_files():
            vo = os.path.join(COQ, rel[:-2] + ".vo")
            if not os.path.exists(vo) and rel not in status.failed_v:
                status.failed_v[rel] = "not built (dependency failed)"
        # OCaml
        ml = os.path.join(COQ, "bbmodel.ml")
        if status.vo_ok("extract/Extract.v") and os.path.exists(ml):
            os.makedirs(OCAML_BUILD, exist_ok=True)
            srcs = [ml, os.path.join(COQ, "bbmodel.mli"), os.path.join(VERIF, "ocaml", "driver.ml")]
            stamp = sha("".join(open(s).read() for s in srcs))
            stamp_file = os.path.join(OCAML_BUILD, "stamp")
            old = open(stamp_file).read() if os.path.exists(stamp_file) else ""
            if old != stamp or not os.path.exists(BBMODEL):
                for s in srcs:
                    shutil.copy(s, OCAML_BUILD)
                r2 = subprocess.run(["timeout", "600", "ocamlfind", "ocamlopt", "-O3", "-w", "-a", "-package", "str",
                                     "-linkpkg", "bbmodel.mli", "bbmodel.ml", "driver.ml", "-o", "bbmodel"],
                                    cwd=OCAML_BUILD, capture_output=True, text=True)
                status.log += r2.stdout + r2.stderr
                if r2.returncode == 0:
                    open(stamp_file, "w").write(stamp)
                elif os.path.exists(BBMODEL):
                    os.remove(BBMODEL)
            status.bbmodel_ok = os.path.exists(BBMODEL)
        else:
            status.bbmodel_ok = False
    finally:
        fcntl.flock(lock, fcntl.LOCK_UN)
        lock.close()
    status.wall = time.time() - t0
    if verbose:
        print(status.log[-3000:])
    return status


def print_assumptions(rel_v):
    """Re-run coqc on a props file (its dependencies are compiled) and collect what Print Assumptions says.
    Returns (ok, {theorem: text})."""
    lock = open(os.path.join(VERIF, ".build.lock"), "w")
    fcntl.flock(lock, fcntl.LOCK_SH)
    try:
        scratch = os.path.join(COQ, ".pa", str(os.getpid()))
        os.makedirs(scratch, exist_ok=True)
        args = ["timeout", "600", "coqc", "-q", "-Q", "model", "BB", "-Q", "proofs", "BB", "-Q", "gen", "BB",
                "-Q", "props", "BB", "-Q", "extract", "BB", "-o", os.path.join(scratch, os.path.basename(rel_v)[:-2] + ".vo"), rel_v]
        r = subprocess.run(args, cwd=COQ, capture_output=True, text=True)
        shutil.rmtree(scratch, ignore_errors=True)
    finally:
        fcntl.flock(lock, fcntl.LOCK_UN)
        lock.close()
    out = r.stdout
    src = open(os.path.join(COQ, rel_v)).read()
    names = re.findall(r"Print Assumptions\s+([A-Za-z_0-9']+)\s*\.", src)
    # coqc prints one block per Print Assumptions, in order
    blocks = re.split(r"(?=Closed under the global context|Axioms:)", out)
    blocks = [b.strip() for b in blocks if b.strip().startswith(("Closed under", "Axioms:"))]
    res = {}
    for i, n in enumerate(names):
        res[n] = blocks[i] if i < len(blocks) else "MISSING"
    return r.returncode == 0, res


# --------------------------------------------------------------------------------------- model process
class ModelError(Exception):
    pass


class Model:
    def __init__(self):
        if not os.path.exists(BBMODEL):
            raise ModelError("bbmodel binary missing")
        self.p = subprocess.Popen([BBMODEL], stdin=subprocess.PIPE, stdout=subprocess.PIPE, text=True, bufsize=1)

    def ask(self, *fields):
        line = "\t".join(fields)
        if "\n" in line:
            raise ModelError("newline in request")
        try:
            self.p.stdin.write(line + "\n")
            self.p.stdin.flush()
            out = self.p.stdout.readline()
        except BrokenPipeError:
            out = ""
        if not out:
            # the model process died (stack overflow, ...): restart for later requests
            try:
                self.p.kill()
            except Exception:
                pass
            self.p = subprocess.Popen([BBMODEL], stdin=subprocess.PIPE, stdout=subprocess.PIPE, text=True, bufsize=1)
            raise ModelError("model process died on request %s" % line[:200])
        return out.rstrip("\n")

    def close(self):
        try:
            self.p.stdin.close()
            self.p.wait(timeout=5)
        except Exception:
            self.p.kill()

    # typed helpers
    def lex(self, text):
        out = self.ask("LEX", ",".join(str(ord(c)) for c in text))
        if not out.startswith("OK"):
            raise ModelError("LEX -> %s" % out)
        toks = []
        for t in out[2:].split():
            k, a, b, ln, col = map(int, t.split(":"))
            toks.append((k, a, b, ln, col))
        return toks

    def recognise(self, kinds):
        out = self.ask("RECOG", ",".join(map(str, kinds)))
        if out == "T":
            return True
        if out == "F":
            return False
        raise ModelError("RECOG -> %s" % out)


# --------------------------------------------------------------------------------------- results
class Result:
    """What one run of one property's check found."""

    def __init__(self, prop, tier, seed):
        self.prop = prop
        self.tier = tier
        self.seed = seed
        self.obligations = []        # (name, kind, discharged: bool, detail)
        self.evaluations = 0
        self.nontrivial = set()
        self.samples = []
        self.violations = []         # dict(kind, what, input)
        self.known = []              # strings for KNOWN-FINDING lines
        self.broken = []             # names of broken ties (proof / translator / correspondence)
        self.assumptions = {}
        self.extra = {}
        self.dist = {}
        self.t0 = time.time()

    def oblige(self, name, kind, ok, detail=""):
        self.obligations.append((name, kind, bool(ok), detail))
        if not ok:
            self.broken.append("%s (%s)%s" % (name, kind, (": " + detail) if detail else ""))

    def count(self, key, n=1):
        self.dist[key] = self.dist.get(key, 0) + n

    def case(self, canon, nontrivial, sample=None):
        self.evaluations += 1
        if nontrivial:
            self.nontrivial.add(sha(canon)[:16])
        if sample is not None and len(self.samples) < 8:
            self.samples.append(sample)

    def violate(self, what, inp, kind="input"):
        self.violations.append({"kind": kind, "what": what, "input": inp})


def load_known():
    p = os.path.join(VERIF, "known_findings.json")
    try:
        return json.load(open(p))["findings"]
    except OSError:
        return []


def finish(res, level="proof", trusted=None, rule="", checker_cmd="", assumptions=None):
    """Write evidence, print KNOWN-FINDING / VIOLATION lines, return the exit code."""
    os.makedirs(EVIDENCE_DIR, exist_ok=True)
    os.makedirs(os.path.join(VERIF, "replays"), exist_ok=True)
    for f in os.listdir(os.path.join(VERIF, "replays")):
        if f.startswith(res.prop + "-") and f.endswith(".json"):
            os.remove(os.path.join(VERIF, "replays", f))
    nviol = 0
    lines = []
    for k in res.known:
        lines.append("KNOWN-FINDING: property=%s %s" % (res.prop, k))
    found_input = False
    for v in res.violations:
        found_input = True
        h = sha(json.dumps(v, sort_keys=True, default=str))[:12]
        rp = os.path.join(VERIF, "replays", "%s-%s.json" % (res.prop, h))
        json.dump({"property": res.prop, "seed": res.seed, "tier": res.tier, **v}, open(rp, "w"), indent=1, default=str)
        lines.append("VIOLATION property=%s replay=%s" % (res.prop, rp))
        nviol += 1
        if nviol >= 5:
            break
    if res.broken and not found_input:
        h = sha(json.dumps(res.broken))[:12]
        rp = os.path.join(VERIF, "replays", "%s-tie-%s.json" % (res.prop, h))
        json.dump({"property": res.prop, "seed": res.seed, "tier": res.tier, "kind": "broken-tie",
                   "no_longer_checks": res.broken,
                   "note": "a theorem / translator obligation / correspondence no longer checks and the search found "
                           "no input on which the implementation violates the property"}, open(rp, "w"), indent=1)
        lines.append("VIOLATION property=%s replay=%s no-failing-input-found" % (res.prop, rp))
        nviol += 1
    nobl = len(res.obligations)
    ndis = sum(1 for o in res.obligations if o[2])
    cov = {
        "obligations": max(nobl, 1) if nobl else 0,
        "discharged": ndis,
        "checker_cmd": checker_cmd or "cd /verif/coq && make (coqc 8.16.1, full .vo) ; coqc props/%s.v (Print Assumptions)" % res.prop,
        "trusted_base": trusted or [],
        "evaluations": res.evaluations,
        "distinct_nontrivial": len(res.nontrivial),
        "rule": rule,
        "samples": res.samples[:8] if res.samples else ["(no sample recorded)"],
        "obligation_list": [{"name": o[0], "kind": o[1], "discharged": o[2], "detail": o[3]} for o in res.obligations],
        "input_distribution": res.dist,
        "print_assumptions": res.assumptions,
        "broken_ties": res.broken,
        "known_findings_replayed": res.known,
    }
    cov.update(res.extra)
    ev = {
        "property_id": res.prop, "tier": res.tier, "seed": res.seed, "level": level, "coverage": cov,
        "assumptions": assumptions or [], "wall_s": round(time.time() - res.t0, 2), "violations": nviol,
    }
    json.dump(ev, open(os.path.join(EVIDENCE_DIR, "%s.json" % res.prop), "w"), indent=1, default=str)
    for ln in lines:
        print(ln)
    sys.stdout.flush()
    return 1 if nviol else 0


# --------------------------------------------------------------------------------------- proof obligations
ALLOWED_AXIOMS = set()     # the development is closed under the global context; extend only with stdlib axioms named in DESIGN.md


def proof_obligations(res, status, props_file, needs, translators=("g4_to_coq",)):
    """Record the machine-checked part of a property: translators ran, the files it needs compiled (full .vo),
    the props file compiled, every Print Assumptions is closed (or within ALLOWED_AXIOMS), no forbidden
    declaration anywhere in the development."""
    for t in translators:
        err = status.translator_errors.get(t)
        res.oblige("translator:%s" % t, "translator", err is None, err or "")
    for rel in needs:
        res.oblige("coq:%s" % rel, "proof", status.vo_ok(rel), status.failed_v.get(rel, ""))
    ok = status.vo_ok(props_file)
    res.oblige("coq:%s" % props_file, "proof", ok, status.failed_v.get(props_file, ""))
    if ok:
        ok2, ass = print_assumptions(props_file)
        res.assumptions = ass
        for thm, text in ass.items():
            closed = text.startswith("Closed under the global context")
            if not closed and text.startswith("Axioms:"):
                names = re.findall(r"^([A-Za-z_0-9.']+)\s*:", text[len("Axioms:"):], re.M)
                closed = bool(names) and all(n in ALLOWED_AXIOMS for n in names)
            res.oblige("theorem:%s" % thm, "proof", closed, "" if closed else text[:300])
        if not ass:
            res.oblige("theorems-present:%s" % props_file, "proof", False, "no Print Assumptions output")
    hits = scan_forbidden()
    res.oblige("no Admitted/Axiom/Parameter/guard switches in the development", "proof", not hits, "; ".join(hits[:5]))


TRUSTED_COMMON = [
    "Coq 8.16.1 kernel (coqc, full .vo build; vm_compute used for finite identities; no native_compute)",
    "axioms: none (every property theorem prints 'Closed under the global context')",
    "translators T1 g4_to_coq.py / T2 atn_to_coq.py / T3 facts_from_py.py (Python, fail-closed)",
    "extraction: ExtrOcamlBasic only (bool, option, unit, list, prod, sumbool -> OCaml); no Extract Constant; nat/N/Z/positive stay inductive; OCaml 4.13.1; ocaml/driver.ml",
    "correspondence harness (lib/*.py) and its generators",
    "modelled, not verified: CPython, numpy, sympy, networkx, the ANTLR 4.9.2 Python runtime (ATN deserialiser, ALL(*) prediction, error strategy, tree walker); the C++ target beyond artefact identity",
]
