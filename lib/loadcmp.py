"""Shared engine of the loader properties: run the implementation and the model on one script and compare."""
import re
import zlib

import observe

SYNTAX_RE = re.compile(r"Blackbird SyntaxError \(line (\d+):(\d+)\)")


def impl_outcome(impl, text, loader=None):
    """-> ('ok', program) | ('error', exception)"""
    try:
        if loader is None and text.isascii() and zlib.crc32(text.encode()) % 4 == 0 and hasattr(impl, "load_via_file"):
            # every fourth script goes through the other entry point (blackbird.load of a file holding the same text)
            p = impl.load_via_file(text)
        else:
            p = (loader or impl.loads)(text)
        return "ok", p
    except RecursionError as e:
        return "error", e
    except Exception as e:  # noqa: BLE001
        return "error", e


def describe_exc(e):
    return "%s: %s" % (type(e).__name__, str(e)[:200])


def nontrivial(text):
    """>= 2 statements/declarations after the header, or >= 2 operators"""
    body = [ln for ln in text.split("\n")[2:] if ln.strip() and not ln.startswith(("target", "type", "include"))]
    return len(body) >= 2 or len(re.findall(r"[-+*/]", text)) >= 2


def compare_load(res, model, impl, text, tag, stats, files=None, cwd="/", loader=None, check_vars=True, gr=None):
    """returns 'agree' | 'violation' | 'skip'.  Records the case in res (evaluations, distribution)."""
    mo = observe.model_loads(model, text, cwd=cwd, files=files)
    kind, val = impl_outcome(impl, text, loader)
    res.case(text, nontrivial(text), None)
    if mo["out"] == "unspec":
        res.count("%s:unspec" % tag)
        return "skip"
    if mo["out"] == "refuse":
        cls = mo["err"]["cls"]
        if cls == "syntax" and gr is not None:
            # the model parser is not proved complete: trust the (proved) recogniser for the verdict
            toks = model.lex(text)
            kinds = [t[0] for t in toks if t[0] not in gr.skip_types] + [0]
            if model.recognise(kinds):
                res.count("%s:model-parser-incomplete" % tag)
                return "skip"
        res.count("%s:refuse:%s" % (tag, cls))
        if kind == "ok":
            res.violate("the script must be refused (%s) but was loaded as a program" % cls,
                        {"check": "load", "text": text, "files": files, "expect": mo["err"]})
            return "violation"
        if cls in ("undefined", "reserved_reg", "reserved_kw"):
            msg = str(val)
            m = SYNTAX_RE.search(msg)
            e = mo["err"]
            ok = type(val).__name__ == "BlackbirdSyntaxError" and m is not None and int(m.group(1)) == e["line"] \
                and int(m.group(2)) in (e["col"], e["col"] + 1) and ("'%s'" % e["name"]) in msg
            if not ok:
                res.violate("expected BlackbirdSyntaxError naming '%s' at line %d column %d (0- or 1-based), got %s"
                            % (e["name"], e["line"], e["col"], describe_exc(val)),
                            {"check": "load", "text": text, "files": files, "expect": e})
                return "violation"
        return "agree"
    # model: ok
    res.count("%s:ok" % tag)
    if kind != "ok":
        res.violate("a valid script was refused: %s" % describe_exc(val), {"check": "load", "text": text, "files": files})
        return "violation"
    diffs = observe.cmp_prog(mo["v"], val, stats, check_vars=check_vars)
    if diffs:
        res.violate("loaded program differs from the program the script denotes: " + "; ".join(diffs[:4]),
                    {"check": "load", "text": text, "files": files})
        return "violation"
    return "agree"


def replay_load(prop, rep):
    import framework as fw
    import impl
    from gram import Grammar
    fw.build()
    model = fw.Model()
    res = fw.Result(prop, "quick", 0)
    inp = rep["input"]
    st = compare_load(res, model, impl, inp["text"], "replay", {}, files=inp.get("files"), gr=Grammar())
    for v in res.violations:
        print(v["what"])
    return 1 if st == "violation" else 0


def run_property(prop, tier, seed, cases, needs, rule, extra=None, predicate=None, translators=("g4_to_coq",),
                 budget_s=None, trusted_extra=None, known=None, known_lines=None):
    """Generic driver of a loader-style property check.
    cases(rng, quick, gr) yields dicts: {"tag":..., "text":..., "files":..., optional "pred": callable(impl) -> msg|None}
    """
    import random
    import time

    import framework as fw
    from framework import Result, finish, proof_obligations
    res = Result(prop, tier, seed)
    res.known = list(known_lines or [])
    rng = random.Random(seed)
    status = fw.build()
    proof_obligations(res, status, "props/%s.v" % prop, needs, translators=translators)
    quick = tier == "quick"
    stats = {}
    if status.bbmodel_ok:
        import impl
        from gram import Grammar
        try:
            gr = Grammar()
        except Exception:  # noqa: BLE001
            gr = None
        model = fw.Model()
        t_end = time.time() + (budget_s or (75 if quick else 1500))
        ok = True
        nshown = 0
        try:
            for c in cases(rng, quick, gr):
                if time.time() > t_end:
                    res.extra["stopped_by_time_budget"] = True
                    break
                if "text" in c:
                    st = compare_load(res, model, impl, c["text"], c["tag"], stats, files=c.get("files"), gr=gr,
                                      check_vars=c.get("check_vars", True))
                    if st == "violation":
                        ok = False
                    if nshown < 5 and st == "agree" and len(c["text"]) < 600:
                        res.samples.append({"tag": c["tag"], "script": c["text"]})
                        nshown += 1
                if "pred" in c:
                    msg = c["pred"](impl)
                    res.count("%s:predicate" % c["tag"])
                    if "text" not in c:
                        res.case(c.get("key", c["tag"]), True, None)
                    if msg:
                        ok = False
                        res.violate(msg, c.get("input", {"check": "pred", "tag": c["tag"]}))
                if len(res.violations) >= 5:
                    break
        except fw.ModelError as e:
            res.oblige("model answers every request", "correspondence", False, str(e)[:200])
        res.oblige("correspondence: implementation = model (and the property predicate holds) on every generated case",
                   "correspondence", ok, "" if ok else "%d disagreement(s)" % len(res.violations))
        model.close()
        # route violations that match a recorded known finding
        if known:
            keep = []
            for v in res.violations:
                hit = None
                for k in known:
                    if k["property"] == prop and k.get("status") == "known" and k["match"](v):
                        hit = k
                        break
                if hit is None:
                    keep.append(v)
            res.violations = keep
    else:
        res.oblige("model binary available", "correspondence", False, "bbmodel not built")
    res.extra["comparison_stats"] = stats
    if extra:
        res.extra.update(extra)
    return finish(res, level="proof", trusted=fw.TRUSTED_COMMON + (trusted_extra or []), rule=rule,
                  assumptions=["numpy/sympy/ANTLR runtime behave on unsampled inputs as on the sampled ones",
                               "real/complex values are compared with the exact value of the model's term under a "
                               "forward error bound (lib/numerics.py); ill-conditioned cases are only loosely compared"])
