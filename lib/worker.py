"""Subprocess worker: runs the implementation in a pristine interpreter (own PYTHONHASHSEED, own cwd) on a batch of
requests read from stdin (JSON) and prints canonical observations (JSON).  Used by C08, C12, C19, C07."""
import json
import os
import sys
import warnings

warnings.filterwarnings("ignore")
REPO = os.environ.get("BB_REPO", "/repo")
sys.path.insert(0, os.path.join(REPO, "blackbird_python"))
sys.setrecursionlimit(20000)

import numpy as np  # noqa: E402
import sympy as sym  # noqa: E402

import blackbird  # noqa: E402
from blackbird.listener import RegRefTransform  # noqa: E402

POINTS = [0.7133, 1.2917, 0.4361, 1.8123, 0.9377]
import types
FUNCS = (types.FunctionType, types.BuiltinFunctionType, types.MethodType, types.ModuleType)      # code is not program state


def point(names, k):
    names = sorted(names)
    return {n: POINTS[(i * 2 + k) % len(POINTS)] + k / 17.0 for i, n in enumerate(names)}


def canon(v):
    if isinstance(v, RegRefTransform):
        names = ["q%d" % r for r in v.regrefs]
        vals = []
        for k in range(3):
            pt = point(names, k)
            try:
                vals.append(complex(v.func(*[pt[n] for n in names])))
            except Exception as e:  # noqa: BLE001
                vals.append("error:" + type(e).__name__)
        return ["trf", sorted(int(r) for r in v.regrefs), [[x.real, x.imag] if isinstance(x, complex) else x for x in vals], len(set(v.regrefs)) == len(v.regrefs)]
    if isinstance(v, (bool, np.bool_)):
        return ["bool", bool(v)]
    if isinstance(v, (int, np.integer)):
        return ["int", int(v)]
    if isinstance(v, (float, np.floating)):
        return ["float", float(v).hex()]
    if isinstance(v, (complex, np.complexfloating)):
        return ["complex", float(v.real).hex(), float(v.imag).hex()]
    if isinstance(v, str):
        return ["str", v]
    if isinstance(v, sym.Expr):
        names = sorted(str(s) for s in v.free_symbols)
        f = sym.lambdify([sym.Symbol(n) for n in names], v)
        vals = []
        for k in range(3):
            pt = point(names, k)
            try:
                x = complex(f(*[pt[n] for n in names]))
                vals.append([x.real, x.imag])
            except Exception as e:  # noqa: BLE001
                vals.append("error:" + type(e).__name__)
        return ["sym", names, vals]
    if isinstance(v, np.ndarray):
        return ["arr", v.dtype.kind, list(v.shape), [canon(x) for x in v.reshape(-1).tolist()] if v.dtype.kind == "O" else [canon(x) for x in v.reshape(-1)]]
    if isinstance(v, (list, tuple)):
        return ["list", [canon(x) for x in v]]
    if v is None:
        return ["none"]
    return ["other", type(v).__name__, repr(v)]


def observe(p):
    ops = []
    for o in p.operations:
        ops.append({"op": o["op"], "has_args": "args" in o, "args": [canon(a) for a in o.get("args", [])],
                    "kwargs": [[k, canon(v)] for k, v in o.get("kwargs", {}).items()], "modes": [canon(m) for m in o["modes"]]})
    return {"name": p.name, "version": p.version,
            "target": [p.target["name"], [[k, canon(v)] for k, v in p.target["options"].items()]],
            "type": [p.programtype["name"], [[k, canon(v)] for k, v in p.programtype["options"].items()]],
            "ops": ops, "op_keys": [list(o.keys()) for o in p.operations], "modes": sorted(repr(m) for m in p.modes), "params": sorted(p.parameters),
            "vars": sorted([k, canon(v)] for k, v in p.variables.items()), "len": len(p)}


def outcome(fn):
    try:
        p = fn()
        d = {"out": "ok", "obs": observe(p)}
        try:
            d["dump"] = blackbird.dumps(p)
            again = blackbird.dumps(p)
            if again != d["dump"]:
                d["dump_again"] = again       # serialising the same object twice gives two texts
        except Exception as e:  # noqa: BLE001
            d["dump_error"] = "%s: %s" % (type(e).__name__, str(e)[:200])
        return d
    except RecursionError:
        return {"out": "error", "cls": "RecursionError", "msg": ""}
    except Exception as e:  # noqa: BLE001
        return {"out": "error", "cls": type(e).__name__, "msg": str(e)[:300]}


def main():
    req = json.load(sys.stdin)
    out = []
    if req.get("reclimit"):
        sys.setrecursionlimit(int(req["reclimit"]))      # the interpreter's default, for checks about process-wide settings
    if req.get("cwd") == "@removed":
        # a working directory that no longer exists (a scratch directory cleaned up under the process)
        import tempfile
        d = tempfile.mkdtemp(prefix="bbverif.", dir="/var/tmp")
        os.chdir(d)
        os.rmdir(d)
    elif req.get("cwd"):
        os.chdir(req["cwd"])
    for item in req["items"]:
        kind = item["kind"]
        if kind == "loads":
            out.append(outcome(lambda: blackbird.loads(item["text"])))
        elif kind == "load":
            out.append(outcome(lambda: blackbird.load(item["path"])))
        elif kind == "pristine":
            # every step in its own freshly forked child of this (otherwise untouched) interpreter
            res = []
            for step in item["steps"]:
                r, w = os.pipe()
                pid = os.fork()
                if pid == 0:
                    try:
                        os.close(r)
                        if step.get("cwd"):
                            os.chdir(step["cwd"])
                        if "text" in step:
                            o = outcome(lambda: blackbird.loads(step["text"]))
                        else:
                            o = outcome(lambda: blackbird.load(step["path"]))
                        with os.fdopen(w, "w") as f:
                            json.dump(o, f)
                    finally:
                        os._exit(0)
                os.close(w)
                with os.fdopen(r) as f:
                    data = f.read()
                os.waitpid(pid, 0)
                res.append(json.loads(data) if data else {"out": "error", "cls": "ChildDied", "msg": ""})
            out.append(res)
        elif kind == "history":
            # a sequence of loads in ONE (pristine, forked) process: every outcome is reported
            r0, w0 = os.pipe()
            pid0 = os.fork()
            if pid0 != 0:
                os.close(w0)
                with os.fdopen(r0) as f0:
                    data0 = f0.read()
                os.waitpid(pid0, 0)
                out.append(json.loads(data0) if data0 else {"steps": [], "shared": [], "died": True})
                continue
            os.close(r0)
            _child_out = []
            out, _parent_out = _child_out, out
            res = []
            progs = []
            for step in item["steps"]:
                holder = []
                if "write" in step:
                    # the file system changes between two loads (no library call involved)
                    with open(step["write"], "w") as fh:
                        fh.write(step["content"])
                    if step.get("mtime"):
                        os.utime(step["write"], (step["mtime"], step["mtime"]))
                    res.append({"out": "written"})
                    progs.append(None)
                    continue

                if "customise" in step:
                    # the caller edits a program it was given, in place (its own copy: nothing a later load returns may change)
                    q = progs[step["customise"]]
                    try:
                        if q is not None:
                            q.target["options"]["shots"] = 100
                            q.target["options"]["copies"] = 3
                            q.programtype["options"]["temporal_modes"] = 77
                            q.variables["zz_custom"] = 1.5
                            for o in q.operations:
                                o["modes"].append(41)
                                o.setdefault("kwargs", {})["zz_custom"] = 2
                                if o.get("args"):
                                    o["args"][0] = "edited"
                            q.operations.append({"op": "Custom", "modes": [40]})
                            if isinstance(q.modes, set):
                                q.modes.add(40)
                            for v in q.variables.values():
                                if isinstance(v, np.ndarray) and v.dtype.kind in "if":
                                    v[...] = 0
                    except Exception:  # noqa: BLE001
                        pass
                    res.append({"out": "customised"})
                    progs.append(None)
                    continue

                def run(step=step, holder=holder):
                    if step.get("cwd"):
                        os.chdir(step["cwd"])
                    p = blackbird.loads(step["text"]) if "text" in step else blackbird.load(step["path"])
                    holder.append(p)
                    return p
                cwd_before = os.getcwd()
                o_ = outcome(run)
                if not step.get("cwd") and os.getcwd() != cwd_before:
                    # the load itself moved the process to another working directory: every later load that names a file or an
                    # include relatively is resolved elsewhere from now on
                    o_["working_directory_changed_by_the_load"] = os.getcwd()
                res.append(o_)
                progs.append(holder[0] if holder else None)
            # programs returned by different loads share no mutable state
            def mutable_ids(x, acc, depth=0):
                if depth > 12:
                    return
                if isinstance(x, (list, dict, set, np.ndarray)) or hasattr(x, "__dict__") and not isinstance(x, (sym.Basic, type, FUNCS)):
                    if id(x) in acc:
                        return
                    acc.add(id(x))
                if isinstance(x, dict):
                    for v in x.values():
                        mutable_ids(v, acc, depth + 1)
                elif isinstance(x, (list, tuple, set)):
                    for v in x:
                        mutable_ids(v, acc, depth + 1)
                elif isinstance(x, np.ndarray) and x.dtype == object:
                    for v in x.reshape(-1):
                        mutable_ids(v, acc, depth + 1)
                elif hasattr(x, "__dict__") and not isinstance(x, (sym.Basic, type, FUNCS)):
                    for v in vars(x).values():
                        mutable_ids(v, acc, depth + 1)
            sets = []
            for p in progs:
                acc = set()
                if p is not None:
                    mutable_ids(p, acc)
                sets.append(acc)
            shared = []
            for i in range(len(sets)):
                for j in range(i + 1, len(sets)):
                    if sets[i] & sets[j]:
                        shared.append([i, j])
            with os.fdopen(w0, "w") as f0:
                json.dump({"steps": res, "shared": shared}, f0)
            os._exit(0)
        else:
            out.append({"out": "error", "cls": "BadRequest", "msg": kind})
    json.dump(out, sys.stdout)


if __name__ == "__main__":
    main()
