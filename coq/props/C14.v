(* C14 — the shipped lexers and parsers correspond to src/blackbird.g4.
   Property theorems only; each is closed by [exact] of a lemma proved elsewhere. *)
From Coq Require Import List NArith Arith String.
Import ListNotations.
From BB Require Import Ebnf Chars Lexer Syntax G4Data AtnData EbnfP LexerP LrecP ArtefactsP GrammarP LexTotalP.

(* (a) the oracles: for every character string the model lexer returns the token sequence prescribed by
   the grammar file (longest match, earliest rule wins ties), and it is the only such sequence *)
Theorem C14_lex_spec : forall (w:list N) (K F:nat) ts,
  lex_raw lex_g lex_rules w K F = Some ts ->
  LexSpec lex_g lex_rules w 0 ts /\ forall ts', LexSpec lex_g lex_rules w 0 ts' -> ts' = ts.
Proof. exact (lex_spec lex_g lex_rules). Qed.
Print Assumptions C14_lex_spec.

(* ... and it answers on EVERY character string when given the fuels of the front end (closure fuel 8|w|+64, depth 64):
   the oracle of the lexer comparison is total *)
Theorem C14_lex_total : forall (w:list N), lex lex_g lex_rules w (8 * List.length w + 64) 64 <> None.
Proof. exact lex_total. Qed.
Print Assumptions C14_lex_total.

(* for every token sequence the model recogniser decides membership in the language of the grammar file *)
Theorem C14_recognise_correct : forall (toks:list nat) (K F:nat) b,
  recognise nat nat Nat.eqb pg toks K F (Ref start_rule) = Some b ->
  (b = true <-> M nat nat Nat.eqb pg toks (Ref start_rule) 0 (List.length toks)).
Proof. exact (fun toks K F b => recognise_correct nat nat Nat.eqb pg toks K F (Ref start_rule) b). Qed.
Print Assumptions C14_recognise_correct.

(* ... and that language is the language of the grammar AS WRITTEN, whose `expression` rule is left-recursive
   (the translator only regroups its alternatives into prim | pre E | E bin E; the loop form is proved equivalent) *)
Theorem C14_recognise_correct_lr : forall (toks:list nat) (K F:nat) b,
  recognise nat nat Nat.eqb pg toks K F (Ref start_rule) = Some b ->
  (b = true <-> M nat nat Nat.eqb pg_lr toks (Ref start_rule) 0 (List.length toks)).
Proof. exact recognise_correct_lr. Qed.
Print Assumptions C14_recognise_correct_lr.

(* the token kinds used by the model's parser are the token types of the grammar file *)
Theorem C14_tk_table_ok : map (fun p => tk_name (tk_of_nat (fst p))) token_names = map snd token_names.
Proof. exact tk_table_ok. Qed.
Print Assumptions C14_tk_table_ok.

(* (b) artefact identities, on the data regenerated from the working tree *)
Theorem C14_atn_py_eq_cpp : atn_lexer_py = atn_lexer_cpp /\ atn_parser_py = atn_parser_cpp.
Proof. exact (conj atn_lexer_py_eq_cpp atn_parser_py_eq_cpp). Qed.
Print Assumptions C14_atn_py_eq_cpp.

Theorem C14_atn_eq_interp :
  atn_lexer_py = atn_lexer_interp_py /\ atn_lexer_py = atn_lexer_interp_cpp /\
  atn_parser_py = atn_parser_interp_py /\ atn_parser_py = atn_parser_interp_cpp.
Proof. exact (conj atn_lexer_eq_interp_py (conj atn_lexer_eq_interp_cpp (conj atn_parser_eq_interp_py atn_parser_eq_interp_cpp))). Qed.
Print Assumptions C14_atn_eq_interp.

Theorem C14_tokens_files_from_g4 :
  tokens_parser_py = tokens_expected /\ tokens_lexer_py = tokens_expected /\
  tokens_parser_cpp = tokens_expected /\ tokens_lexer_cpp = tokens_expected.
Proof. exact tokens_files_from_g4. Qed.
Print Assumptions C14_tokens_files_from_g4.

Theorem C14_token_numbering_from_g4 : numbering_ok = true.
Proof. exact token_numbering_from_g4. Qed.
Print Assumptions C14_token_numbering_from_g4.

Theorem C14_symbolic_names_from_g4 :
  lexer_symbolic_py = symbolic_expected /\ parser_symbolic_py = symbolic_expected /\
  lexer_symbolic_cpp = symbolic_expected /\ parser_symbolic_cpp = symbolic_expected /\
  interp_lexer_symbolic_py = symbolic_expected /\ interp_parser_symbolic_py = symbolic_expected /\
  interp_lexer_symbolic_cpp = symbolic_expected /\ interp_parser_symbolic_cpp = symbolic_expected.
Proof. exact symbolic_names_from_g4. Qed.
Print Assumptions C14_symbolic_names_from_g4.

Theorem C14_literal_names_from_g4 :
  nonempty lexer_literals_py = nonempty literals_expected_full /\
  strip_trailing parser_literals_py = strip_trailing literals_expected_full /\
  strip_trailing lexer_literals_cpp = strip_trailing literals_expected_full /\
  strip_trailing parser_literals_cpp = strip_trailing literals_expected_full /\
  strip_trailing interp_lexer_literals_py = strip_trailing literals_expected_full /\
  strip_trailing interp_parser_literals_py = strip_trailing literals_expected_full /\
  strip_trailing interp_lexer_literals_cpp = strip_trailing literals_expected_full /\
  strip_trailing interp_parser_literals_cpp = strip_trailing literals_expected_full.
Proof. exact literal_names_from_g4. Qed.
Print Assumptions C14_literal_names_from_g4.

Theorem C14_rule_names_from_g4 :
  parser_rules_py = parser_rule_names /\ parser_rules_cpp = parser_rule_names /\
  interp_parser_rules_py = parser_rule_names /\ interp_parser_rules_cpp = parser_rule_names /\
  lexer_rules_py = lex_rule_names /\ lexer_rules_cpp = lex_rule_names /\
  interp_lexer_rules_py = lex_rule_names /\ interp_lexer_rules_cpp = lex_rule_names.
Proof. exact rule_names_from_g4. Qed.
Print Assumptions C14_rule_names_from_g4.

(* the decision numbers used by the generated Python parser code are those of its embedded automaton *)
Theorem C14_predict_sites_ok : forallb predict_site_ok py_predict_sites = true.
Proof. exact predict_sites_ok. Qed.
Print Assumptions C14_predict_sites_ok.

(* non-vacuity: the lexer does answer, e.g. on "pi**2j" (PI, PWR, COMPLEX: longest match) *)
Example C14_lex_example :
  lex_raw lex_g lex_rules [112;105;42;42;50;106]%N 64 64 = Some [(14, 0, 2); (4, 2, 4); (10, 4, 6)].
Proof. vm_compute. reflexivity. Qed.
(* and the recogniser accepts "name x NEWLINE version 1.0 EOF" *)
Example C14_recognise_example :
  recognise nat nat Nat.eqb pg [19;58;16;20;10;0] 64 400 (Ref start_rule) = Some true.
Proof. vm_compute. reflexivity. Qed.
