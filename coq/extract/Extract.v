(* Extraction of the executable model to OCaml.  ExtrOcamlBasic only: bool, option, unit, list, prod,
   sumbool map to OCaml's; nat, N, Z, positive stay inductive. No Extract Constant directive. *)
From Coq Require Extraction.
From Coq Require Import ExtrOcamlBasic.
From Coq Require Import List NArith ZArith.
From BB Require Import Ebnf Viable Chars Lexer G4Data Syntax Parser Unparse Render Graph Values Eval Loader Serialize Skeleton.

Definition bb_lex (w:list N) (K F:nat) : option (list token) := lex lex_g lex_rules w K F.
Definition bb_recognise (toks:list nat) (K F:nat) : option bool :=
  recognise nat nat Nat.eqb pg toks K F (Ref start_rule).

Definition bb_parse (w:list N) (K F:nat) : option (option script) :=
  match bb_lex w K F with
  | Some ts => Some (pscript (4 * List.length ts + 16) ts)
  | None => None
  end.

Definition bb_loads (fs:list (str * list N)) (cwd:str) (w:list N) : outcome prog := loads lex_g lex_rules fs cwd w.
Definition bb_load (fs:list (str * list N)) (cwd:str) (filename:str) : outcome prog := load lex_g lex_rules fs cwd filename.

Definition bb_instantiate (fs:list (str * list N)) (cwd:str) (w:list N) (sg:list (str * (Z * Z))) : outcome prog :=
  match bb_loads fs cwd w with
  | Ok p => instantiate (map (fun kv => (fst kv, TDec (fst (snd kv)) (snd (snd kv)))) sg) p
  | Refuse c => Refuse c
  | Unspec => Unspec
  end.

(* skeleton of the script the model serialiser writes for the program denoted by [w], and of a parsed text *)
Definition bb_ser_skel (cwd:str) (w:list N) : option (list str) :=
  match bb_loads nil cwd w with
  | Ok p => option_map script_skel (ser_script p)
  | _ => None
  end.
(* the TEXT the model writes for the program denoted by [w]: serialise, print to tokens, render (RenderP.ser_text_roundtrip) *)
Definition bb_ser_text (cwd:str) (w:list N) : option (list N) :=
  match bb_loads nil cwd w with
  | Ok p => option_map (fun sc => render (up_script sc)) (ser_script p)
  | _ => None
  end.
Definition bb_text_skel (w:list N) : option (list str) :=
  match front lex_g lex_rules (with_final_newline w) with
  | Ok sc => Some (script_skel sc)
  | _ => None
  end.

(* is the token sequence (without EOF) a prefix of a sentence of `start`? *)
Definition bb_viable (toks:list nat) (K F:nat) : option bool :=
  viable nat nat Nat.eqb pg toks K F (Ref start_rule).

Extraction "bbmodel.ml" bb_lex bb_recognise bb_viable bb_parse bb_loads bb_load bb_instantiate bb_ser_skel bb_ser_text bb_text_skel edges nodes.
