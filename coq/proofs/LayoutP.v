(* C18 — layout insensitivity.
   PART 1: the parser and the evaluator do not look at layout text (the text of NEWLINE / TAB tokens) or at
           positions, except to report the position of an error.
   PART 2: lexer facts about comments, spaces, line ends and tabs. *)
From Coq Require Import List NArith ZArith Bool Arith Lia.
Import ListNotations.
From BB Require Import Ebnf Chars Lexer Syntax Parser Values Eval EbnfP LexerP G4Data.

(* ================================================================================================ *)
(* PART 1a — the parser is blind to layout text and positions                                        *)
(* ================================================================================================ *)

Definition same_tok (a b : token) : Prop :=
  tkind a = tkind b /\ (tkk a = TNEWLINE \/ tkk a = TTAB \/ ttext a = ttext b).

Fixpoint erase_expr (e:expr) : expr :=
  match e with
  | ENum k t => ENum k t
  | EVar x _ _ => EVar x 0 0
  | EReg t => EReg t
  | EIdx x _ _ a => EIdx x 0 0 (erase_expr a)
  | EPar p => EPar p
  | EBr a => EBr (erase_expr a)
  | ESign n a => ESign n (erase_expr a)
  | EPow a b => EPow (erase_expr a) (erase_expr b)
  | EMul d a b => EMul d (erase_expr a) (erase_expr b)
  | EAdd s a b => EAdd s (erase_expr a) (erase_expr b)
  | EFun f a => EFun f (erase_expr a)
  end.
Definition erase_val (v:val) : val := match v with VE e => VE (erase_expr e) | _ => v end.
Definition erase_kwval (k:kwval) : kwval :=
  match k with KV v => KV (erase_val v) | KL l => KL (map erase_val l) end.
Definition erase_kw (kv : str * kwval) : str * kwval := (fst kv, erase_kwval (snd kv)).
Definition erase_args (a:arguments) : arguments := mkargs (map erase_val (apos a)) (map erase_kw (akw a)).
Definition erase_stmt (s:stmt) : stmt :=
  mkstmt (sop s) (option_map erase_args (sargs s)) (map erase_expr (smodes s)).
Definition erase_dname (d:dname) : dname :=
  match d with DName s => DName s | DReg s _ _ => DReg s 0 0 | DReserved s _ _ => DReserved s 0 0 end.
Definition erase_arrbody (b:arrbody) : arrbody :=
  match b with ARows rows => ARows (map (map erase_expr) rows) | AParam p => AParam p end.
Definition erase_forhdr (h:forhdr) : forhdr :=
  match h with HRange a b c => HRange a b c | HList l => HList (map erase_val l) end.
Definition erase_item (it:item) : item :=
  match it with
  | IScalar ty n init _ _ => IScalar ty (erase_dname n) (erase_val init) 0 0
  | IArray ty n sh body _ _ => IArray ty (erase_dname n) sh (erase_arrbody body) 0 0
  | IStmt s => IStmt (erase_stmt s)
  | IFor ty x h body => IFor ty x (erase_forhdr h) (map erase_stmt body)
  end.
Definition erase_meta (m : option (str * option arguments)) : option (str * option arguments) :=
  option_map (fun p => (fst p, option_map erase_args (snd p))) m.
Definition erase_script (sc:script) : script :=
  mkscript (sc_name sc) (sc_version sc) (erase_meta (sc_target sc)) (erase_meta (sc_type sc))
           (sc_includes sc) (map erase_item (sc_items sc)).

(* ---- canonical representative of a token up to [same_tok] ---- *)
Definition is_layout (k:tk) : bool := match k with TNEWLINE | TTAB => true | _ => false end.
Definition canon (t:token) : token :=
  mktok (tkind t) (if is_layout (tkk t) then [] else ttext t) 0 0 0 0.

Lemma same_tok_canon a b : same_tok a b <-> canon a = canon b.
Proof.
  unfold same_tok, canon, tkk. destruct a as [ka xa la ca sa ea], b as [kb xb lb cb sb eb]; simpl. split.
  - intros (E & H). subst kb. destruct H as [H|[H|H]]; [rewrite H; reflexivity|rewrite H; reflexivity|subst; reflexivity].
  - intros H. injection H as E1 E2. subst kb. split; [reflexivity|].
    destruct (tk_of_nat ka); simpl in E2; auto.
Qed.

Lemma same_toks_canon ts ts' : Forall2 same_tok ts ts' <-> map canon ts = map canon ts'.
Proof.
  split.
  - induction 1 as [|a b l l' H _ IH]; simpl; [reflexivity|]. apply same_tok_canon in H. congruence.
  - revert ts'. induction ts as [|a l IH]; intros [|b l']; simpl; intros H; try discriminate; constructor.
    + apply same_tok_canon. congruence.
    + apply IH. congruence.
Qed.

Lemma same_tok_refl a : same_tok a a.
Proof. apply same_tok_canon; reflexivity. Qed.
Lemma same_tok_sym a b : same_tok a b -> same_tok b a.
Proof. rewrite !same_tok_canon; auto. Qed.
Lemma same_tok_trans a b c : same_tok a b -> same_tok b c -> same_tok a c.
Proof. rewrite !same_tok_canon; congruence. Qed.

Lemma tkk_canon t : tkk (canon t) = tkk t.
Proof. reflexivity. Qed.
Lemma isk_canon k t : isk k (canon t) = isk k t.
Proof. reflexivity. Qed.
Lemma tline_canon t : tline (canon t) = 0. Proof. reflexivity. Qed.
Lemma tcol_canon t : tcol (canon t) = 0. Proof. reflexivity. Qed.
Lemma ttext_canon t : is_layout (tkk t) = false -> ttext (canon t) = ttext t.
Proof. unfold canon; simpl. intros ->. reflexivity. Qed.
Lemma canon_idem t : canon (canon t) = canon t.
Proof. unfold canon, tkk; simpl. destruct (is_layout (tk_of_nat (tkind t))); reflexivity. Qed.
Lemma peek_canon ts : peek (map canon ts) = peek ts.
Proof. destruct ts; reflexivity. Qed.
Lemma isk_true k t : isk k t = true <-> tkk t = k.
Proof. unfold isk. split; [apply internal_tk_dec_bl|apply internal_tk_dec_lb]. Qed.
Lemma isk_text k t : isk k t = true -> is_layout k = false -> ttext (canon t) = ttext t.
Proof. intros H L. apply isk_true in H. apply ttext_canon. rewrite H. exact L. Qed.

Global Opaque canon.

(* result of a parser function on the canonical token stream = erased result, canonical rest *)
Definition rmap {A} (er : A -> A) (x : option (A * list token)) : option (A * list token) :=
  option_map (fun p => (er (fst p), map canon (snd p))) x.

(* the relational reading of a commutation lemma *)
Definition Rres {A} (er : A -> A) (x y : option (A * list token)) : Prop :=
  match x, y with
  | None, None => True
  | Some (a, r), Some (a', r') => er a = er a' /\ Forall2 same_tok r r'
  | _, _ => False
  end.

Lemma natural_rel {A} (er : A -> A) (px : list token -> option (A * list token)) :
  (forall ts, px (map canon ts) = rmap er (px ts)) ->
  forall ts ts', Forall2 same_tok ts ts' -> Rres er (px ts) (px ts').
Proof.
  intros Hpx ts ts' H. apply same_toks_canon in H.
  pose proof (Hpx ts) as H1. pose proof (Hpx ts') as H2. rewrite H in H1. rewrite H1 in H2. clear H1.
  unfold Rres. destruct (px ts) as [[a r]|], (px ts') as [[a' r']|]; simpl in H2; try discriminate; auto.
  injection H2 as E1 E2. split; auto. apply same_toks_canon; auto.
Qed.

(* ---- expressions: views of the two mutually recursive functions ---- *)
Inductive lbop := LPow | LMul (d:bool) | LAdd (s:bool).
Definition lbop_of_tk (k:tk) : option lbop :=
  match k with
  | TPWR => Some LPow | TTIMES => Some (LMul false) | TDIVIDE => Some (LMul true)
  | TPLUS => Some (LAdd false) | TMINUS => Some (LAdd true) | _ => None
  end.
Definition lprec (o:lbop) : nat := match o with LPow => 8 | LMul _ => 7 | LAdd _ => 6 end.
Definition lrprec (o:lbop) : nat := match o with LPow => 8 | LMul _ => 8 | LAdd _ => 7 end.
Definition lmkbin (o:lbop) (a b:expr) : expr :=
  match o with LPow => EPow a b | LMul d => EMul d a b | LAdd s => EAdd s a b end.

Lemma ploop_view f p e t r : ploop (S f) p e (t :: r) =
  match lbop_of_tk (tkk t) with
  | Some o => if p <=? lprec o
              then match pexpr f (lrprec o) r with Some (b, r') => ploop f p (lmkbin o e b) r' | None => None end
              else Some (e, t :: r)
  | None => Some (e, t :: r)
  end.
Proof. cbn [ploop]. destruct (tkk t); reflexivity. Qed.

Inductive lhd := LNum (k:numkind) | LReg | LName | LBrace | LBrac | LSign (neg:bool) | LFun (fu:fn) | LBad.
Definition lhd_of (k:tk) : lhd :=
  match k with
  | TINT => LNum NKInt | TFLOAT => LNum NKFloat | TCOMPLEX => LNum NKComplex | TPI => LNum NKPi
  | TREGREF => LReg | TNAME => LName | TLBRACE => LBrace | TLBRAC => LBrac
  | TPLUS => LSign false | TMINUS => LSign true
  | k => match fn_of_tk k with Some fu => LFun fu | None => LBad end
  end.

Lemma pexpr_view f p t r : pexpr (S f) p (t :: r) =
  match lhd_of (tkk t) with
  | LNum k => ploop f p (ENum k (ttext t)) r
  | LReg => ploop f p (EReg (ttext t)) r
  | LName =>
      match r with
      | o :: r1 =>
          if isk TLSQBRAC o then
            match pexpr f 0 r1 with
            | Some (e, c :: r2) => if isk TRSQBRAC c then ploop f p (EIdx (ttext t) (tline t) (tcol t) e) r2 else None
            | _ => None
            end
          else ploop f p (EVar (ttext t) (tline t) (tcol t)) r
      | [] => ploop f p (EVar (ttext t) (tline t) (tcol t)) r
      end
  | LBrace =>
      match r with
      | n :: c :: r' => if (isk TNAME n && isk TRBRACE c)%bool then ploop f p (EPar (ttext n)) r' else None
      | _ => None
      end
  | LBrac =>
      match pexpr f 0 r with
      | Some (e, c :: r') => if isk TRBRAC c then ploop f p (EBr e) r' else None
      | _ => None
      end
  | LSign neg => match pexpr f 9 r with Some (e, r') => ploop f p (ESign neg e) r' | None => None end
  | LFun fu =>
      match r with
      | o :: r1 =>
          if isk TLBRAC o then
            match pexpr f 0 r1 with
            | Some (e, c :: r2) => if isk TRBRAC c then ploop f p (EFun fu e) r2 else None
            | _ => None
            end
          else None
      | [] => None
      end
  | LBad => None
  end.
Proof. cbn [pexpr]. destruct (tkk t); reflexivity. Qed.

Lemma lhd_layout k : is_layout k = true -> lhd_of k = LBad.
Proof. destruct k; simpl; intros H; try discriminate; reflexivity. Qed.

Lemma erase_lmkbin o a b : erase_expr (lmkbin o a b) = lmkbin o (erase_expr a) (erase_expr b).
Proof. destruct o; reflexivity. Qed.

(* generic step: case analysis on a boolean test of a token kind, recording the text equation *)
Local Ltac isk_case k t :=
  let E := fresh "E" in
  destruct (isk k t) eqn:E;
  [ try (rewrite (isk_text k t E eq_refl)) | ].

Lemma pexpr_ploop_canon : forall f,
  (forall p ts, pexpr f p (map canon ts) = rmap erase_expr (pexpr f p ts)) /\
  (forall p e ts, ploop f p (erase_expr e) (map canon ts) = rmap erase_expr (ploop f p e ts)).
Proof.
  induction f as [|f [IHe IHl]]; [split; reflexivity|]. split.
  - intros p [|t r]; [reflexivity|]. cbn [map]. rewrite !pexpr_view, tkk_canon.
    destruct (is_layout (tkk t)) eqn:EL.
    { rewrite (lhd_layout _ EL). reflexivity. }
    rewrite (ttext_canon t EL), tline_canon, tcol_canon.
    destruct (lhd_of (tkk t)).
    + apply (IHl p (ENum k (ttext t))).
    + apply (IHl p (EReg (ttext t))).
    + destruct r as [|o r1]; cbn [map].
      * apply (IHl p (EVar (ttext t) (tline t) (tcol t)) []).
      * rewrite isk_canon. destruct (isk TLSQBRAC o).
        -- rewrite IHe. destruct (pexpr f 0 r1) as [[e [|c r2]]|]; try reflexivity. cbn [rmap option_map fst snd map].
           rewrite isk_canon. destruct (isk TRSQBRAC c); [|reflexivity].
           apply (IHl p (EIdx (ttext t) (tline t) (tcol t) e)).
        -- apply (IHl p (EVar (ttext t) (tline t) (tcol t)) (o :: r1)).
    + destruct r as [|n [|c r']]; try reflexivity. cbn [map]. rewrite !isk_canon.
      isk_case TNAME n; [|reflexivity]. destruct (isk TRBRACE c); [|reflexivity]. cbn [andb].
      apply (IHl p (EPar (ttext n))).
    + rewrite IHe. destruct (pexpr f 0 r) as [[e [|c r']]|]; try reflexivity. cbn [rmap option_map fst snd map].
      rewrite isk_canon. destruct (isk TRBRAC c); [|reflexivity]. apply (IHl p (EBr e)).
    + rewrite IHe. destruct (pexpr f 9 r) as [[e r']|]; try reflexivity. cbn [rmap option_map fst snd].
      apply (IHl p (ESign neg e)).
    + destruct r as [|o r1]; [reflexivity|]. cbn [map]. rewrite isk_canon. destruct (isk TLBRAC o); [|reflexivity].
      rewrite IHe. destruct (pexpr f 0 r1) as [[e [|c r2]]|]; try reflexivity. cbn [rmap option_map fst snd map].
      rewrite isk_canon. destruct (isk TRBRAC c); [|reflexivity]. apply (IHl p (EFun fu e)).
    + reflexivity.
  - intros p e [|t r]; [reflexivity|]. cbn [map]. rewrite !ploop_view, tkk_canon.
    destruct (lbop_of_tk (tkk t)) as [o|]; [|reflexivity].
    destruct (p <=? lprec o); [|reflexivity].
    rewrite IHe. destruct (pexpr f (lrprec o) r) as [[b r']|]; [|reflexivity]. cbn [rmap option_map fst snd].
    rewrite <- erase_lmkbin. apply IHl.
Qed.

Lemma pexpr_canon f p ts : pexpr f p (map canon ts) = rmap erase_expr (pexpr f p ts).
Proof. apply pexpr_ploop_canon. Qed.
Lemma ploop_canon f p e ts : ploop f p (erase_expr e) (map canon ts) = rmap erase_expr (ploop f p e ts).
Proof. apply pexpr_ploop_canon. Qed.

(* ---- values, separated lists ---- *)
Lemma pval_canon f ts : pval f (map canon ts) = rmap erase_val (pval f ts).
Proof.
  destruct ts as [|t r]; [reflexivity|]. unfold pval. cbn [map]. rewrite tkk_canon.
  change (canon t :: map canon r) with (map canon (t :: r)). rewrite pexpr_canon.
  assert (HT : tkk t = TSTR \/ tkk t = TBOOL -> ttext (canon t) = ttext t).
  { intros [H|H]; apply ttext_canon; rewrite H; reflexivity. }
  destruct (tkk t); try (rewrite HT by auto); try reflexivity;
    destruct (pexpr f 0 (t :: r)) as [[e r']|]; reflexivity.
Qed.

Lemma psep_canon {A} (er : A -> A) (px : list token -> option (A * list token)) :
  (forall ts, px (map canon ts) = rmap er (px ts)) ->
  forall f ts, psep px f (map canon ts) = rmap (map er) (psep px f ts).
Proof.
  intros Hpx. induction f as [|f IH]; intros ts; [reflexivity|]. cbn [psep]. rewrite Hpx.
  destruct (px ts) as [[x [|c r1]]|]; try reflexivity. cbn [rmap option_map fst snd map].
  rewrite isk_canon. destruct (isk TCOMMA c); [|reflexivity]. rewrite IH.
  destruct (psep px f r1) as [[xs r2]|]; reflexivity.
Qed.

Lemma parrayrow_canon f ts : parrayrow f (map canon ts) = rmap (map erase_expr) (parrayrow f ts).
Proof. unfold parrayrow. apply psep_canon. intros; apply pexpr_canon. Qed.
Lemma pvallist_canon f ts : pvallist f (map canon ts) = rmap (map erase_val) (pvallist f ts).
Proof. unfold pvallist. apply psep_canon. intros; apply pval_canon. Qed.

(* ---- arguments ---- *)
Lemma pkwarg_canon f ts : pkwarg f (map canon ts) = rmap erase_kw (pkwarg f ts).
Proof.
  destruct ts as [|n [|a r]]; try reflexivity. unfold pkwarg. cbn [map]. rewrite !isk_canon.
  isk_case TNAME n; [|reflexivity]. destruct (isk TASSIGN a); [|reflexivity]. cbn [andb].
  destruct r as [|o r1]; [reflexivity|]. cbn [map]. rewrite isk_canon. destruct (isk TLSQBRAC o).
  - destruct r1 as [|c r2]; [reflexivity|]. cbn [map]. rewrite isk_canon. destruct (isk TRSQBRAC c); [reflexivity|].
    change (canon c :: map canon r2) with (map canon (c :: r2)). rewrite pvallist_canon.
    destruct (pvallist f (c :: r2)) as [[l [|c' r3]]|]; try reflexivity. cbn [rmap option_map fst snd map].
    rewrite isk_canon. destruct (isk TRSQBRAC c'); reflexivity.
  - change (canon o :: map canon r1) with (map canon (o :: r1)). rewrite pval_canon.
    destruct (pval f (o :: r1)) as [[v r']|]; reflexivity.
Qed.

Lemma kwstart_canon ts : kwstart (map canon ts) = kwstart ts.
Proof. destruct ts as [|n [|a r]]; reflexivity. Qed.

Lemma pposargs_canon f : forall ts, pposargs f (map canon ts) = rmap (map erase_val) (pposargs f ts).
Proof.
  induction f as [|f IH]; intros ts; [reflexivity|]. cbn [pposargs]. rewrite peek_canon, kwstart_canon.
  destruct (tk_beq (peek ts) TRBRAC || kwstart ts)%bool; [reflexivity|]. rewrite pval_canon.
  destruct (pval f ts) as [[v [|c r1]]|]; try reflexivity. cbn [rmap option_map fst snd map].
  rewrite isk_canon. destruct (isk TCOMMA c); [|reflexivity]. rewrite IH.
  destruct (pposargs f r1) as [[vs r2]|]; reflexivity.
Qed.

Definition plead (f:nat) (r:list token) : option (list val * list token) :=
  let r0 := match r with c :: r' => if isk TCOMMA c then r' else r | [] => r end in
  let lead := match r with c :: _ => isk TCOMMA c | [] => false end in
  if lead then Some ([], r0) else pposargs f r.
Definition pargs_tail (f:nat) (vs:list val) (r1:list token) : option (arguments * list token) :=
  if kwstart r1 then
    match psep (pkwarg f) f r1 with
    | Some (kws, c :: r2) => if isk TRBRAC c then Some (mkargs vs kws, r2) else None
    | _ => None
    end
  else match r1 with
       | c :: r2 => if isk TRBRAC c then Some (mkargs vs [], r2) else None
       | [] => None
       end.
Lemma parguments_eq f o r : parguments f (o :: r) =
  if isk TLBRAC o then match plead f r with Some (vs, r1) => pargs_tail f vs r1 | None => None end else None.
Proof. reflexivity. Qed.

Lemma plead_canon f r : plead f (map canon r) = rmap (map erase_val) (plead f r).
Proof.
  unfold plead. destruct r as [|c r']; cbn [map]; [apply (pposargs_canon f [])|].
  rewrite isk_canon. destruct (isk TCOMMA c); [reflexivity|]. apply (pposargs_canon f (c :: r')).
Qed.
Lemma pargs_tail_canon f vs r1 :
  pargs_tail f (map erase_val vs) (map canon r1) = rmap erase_args (pargs_tail f vs r1).
Proof.
  unfold pargs_tail. rewrite kwstart_canon. destruct (kwstart r1).
  - rewrite (psep_canon erase_kw (pkwarg f) (pkwarg_canon f)).
    destruct (psep (pkwarg f) f r1) as [[kws [|c r2]]|]; try reflexivity. cbn [rmap option_map fst snd map].
    rewrite isk_canon. destruct (isk TRBRAC c); reflexivity.
  - destruct r1 as [|c r2]; [reflexivity|]. cbn [map]. rewrite isk_canon. destruct (isk TRBRAC c); reflexivity.
Qed.
Lemma parguments_canon f ts : parguments f (map canon ts) = rmap erase_args (parguments f ts).
Proof.
  destruct ts as [|o r]; [reflexivity|]. cbn [map]. rewrite !parguments_eq, isk_canon.
  destruct (isk TLBRAC o); [|reflexivity]. rewrite plead_canon.
  destruct (plead f r) as [[vs r1]|]; [|reflexivity]. cbn [rmap option_map fst snd]. apply pargs_tail_canon.
Qed.

(* ---- optional brackets ---- *)
Lemma drop_closer_canon ts : drop_closer (map canon ts) = map canon (drop_closer ts).
Proof.
  destruct ts as [|c r]; [reflexivity|]. cbn [map]. unfold drop_closer. rewrite tkk_canon.
  destruct (is_closer (tkk c)); reflexivity.
Qed.
Lemma pbracketed_view {A} (px : list token -> option (A * list token)) follow o r :
  pbracketed px follow (o :: r) =
  let altB := match px (o :: r) with Some (x, r1) => Some (x, drop_closer r1) | None => None end in
  if isk TLSQBRAC o then match px r with Some (x, r1) => Some (x, drop_closer r1) | None => None end
  else if isk TLBRAC o then
         match px r with
         | Some (x, r1) => let r2 := drop_closer r1 in if follow (peek r2) then Some (x, r2) else altB
         | None => altB
         end
  else altB.
Proof. unfold pbracketed, isk. destruct (tkk o); reflexivity. Qed.

Lemma pbracketed_canon {A} (er : A -> A) (px : list token -> option (A * list token)) follow :
  (forall ts, px (map canon ts) = rmap er (px ts)) ->
  forall ts, pbracketed px follow (map canon ts) = rmap er (pbracketed px follow ts).
Proof.
  intros Hpx [|o r]; [reflexivity|]. cbn [map]. rewrite !pbracketed_view. cbv zeta. rewrite !isk_canon.
  change (canon o :: map canon r) with (map canon (o :: r)). rewrite !Hpx.
  assert (HB : match rmap er (px (o :: r)) with Some (x, r1) => Some (x, drop_closer r1) | None => None end
               = rmap er (match px (o :: r) with Some (x, r1) => Some (x, drop_closer r1) | None => None end)).
  { destruct (px (o :: r)) as [[x r1]|]; [|reflexivity]. cbn [rmap option_map fst snd]. rewrite drop_closer_canon. reflexivity. }
  destruct (isk TLSQBRAC o).
  { destruct (px r) as [[x r1]|]; [|reflexivity]. cbn [rmap option_map fst snd]. rewrite drop_closer_canon. reflexivity. }
  destruct (isk TLBRAC o); [|exact HB].
  destruct (px r) as [[x r1]|]; [|exact HB]. cbn [rmap option_map fst snd] in *.
  rewrite drop_closer_canon, peek_canon. destruct (follow (peek (drop_closer r1))); [reflexivity|exact HB].
Qed.

(* ---- statements ---- *)
Definition after_args (f:nat) (r:list token) : option (option arguments * list token) :=
  if tk_beq (peek r) TLBRAC then
    match parguments f r with Some (a, r1) => Some (Some a, r1) | None => None end
  else Some (None, r).
Lemma pstatement_eq f n r : pstatement f (n :: r) =
  if (isk TNAME n || isk TMEASURE n)%bool then
    match after_args f r with
    | Some (a, b :: r1) =>
        if isk TAPPLY b then
          match pbracketed (parrayrow f) stmt_follow r1 with
          | Some (ms, r2) => Some (mkstmt (ttext n) a ms, r2)
          | None => None
          end
        else None
    | _ => None
    end
  else None.
Proof. reflexivity. Qed.
Lemma after_args_canon f r : after_args f (map canon r) = rmap (option_map erase_args) (after_args f r).
Proof.
  unfold after_args. rewrite peek_canon. destruct (tk_beq (peek r) TLBRAC); [|reflexivity].
  rewrite parguments_canon. destruct (parguments f r) as [[a r1]|]; reflexivity.
Qed.
Lemma pstatement_canon f ts : pstatement f (map canon ts) = rmap erase_stmt (pstatement f ts).
Proof.
  destruct ts as [|n r]; [reflexivity|]. cbn [map]. rewrite !pstatement_eq, !isk_canon.
  assert (HT : (isk TNAME n || isk TMEASURE n)%bool = true -> ttext (canon n) = ttext n).
  { intros H. apply orb_true_iff in H. destruct H as [H|H]; [exact (isk_text _ _ H eq_refl)|exact (isk_text _ _ H eq_refl)]. }
  destruct (isk TNAME n || isk TMEASURE n)%bool; [rewrite (HT eq_refl)|reflexivity].
  rewrite after_args_canon. destruct (after_args f r) as [[a [|b r1]]|]; try reflexivity.
  cbn [rmap option_map fst snd map]. rewrite isk_canon. destruct (isk TAPPLY b); [|reflexivity].
  rewrite (pbracketed_canon (map erase_expr) _ _ (parrayrow_canon f)).
  destruct (pbracketed (parrayrow f) stmt_follow r1) as [[ms r2]|]; reflexivity.
Qed.

Lemma skip_nl_canon ts : skip_nl (map canon ts) = map canon (skip_nl ts).
Proof.
  induction ts as [|t r IH]; [reflexivity|]. cbn [map skip_nl]. rewrite isk_canon.
  destruct (isk TNEWLINE t); [exact IH|reflexivity].
Qed.

(* ---- for loops ---- *)
Definition fb_rest (first:bool) (ts:list token) : list token :=
  if first then (match ts with n :: r => if isk TNEWLINE n then r else ts | [] => ts end) else skip_nl ts.
Definition fb_nl (ts:list token) : bool := match ts with n :: _ => isk TNEWLINE n | [] => false end.
Lemma pforbody_eq f first ts : pforbody (S f) first ts =
  match fb_rest first ts with
  | tb :: r =>
      if (fb_nl ts && isk TTAB tb)%bool then
        match pstatement f r with
        | Some (s, r1) =>
            match pforbody f false r1 with
            | Some (ss, r2) => Some (s :: ss, r2)
            | None => None
            end
        | None => None
        end
      else if first then None else Some ([], ts)
  | [] => if first then None else Some ([], ts)
  end.
Proof. reflexivity. Qed.
Lemma fb_rest_canon first ts : fb_rest first (map canon ts) = map canon (fb_rest first ts).
Proof.
  unfold fb_rest. destruct first; [|apply skip_nl_canon]. destruct ts as [|n r]; [reflexivity|].
  cbn [map]. rewrite isk_canon. destruct (isk TNEWLINE n); reflexivity.
Qed.
Lemma fb_nl_canon ts : fb_nl (map canon ts) = fb_nl ts.
Proof. destruct ts; [reflexivity|]. cbn [map fb_nl]. apply isk_canon. Qed.

Lemma pforbody_canon f : forall first ts,
  pforbody f first (map canon ts) = rmap (map erase_stmt) (pforbody f first ts).
Proof.
  induction f as [|f IH]; intros first ts; [reflexivity|]. rewrite !pforbody_eq, fb_rest_canon, fb_nl_canon.
  destruct (fb_rest first ts) as [|tb r]; cbn [map]; [destruct first; reflexivity|]. rewrite isk_canon.
  destruct (fb_nl ts && isk TTAB tb)%bool; [|destruct first; reflexivity]. rewrite pstatement_canon.
  destruct (pstatement f r) as [[s r1]|]; [|reflexivity]. cbn [rmap option_map fst snd]. rewrite IH.
  destruct (pforbody f false r1) as [[ss r2]|]; reflexivity.
Qed.

Definition pfor_list (f:nat) (r:list token) : option (forhdr * list token) :=
  match pbracketed (pvallist f) nl_follow r with Some (l, r1') => Some (HList l, r1') | None => None end.
Definition pfor_hdr (f:nat) (r:list token) : option (forhdr * list token) :=
  match r with
  | a :: c1 :: b :: r1 =>
      if (isk TINT a && isk TCOLON c1)%bool then
        if isk TINT b then
          match r1 with
          | c2 :: c :: r2 =>
              if isk TCOLON c2 then
                if isk TINT c then Some (HRange (ttext a) (ttext b) (Some (ttext c)), r2) else None
              else Some (HRange (ttext a) (ttext b) None, r1)
          | _ => Some (HRange (ttext a) (ttext b) None, r1)
          end
        else None
      else pfor_list f r
  | _ => pfor_list f r
  end.
Lemma pfor_eq f fo ty x i r : pfor f (fo :: ty :: x :: i :: r) =
  if (isk TFOR fo && isk TNAME x && isk TIN i)%bool then
    match vtype_of_tk (tkk ty) with
    | Some vt =>
        match pfor_hdr f r with
        | Some (h, r1) =>
            match pforbody f true r1 with
            | Some (body, r2) => Some (IFor vt (ttext x) h body, r2)
            | None => None
            end
        | None => None
        end
    | None => None
    end
  else None.
Proof. reflexivity. Qed.

Lemma pfor_list_canon f r : pfor_list f (map canon r) = rmap erase_forhdr (pfor_list f r).
Proof.
  unfold pfor_list. rewrite (pbracketed_canon (map erase_val) _ _ (pvallist_canon f)).
  destruct (pbracketed (pvallist f) nl_follow r) as [[l r1]|]; reflexivity.
Qed.
Lemma pfor_hdr_canon f r : pfor_hdr f (map canon r) = rmap erase_forhdr (pfor_hdr f r).
Proof.
  destruct r as [|a [|c1 [|b r1]]]; try apply pfor_list_canon.
  unfold pfor_hdr. cbn [map]. rewrite !isk_canon.
  destruct (isk TINT a) eqn:Ea; [rewrite (isk_text _ _ Ea eq_refl)|exact (pfor_list_canon f (a :: c1 :: b :: r1))].
  destruct (isk TCOLON c1); cbn [andb]; [|exact (pfor_list_canon f (a :: c1 :: b :: r1))].
  destruct (isk TINT b) eqn:Eb; [rewrite (isk_text _ _ Eb eq_refl)|reflexivity].
  destruct r1 as [|c2 [|c r2]]; try reflexivity. cbn [map]. rewrite !isk_canon.
  destruct (isk TCOLON c2); [|reflexivity].
  destruct (isk TINT c) eqn:Ec; [rewrite (isk_text _ _ Ec eq_refl)|]; reflexivity.
Qed.
Lemma pfor_canon f ts : pfor f (map canon ts) = rmap erase_item (pfor f ts).
Proof.
  destruct ts as [|fo [|ty [|x [|i r]]]]; try reflexivity. cbn [map]. rewrite !pfor_eq, !isk_canon, tkk_canon.
  destruct (isk TFOR fo); [|reflexivity]. destruct (isk TNAME x) eqn:Ex; [rewrite (isk_text _ _ Ex eq_refl)|reflexivity].
  destruct (isk TIN i); [|reflexivity]. cbn [andb]. destruct (vtype_of_tk (tkk ty)) as [vt|]; [|reflexivity].
  rewrite pfor_hdr_canon. destruct (pfor_hdr f r) as [[h r1]|]; [|reflexivity]. cbn [rmap option_map fst snd].
  rewrite pforbody_canon. destruct (pforbody f true r1) as [[body r2]|]; reflexivity.
Qed.

(* ---- declarations ---- *)
Lemma pdname_canon t : pdname (canon t) = option_map erase_dname (pdname t).
Proof.
  unfold pdname. rewrite tkk_canon, tline_canon, tcol_canon. destruct (is_layout (tkk t)) eqn:EL.
  - destruct (tkk t); try discriminate; reflexivity.
  - rewrite (ttext_canon t EL). destruct (tkk t); reflexivity.
Qed.

Lemma parrayval_canon f : forall ts, parrayval f (map canon ts) = rmap (map (map erase_expr)) (parrayval f ts).
Proof.
  induction f as [|f IH]; intros [|tb r]; try reflexivity. cbn [parrayval map]. rewrite isk_canon.
  destruct (isk TTAB tb); [|reflexivity]. rewrite parrayrow_canon.
  destruct (parrayrow f r) as [[row [|n r1]]|]; try reflexivity. cbn [rmap option_map fst snd map].
  rewrite isk_canon. destruct (isk TNEWLINE n); [|reflexivity]. rewrite IH.
  destruct (parrayval f r1) as [[rows r2]|]; reflexivity.
Qed.

Lemma pshape_canon f : forall ts, pshape f (map canon ts) = rmap (fun l => l) (pshape f ts).
Proof.
  induction f as [|f IH]; intros [|i r]; try reflexivity. cbn [pshape map]. rewrite isk_canon.
  destruct (isk TINT i) eqn:Ei; [rewrite (isk_text _ _ Ei eq_refl)|reflexivity].
  destruct r as [|c r1]; [reflexivity|]. cbn [map]. rewrite isk_canon. destruct (isk TCOMMA c); [|reflexivity].
  rewrite IH. destruct (pshape f r1) as [[l r2]|]; reflexivity.
Qed.

Lemma tl_canon ts : tl (map canon ts) = map canon (tl ts).
Proof. destruct ts; reflexivity. Qed.

Definition pdecl_tail (f:nat) (vt:vtype) (dn:dname) (shp:option (list str)) (l c:nat) (rr:list token)
  : option (item * list token) :=
  match rr with
  | a :: nl :: r3 =>
      if (isk TASSIGN a && isk TNEWLINE nl)%bool then
        if tk_beq (peek r3) TLBRACE then
          match r3 with
          | _ :: p :: c' :: r4 =>
              if (isk TNAME p && isk TRBRACE c')%bool
              then Some (IArray vt dn shp (AParam (ttext p)) l c, r4) else None
          | _ => None
          end
        else match parrayval f r3 with
             | Some (rows, r4) => Some (IArray vt dn shp (ARows rows) l c, r4)
             | None => None
             end
      else None
  | _ => None
  end.
Lemma pdecl_tail_canon f vt dn shp l c rr :
  pdecl_tail f vt (erase_dname dn) shp 0 0 (map canon rr) = rmap erase_item (pdecl_tail f vt dn shp l c rr).
Proof.
  destruct rr as [|a [|nl r3]]; try reflexivity. unfold pdecl_tail. cbn [map]. rewrite !isk_canon.
  destruct (isk TASSIGN a && isk TNEWLINE nl)%bool; [|reflexivity]. rewrite peek_canon.
  destruct (tk_beq (peek r3) TLBRACE).
  - destruct r3 as [|o [|p [|c' r4]]]; try reflexivity. cbn [map]. rewrite !isk_canon.
    destruct (isk TNAME p) eqn:Ep; [rewrite (isk_text _ _ Ep eq_refl)|reflexivity].
    destruct (isk TRBRACE c'); reflexivity.
  - rewrite parrayval_canon. destruct (parrayval f r3) as [[rows r4]|]; reflexivity.
Qed.

Lemma pdecl_canon f ts : pdecl f (map canon ts) = rmap erase_item (pdecl f ts).
Proof.
  destruct ts as [|ty r]; [reflexivity|]. unfold pdecl. cbn [map]. rewrite tkk_canon, tline_canon, tcol_canon.
  destruct (vtype_of_tk (tkk ty)) as [vt|]; [|reflexivity]. rewrite peek_canon.
  destruct (tk_beq (peek r) TTYPE_ARRAY).
  - destruct r as [|x [|n r1]]; try reflexivity. cbn [map]. rewrite pdname_canon.
    destruct (pdname n) as [dn|]; [|reflexivity]. cbn [option_map]. cbv zeta. rewrite peek_canon.
    destruct (tk_beq (peek r1) TLSQBRAC).
    + rewrite tl_canon, pshape_canon. destruct (pshape f (tl r1)) as [[l [|c r2]]|]; try reflexivity.
      cbn [rmap option_map fst snd map]. rewrite isk_canon. destruct (isk TRSQBRAC c); [|reflexivity].
      exact (pdecl_tail_canon f vt dn (Some l) (tline ty) (tcol ty) r2).
    + exact (pdecl_tail_canon f vt dn None (tline ty) (tcol ty) r1).
  - destruct r as [|n [|a r1]]; try reflexivity. cbn [map]. rewrite pdname_canon.
    destruct (pdname n) as [dn|]; [|reflexivity]. cbn [option_map]. rewrite isk_canon.
    destruct (isk TASSIGN a); [|reflexivity]. rewrite pval_canon. destruct (pval f r1) as [[v r2]|]; reflexivity.
Qed.

(* ---- program, includes, metadata, script ---- *)
Lemma pprogram_canon f : forall ts, pprogram f (map canon ts) = option_map (map erase_item) (pprogram f ts).
Proof.
  induction f as [|f IH]; intros [|t r]; try reflexivity. cbn [pprogram map]. rewrite tkk_canon.
  change (canon t :: map canon r) with (map canon (t :: r)). rewrite pfor_canon, pstatement_canon, pdecl_canon.
  destruct (tkk t); try exact (IH r);
    [ > match goal with |- context[match rmap _ ?X with _ => _ end] =>
          destruct X as [[it r1]|]; [|reflexivity]; cbn [rmap option_map fst snd]; rewrite IH;
          destruct (pprogram f r1); reflexivity end .. ].
Qed.

Lemma pincludes_canon f : forall ts,
  pincludes f (map canon ts) = (fst (pincludes f ts), map canon (snd (pincludes f ts))).
Proof.
  induction f as [|f IH]; intros ts; [reflexivity|]. destruct ts as [|t r]; [reflexivity|].
  cbn [pincludes map]. rewrite tkk_canon. destruct (tkk t) eqn:E; try reflexivity.
  - apply IH.
  - destruct r as [|s r1]; [reflexivity|]. cbn [map]. rewrite isk_canon.
    destruct (isk TSTR s) eqn:Es; [rewrite (isk_text _ _ Es eq_refl)|reflexivity]. rewrite IH.
    destruct (pincludes f r1); reflexivity.
Qed.

Lemma pmetaline_canon f kw dev ts :
  (forall k, dev k = true -> is_layout k = false) ->
  pmetaline f kw dev (map canon ts) = rmap erase_meta (pmetaline f kw dev ts).
Proof.
  intros Hdev. unfold pmetaline. cbv zeta. rewrite skip_nl_canon. destruct ts as [|n ts0]; [reflexivity|].
  destruct (skip_nl (n :: ts0)) as [|k [|d r1]]; try reflexivity. cbn [map]. rewrite isk_canon, !tkk_canon.
  destruct (isk TNEWLINE n && tk_beq (tkk k) kw)%bool; [|reflexivity].
  destruct (dev (tkk d)) eqn:Ed; [|reflexivity]. rewrite (ttext_canon d (Hdev _ Ed)), peek_canon.
  destruct (tk_beq (peek r1) TLBRAC); [|reflexivity]. rewrite parguments_canon.
  destruct (parguments f r1) as [[a r2]|]; reflexivity.
Qed.

Lemma is_device_text k : is_device k = true -> is_layout k = false.
Proof. destruct k; simpl; congruence. Qed.
Lemma is_name_text k : is_name k = true -> is_layout k = false.
Proof. destruct k; simpl; congruence. Qed.

Lemma pscript_canon f ts : pscript f (map canon ts) = option_map erase_script (pscript f ts).
Proof.
  unfold pscript. rewrite skip_nl_canon. destruct (skip_nl ts) as [|pn [|n [|nl r]]]; try reflexivity.
  cbn [map]. rewrite !isk_canon. destruct (isk TPROGNAME pn); [|reflexivity].
  destruct (isk TNAME n) eqn:En; [rewrite (isk_text _ _ En eq_refl)|reflexivity].
  destruct (isk TNEWLINE nl); [|reflexivity]. cbn [andb]. rewrite skip_nl_canon.
  destruct (skip_nl r) as [|v [|num r1]]; try reflexivity. cbn [map]. rewrite !isk_canon.
  destruct (isk TVERSION v); [|reflexivity].
  destruct (isk TFLOAT num) eqn:Enum; [rewrite (isk_text _ _ Enum eq_refl)|reflexivity]. cbn [andb].
  rewrite (pmetaline_canon f TTARGET is_device r1 is_device_text).
  destruct (pmetaline f TTARGET is_device r1) as [[tg r2]|]; [|reflexivity]. cbn [rmap option_map fst snd].
  rewrite (pmetaline_canon f TPROGTYPE is_name r2 is_name_text).
  destruct (pmetaline f TPROGTYPE is_name r2) as [[ty r3]|]; [|reflexivity]. cbn [rmap option_map fst snd].
  rewrite pincludes_canon. destruct (pincludes f r3) as [incs r4]. cbn [fst snd]. rewrite pprogram_canon.
  destruct (pprogram f r4); reflexivity.
Qed.

(* ---- the theorem, and the relational statement for every parser function ---- *)
Theorem parser_layout_blind f ts ts' :
  Forall2 same_tok ts ts' -> option_map erase_script (pscript f ts) = option_map erase_script (pscript f ts').
Proof. intros H. apply same_toks_canon in H. rewrite <- !pscript_canon, H. reflexivity. Qed.

Section Rel.
Variables (f : nat) (ts ts' : list token).
Hypothesis H : Forall2 same_tok ts ts'.

Lemma pexpr_blind p : Rres erase_expr (pexpr f p ts) (pexpr f p ts').
Proof. exact (natural_rel _ _ (pexpr_canon f p) _ _ H). Qed.
Lemma ploop_blind p e e' : erase_expr e = erase_expr e' -> Rres erase_expr (ploop f p e ts) (ploop f p e' ts').
Proof.
  intros E. pose proof (ploop_canon f p e ts) as H1. pose proof (ploop_canon f p e' ts') as H2.
  apply same_toks_canon in H. rewrite E, H in H1. rewrite H1 in H2. clear H1.
  unfold Rres. destruct (ploop f p e ts) as [[a r]|], (ploop f p e' ts') as [[a' r']|]; simpl in H2; try discriminate; auto.
  injection H2 as E1 E2. split; auto. apply same_toks_canon; auto.
Qed.
Lemma pval_blind : Rres erase_val (pval f ts) (pval f ts').
Proof. exact (natural_rel _ _ (pval_canon f) _ _ H). Qed.
Lemma psep_blind {A} (er : A -> A) px : (forall l, px (map canon l) = rmap er (px l)) ->
  Rres (map er) (psep px f ts) (psep px f ts').
Proof. intros Hpx. exact (natural_rel _ _ (psep_canon er px Hpx f) _ _ H). Qed.
Lemma parrayrow_blind : Rres (map erase_expr) (parrayrow f ts) (parrayrow f ts').
Proof. exact (natural_rel _ _ (parrayrow_canon f) _ _ H). Qed.
Lemma pvallist_blind : Rres (map erase_val) (pvallist f ts) (pvallist f ts').
Proof. exact (natural_rel _ _ (pvallist_canon f) _ _ H). Qed.
Lemma pkwarg_blind : Rres erase_kw (pkwarg f ts) (pkwarg f ts').
Proof. exact (natural_rel _ _ (pkwarg_canon f) _ _ H). Qed.
Lemma pposargs_blind : Rres (map erase_val) (pposargs f ts) (pposargs f ts').
Proof. exact (natural_rel _ _ (pposargs_canon f) _ _ H). Qed.
Lemma parguments_blind : Rres erase_args (parguments f ts) (parguments f ts').
Proof. exact (natural_rel _ _ (parguments_canon f) _ _ H). Qed.
Lemma pbracketed_blind {A} (er : A -> A) px follow : (forall l, px (map canon l) = rmap er (px l)) ->
  Rres er (pbracketed px follow ts) (pbracketed px follow ts').
Proof. intros Hpx. exact (natural_rel _ _ (pbracketed_canon er px follow Hpx) _ _ H). Qed.
Lemma pstatement_blind : Rres erase_stmt (pstatement f ts) (pstatement f ts').
Proof. exact (natural_rel _ _ (pstatement_canon f) _ _ H). Qed.
Lemma pforbody_blind first : Rres (map erase_stmt) (pforbody f first ts) (pforbody f first ts').
Proof. exact (natural_rel _ _ (pforbody_canon f first) _ _ H). Qed.
Lemma pfor_blind : Rres erase_item (pfor f ts) (pfor f ts').
Proof. exact (natural_rel _ _ (pfor_canon f) _ _ H). Qed.
Lemma parrayval_blind : Rres (map (map erase_expr)) (parrayval f ts) (parrayval f ts').
Proof. exact (natural_rel _ _ (parrayval_canon f) _ _ H). Qed.
Lemma pshape_blind : Rres (fun l => l) (pshape f ts) (pshape f ts').
Proof. exact (natural_rel _ _ (pshape_canon f) _ _ H). Qed.
Lemma pdecl_blind : Rres erase_item (pdecl f ts) (pdecl f ts').
Proof. exact (natural_rel _ _ (pdecl_canon f) _ _ H). Qed.
Lemma pprogram_blind : option_map (map erase_item) (pprogram f ts) = option_map (map erase_item) (pprogram f ts').
Proof. apply same_toks_canon in H. rewrite <- !pprogram_canon, H. reflexivity. Qed.
Lemma pincludes_blind :
  fst (pincludes f ts) = fst (pincludes f ts') /\ Forall2 same_tok (snd (pincludes f ts)) (snd (pincludes f ts')).
Proof.
  pose proof (pincludes_canon f ts) as H1. pose proof (pincludes_canon f ts') as H2.
  apply same_toks_canon in H. rewrite H in H1. rewrite H1 in H2. injection H2 as E1 E2.
  split; auto. apply same_toks_canon; auto.
Qed.
Lemma pmetaline_blind kw dev : (forall k, dev k = true -> is_layout k = false) ->
  Rres erase_meta (pmetaline f kw dev ts) (pmetaline f kw dev ts').
Proof. intros Hdev. exact (natural_rel _ _ (fun l => pmetaline_canon f kw dev l Hdev) _ _ H). Qed.
Lemma skip_nl_blind : Forall2 same_tok (skip_nl ts) (skip_nl ts').
Proof. apply same_toks_canon. rewrite <- !skip_nl_canon. apply same_toks_canon in H. congruence. Qed.
End Rel.

Lemma pdname_blind t t' : same_tok t t' -> option_map erase_dname (pdname t) = option_map erase_dname (pdname t').
Proof. intros H. apply same_tok_canon in H. rewrite <- !pdname_canon, H. reflexivity. Qed.

(* ================================================================================================ *)
(* PART 1b — the evaluator uses positions only in the position it reports with an error               *)
(* ================================================================================================ *)
Definition erase_err (c:errclass) : errclass :=
  match c with
  | EUndefined x _ _ => EUndefined x 0 0
  | EReservedReg x _ _ => EReservedReg x 0 0
  | EReservedKw x _ _ => EReservedKw x 0 0
  | c => c
  end.
Definition erase_outcome {A} (o:outcome A) : outcome A :=
  match o with Ok a => Ok a | Refuse c => Refuse (erase_err c) | Unspec => Unspec end.

Definition oeq {A} (o o' : outcome A) : Prop := erase_outcome o = erase_outcome o'.
Local Ltac orefl := unfold oeq; reflexivity.

Lemma bind_cong {A B} (o o' : outcome A) (k k' : A -> outcome B) :
  oeq o o' -> (forall a, oeq (k a) (k' a)) -> oeq (bind o k) (bind o' k').
Proof.
  unfold oeq. destruct o, o'; simpl; intros H Hk; try discriminate.
  - injection H as ->. apply Hk.
  - injection H as ->. reflexivity.
  - reflexivity.
Qed.
Lemma mapM_cong {A B} (f g : A -> outcome B) (h : A -> A) l :
  (forall x, oeq (f x) (g (h x))) -> oeq (mapM f l) (mapM g (map h l)).
Proof.
  intros H. induction l as [|x l IH]; [orefl|]. cbn [mapM map].
  apply bind_cong; [apply H|]. intros y. apply bind_cong; [apply IH|]. intros; orefl.
Qed.

Lemma eval_erase env pn e : oeq (eval env pn e) (eval env pn (erase_expr e)).
Proof.
  induction e; cbn [eval erase_expr].
  - orefl.
  - destruct (lookup name env); orefl.
  - orefl.
  - apply bind_cong; [exact IHe|]. intros iv. destruct (lookup name env); orefl.
  - orefl.
  - exact IHe.
  - destruct neg; [|exact IHe]. apply bind_cong; [exact IHe|intros; orefl].
  - apply bind_cong; [exact IHe1|]. intros. apply bind_cong; [exact IHe2|]. intros; orefl.
  - destruct div; (apply bind_cong; [exact IHe1|]; intros; apply bind_cong; [exact IHe2|]; intros; orefl).
  - apply bind_cong; [exact IHe1|]. intros. apply bind_cong; [exact IHe2|]. intros; orefl.
  - apply bind_cong; [exact IHe|intros; orefl].
Qed.
Lemma eval_val_erase env pn v : oeq (eval_val env pn v) (eval_val env pn (erase_val v)).
Proof. destruct v; cbn [eval_val erase_val]; [apply eval_erase|orefl|orefl]. Qed.

Lemma expr_pars_erase e : expr_pars (erase_expr e) = expr_pars e.
Proof. induction e; simpl; congruence. Qed.
Lemma val_pars_erase v : val_pars (erase_val v) = val_pars v.
Proof. destruct v; simpl; auto using expr_pars_erase. Qed.
Lemma flat_map_erase {A} (f : A -> list str) (h : A -> A) l :
  (forall x, f (h x) = f x) -> flat_map f (map h l) = flat_map f l.
Proof. intros H. induction l; simpl; congruence. Qed.
Lemma kwval_pars_erase k : kwval_pars (erase_kwval k) = kwval_pars k.
Proof. destruct k; simpl; [apply val_pars_erase|apply flat_map_erase, val_pars_erase]. Qed.
Lemma args_pars_erase a : args_pars (erase_args a) = args_pars a.
Proof.
  unfold args_pars, erase_args; simpl. rewrite (flat_map_erase val_pars erase_val) by apply val_pars_erase.
  f_equal. apply (flat_map_erase (fun kv => kwval_pars (snd kv)) erase_kw). intros x. apply kwval_pars_erase.
Qed.

(* named copy of the local loop of eval_args *)
Section KwGo.
Variables (env:list (str*value)) (pn:list str).
Fixpoint kw_go (l:list (str * kwval)) (acc:list (str * value)) : outcome (list (str * value)) :=
  match l with
  | [] => Ok acc
  | (k, KV v) :: l' => do x <- eval_val env pn v; kw_go l' (dict_set k x acc)
  | (k, KL []) :: l' => kw_go l' acc
  | (k, KL vs) :: l' => do xs <- mapM (eval_val env pn) vs; kw_go l' (dict_set k (VList xs) acc)
  end.
End KwGo.
Lemma eval_args_eq env pn a : eval_args env pn a =
  (do ps <- mapM (eval_val env pn) (apos a); do kws <- kw_go env pn (akw a) []; Ok (ps, kws)).
Proof. reflexivity. Qed.
Lemma kw_go_erase env pn l : forall acc, oeq (kw_go env pn l acc) (kw_go env pn (map erase_kw l) acc).
Proof.
  induction l as [|[k v] l IH]; intros acc; [orefl|]. destruct v as [v|vs].
  - change (oeq (do x <- eval_val env pn v; kw_go env pn l (dict_set k x acc))
                (do x <- eval_val env pn (erase_val v); kw_go env pn (map erase_kw l) (dict_set k x acc))).
    apply bind_cong; [apply eval_val_erase|intros; apply IH].
  - destruct vs as [|v0 vs]; [exact (IH acc)|].
    change (oeq (do xs <- mapM (eval_val env pn) (v0 :: vs); kw_go env pn l (dict_set k (VList xs) acc))
                (do xs <- mapM (eval_val env pn) (map erase_val (v0 :: vs));
                 kw_go env pn (map erase_kw l) (dict_set k (VList xs) acc))).
    apply bind_cong; [apply mapM_cong; intros; apply eval_val_erase|intros; apply IH].
Qed.
Lemma eval_args_erase env pn a : oeq (eval_args env pn a) (eval_args env pn (erase_args a)).
Proof.
  rewrite !eval_args_eq. cbn [erase_args apos akw].
  apply bind_cong; [apply mapM_cong; intros; apply eval_val_erase|]. intros ps.
  apply bind_cong; [apply kw_go_erase|intros; orefl].
Qed.
Lemma eval_opt_args_erase env pn a :
  oeq (eval_opt_args env pn a) (eval_opt_args env pn (option_map erase_args a)).
Proof. destruct a; cbn [eval_opt_args option_map]; [|orefl]. apply bind_cong; [apply eval_args_erase|intros; orefl]. Qed.

Lemma exec_stmt_erase incs s t : oeq (exec_stmt incs s t) (exec_stmt incs s (erase_stmt t)).
Proof.
  destruct t as [op args modes]. unfold exec_stmt. cbn [erase_stmt smodes sargs sop].
  apply bind_cong; [apply mapM_cong; intros; apply eval_erase|]. intros mvs.
  apply bind_cong; [orefl|]. intros ms.
  apply bind_cong; [apply eval_opt_args_erase|]. intros a.
  assert (E : flat_map expr_pars (map erase_expr modes) ++
              match option_map erase_args args with Some x => args_pars x | None => [] end
            = flat_map expr_pars modes ++ match args with Some x => args_pars x | None => [] end).
  { rewrite (flat_map_erase expr_pars erase_expr) by apply expr_pars_erase.
    destruct args; cbn [option_map]; [rewrite args_pars_erase|]; reflexivity. }
  cbv zeta. rewrite E. orefl.
Qed.
Lemma exec_stmts_erase incs l : forall s, oeq (exec_stmts incs s l) (exec_stmts incs s (map erase_stmt l)).
Proof.
  induction l as [|t l IH]; intros s; [orefl|]. cbn [exec_stmts map].
  apply bind_cong; [apply exec_stmt_erase|intros; apply IH].
Qed.
Lemma check_name_erase n : oeq (check_name n) (check_name (erase_dname n)).
Proof. destruct n; orefl. Qed.

(* named pieces of exec_item *)
Definition rows_dispatch {X} (rows:list (list expr)) (a:X) (b:str -> X) (c:X) : X :=
  match rows with [] => a | [[EPar p]] => b p | _ => c end.
Definition arr_general (tdm:bool) (s:st) (ty:vtype) (x:str) (shape:option (list str)) (rows:list (list expr))
  : outcome st :=
  do elems <- mapM (fun e => match e with
                             | EPar p => Ok (VSym (TPar p))
                             | _ => do v <- eval (s_env s) (s_pnames s) e; cast_elem ty v
                             end) (concat rows);
  if negb (all_same_len rows) then Refuse EArrayRagged
  else
    let rn := length rows in
    let cn := match rows with r :: _ => length r | [] => 0 end in
    let shape_ok := match shape with
                    | None => Some true
                    | Some sh => match shape_vals sh with
                                 | Some l => Some (match l with
                                                   | [r; c] => (Z.eqb r (Z.of_nat rn) && Z.eqb c (Z.of_nat cn))%bool
                                                   | _ => false end)
                                 | None => None
                                 end
                    end in
    match shape_ok with
    | Some true =>
        let v := VArr ty rn cn elems in
        let pars' := add_new (s_pars s) (flat_map expr_pars (concat rows)) in
        let pn' := if (tdm && is_ptype x)%bool then s_pnames s ++ [x] else s_pnames s in
        Ok (mkst (dict_set x v (s_env s)) pars' pn' (s_ops s) (s_modes s))
    | Some false => Refuse EArrayShape
    | None => Unspec
    end.
(* the branch for an array that is one template parameter is left abstract: it does not depend on positions *)
Lemma exec_item_array incs tdm s ty shape : exists B : str -> str -> outcome st, forall n l c rows,
  exec_item incs tdm s (IArray ty n shape (ARows rows) l c) =
  (do x <- check_name n;
   rows_dispatch rows (Refuse EArrayEmpty) (B x) (arr_general tdm s ty x shape rows)).
Proof. eexists. intros n l c rows. reflexivity. Qed.

Lemma rows_dispatch_erase {X} rows (a:X) b c :
  rows_dispatch (map (map erase_expr) rows) a b c = rows_dispatch rows a b c.
Proof. destruct rows as [|[|[] [|]] [|]]; reflexivity. Qed.
Lemma rows_dispatch_cong {X} rows (a:outcome X) b c c' :
  oeq c c' -> oeq (rows_dispatch rows a b c) (rows_dispatch rows a b c').
Proof. intros H. destruct rows as [|[|[] [|]] [|]]; try exact H; orefl. Qed.

Lemma all_same_len_erase rows : all_same_len (map (map erase_expr) rows) = all_same_len rows.
Proof.
  destruct rows as [|r rows]; [reflexivity|]. cbn [all_same_len map]. rewrite map_length.
  induction rows as [|r' rows IH]; [reflexivity|]. cbn [forallb map]. rewrite map_length, IH. reflexivity.
Qed.
Lemma arr_general_erase tdm s ty x shape rows :
  oeq (arr_general tdm s ty x shape rows) (arr_general tdm s ty x shape (map (map erase_expr) rows)).
Proof.
  unfold arr_general. apply bind_cong.
  - rewrite <- concat_map. apply mapM_cong. intros e.
    destruct e; try orefl; cbn [erase_expr];
      match goal with |- oeq (bind (eval _ _ ?e) _) _ => apply bind_cong; [exact (eval_erase _ _ e)|intros; orefl] end.
  - intros elems. rewrite all_same_len_erase, map_length, <- concat_map.
    rewrite (flat_map_erase expr_pars erase_expr) by apply expr_pars_erase.
    assert (E : match map (map erase_expr) rows with r :: _ => length r | [] => 0 end
              = match rows with r :: _ => length r | [] => 0 end).
    { destruct rows; cbn [map]; [reflexivity|apply map_length]. }
    rewrite E. orefl.
Qed.

Definition for_vals (s:st) (h:forhdr) : outcome (list value) :=
  match h with
  | HRange a b c =>
      match parse_digits a, parse_digits b, match c with Some c' => parse_digits c' | None => Some 1%Z end with
      | Some a', Some b', Some c' => do zs <- range_values a' b' c'; Ok (map VInt zs)
      | _, _, _ => Unspec
      end
  | HList l => mapM (eval_val (s_env s) (s_pnames s)) l
  end.
Section ForIter.
Variables (incs:list (str*prog)) (ty:vtype) (x:str) (body:list stmt).
Fixpoint for_iter (vs:list value) (s0:st) : outcome st :=
  match vs with
  | [] => Ok s0
  | v :: vs' =>
      do v' <- cast_loop ty v;
      do s1 <- exec_stmts incs (mkst (dict_set x v' (s_env s0)) (s_pars s0) (s_pnames s0) (s_ops s0) (s_modes s0)) body;
      for_iter vs' s1
  end.
End ForIter.
Lemma exec_item_for incs tdm s ty x h body :
  exec_item incs tdm s (IFor ty x h body) =
  (do vals <- for_vals s h;
   let pars0 := add_new (s_pars s) (match h with HList l => flat_map val_pars l | _ => [] end) in
   match lookup x (s_env s) with
   | Some _ => Unspec
   | None =>
       do s' <- for_iter incs ty x body vals (mkst (s_env s) pars0 (s_pnames s) (s_ops s) (s_modes s));
       Ok (mkst (dict_del x (s_env s')) (s_pars s') (s_pnames s') (s_ops s') (s_modes s'))
   end).
Proof. reflexivity. Qed.
Lemma for_iter_erase incs ty x body vs : forall s0,
  oeq (for_iter incs ty x body vs s0) (for_iter incs ty x (map erase_stmt body) vs s0).
Proof.
  induction vs as [|v vs IH]; intros s0; [orefl|]. cbn [for_iter].
  apply bind_cong; [orefl|]. intros v'. apply bind_cong; [apply exec_stmts_erase|]. intros s1. apply IH.
Qed.

Lemma exec_item_erase incs tdm s it : oeq (exec_item incs tdm s it) (exec_item incs tdm s (erase_item it)).
Proof.
  destruct it as [ty n init l c|ty n shape body l c|t|ty x h body].
  - cbn [exec_item erase_item]. apply bind_cong; [apply check_name_erase|]. intros x.
    apply bind_cong; [apply eval_val_erase|]. intros v. rewrite val_pars_erase. orefl.
  - destruct body as [rows|p].
    + cbn [erase_item erase_arrbody]. destruct (exec_item_array incs tdm s ty shape) as (B & HB). rewrite !HB.
      apply bind_cong; [apply check_name_erase|]. intros x. rewrite rows_dispatch_erase.
      apply rows_dispatch_cong, arr_general_erase.
    + cbn [exec_item erase_item erase_arrbody]. apply bind_cong; [apply check_name_erase|intros; orefl].
  - apply exec_stmt_erase.
  - cbn [erase_item]. rewrite !exec_item_for. apply bind_cong.
    + destruct h; cbn [erase_forhdr for_vals]; [orefl|apply mapM_cong; intros; apply eval_val_erase].
    + intros vals.
      assert (E : match erase_forhdr h with HList l => flat_map val_pars l | _ => [] end
                = match h with HList l => flat_map val_pars l | _ => [] end).
      { destruct h; cbn [erase_forhdr]; [reflexivity|apply flat_map_erase, val_pars_erase]. }
      cbv zeta. rewrite E. destruct (lookup x (s_env s)); [orefl|].
      apply bind_cong; [apply for_iter_erase|intros; orefl].
Qed.
Lemma exec_items_erase incs tdm l : forall s,
  oeq (exec_items incs tdm s l) (exec_items incs tdm s (map erase_item l)).
Proof.
  induction l as [|it l IH]; intros s; [orefl|]. cbn [exec_items map].
  apply bind_cong; [apply exec_item_erase|intros; apply IH].
Qed.
Lemma meta_opts_erase m : oeq (meta_opts m) (meta_opts (erase_meta m)).
Proof.
  destruct m as [[nm [args|]]|]; try orefl. cbn [meta_opts erase_meta option_map fst snd].
  apply bind_cong; [apply eval_args_erase|intros; orefl].
Qed.
Lemma denote_erase incs sc : oeq (denote incs sc) (denote incs (erase_script sc)).
Proof.
  destruct sc as [nm ver tg ty inc items]. unfold denote.
  cbn [erase_script sc_name sc_version sc_target sc_type sc_includes sc_items].
  apply bind_cong; [apply meta_opts_erase|]. intros tg'. apply bind_cong; [apply meta_opts_erase|]. intros ty'.
  cbv zeta. apply bind_cong; [apply exec_items_erase|intros; orefl].
Qed.

Theorem denote_position_blind incs sc sc' :
  erase_script sc = erase_script sc' -> erase_outcome (denote incs sc) = erase_outcome (denote incs sc').
Proof.
  intros E. pose proof (denote_erase incs sc) as H1. pose proof (denote_erase incs sc') as H2.
  unfold oeq in *. rewrite H1, H2, E. reflexivity.
Qed.

(* end to end for Part 1: token streams equal up to layout denote the same program, up to error positions *)
Corollary tokens_layout_blind f incs ts ts' sc sc' :
  Forall2 same_tok ts ts' -> pscript f ts = Some sc -> pscript f ts' = Some sc' ->
  erase_outcome (denote incs sc) = erase_outcome (denote incs sc').
Proof.
  intros H H1 H2. apply denote_position_blind. pose proof (parser_layout_blind f ts ts' H) as E.
  rewrite H1, H2 in E. simpl in E. congruence.
Qed.

(* ================================================================================================ *)
(* PART 1c — blank lines                                                                              *)
(* ================================================================================================ *)
Lemma pprogram_skips_newline f t ts : isk TNEWLINE t = true -> pprogram (S f) (t :: ts) = pprogram f ts.
Proof. intros H. apply isk_true in H. cbn [pprogram]. rewrite H. reflexivity. Qed.

Lemma skip_nl_idem ts : skip_nl (skip_nl ts) = skip_nl ts.
Proof.
  induction ts as [|t r IH]; [reflexivity|]. cbn [skip_nl]. destruct (isk TNEWLINE t) eqn:E; [exact IH|].
  cbn [skip_nl]. rewrite E. reflexivity.
Qed.
Lemma skip_nl_cons t ts : isk TNEWLINE t = true -> skip_nl (t :: ts) = skip_nl ts.
Proof. intros H. cbn [skip_nl]. rewrite H. reflexivity. Qed.

Lemma pscript_leading_newlines f t ts : isk TNEWLINE t = true -> pscript f (t :: ts) = pscript f ts.
Proof. intros H. unfold pscript. rewrite (skip_nl_cons t ts H). reflexivity. Qed.
Lemma pscript_skip_nl f ts : pscript f (skip_nl ts) = pscript f ts.
Proof. unfold pscript. rewrite skip_nl_idem. reflexivity. Qed.

(* ================================================================================================ *)
(* PART 2 — lexer: comments, spaces, line ends                                                        *)
(* ================================================================================================ *)

(* ---- 2a: a rule body that mentions no character set matching c derives no segment containing c ---- *)
Section Avoids.
Variable lg : nat -> ebnf cset.

Fixpoint avoids (fuel:nat) (c:N) (e:ebnf cset) : bool :=
  match fuel with 0 => false | S f =>
    match e with
    | Tok t => negb (cmatch t c)
    | Ref r => avoids f c (lg r)
    | Eps => true
    | Seq a b => (avoids f c a && avoids f c b)%bool
    | Alt a b => (avoids f c a && avoids f c b)%bool
    | Star a => avoids f c a
    end end.

Theorem avoids_sound f c e : avoids f c e = true ->
  forall w i j, M N cset cmatch lg w e i j ->
  forall k x, i <= k < j -> nth_error w k = Some x -> x <> c.
Proof.
  intros Hav w i j HM. revert f Hav.
  induction HM as [t i x Hx Hm|r i j HM IH|i|a b i k j H1 IH1 H2 IH2|a b i j H1 IH1|a b i j H1 IH1|a i
                  |a i k j Hlt H1 IH1 H2 IH2];
    intros f Hav k0 x0 Hk Hx0; (destruct f as [|f]; [discriminate|]); cbn [avoids] in Hav.
  - assert (k0 = i) by lia. subst k0. rewrite Hx in Hx0. injection Hx0 as <-. intros ->.
    rewrite Hm in Hav. discriminate.
  - apply (IH f Hav k0 x0); auto.
  - lia.
  - apply andb_true_iff in Hav. destruct Hav as (Ha & Hb).
    destruct (le_lt_dec k k0); [apply (IH2 f Hb k0 x0)|apply (IH1 f Ha k0 x0)]; auto; lia.
  - apply andb_true_iff in Hav. destruct Hav as (Ha & Hb). apply (IH1 f Ha k0 x0); auto.
  - apply andb_true_iff in Hav. destruct Hav as (Ha & Hb). apply (IH1 f Hb k0 x0); auto.
  - lia.
  - destruct (le_lt_dec k k0).
    + apply (IH2 (S f) Hav k0 x0); auto. lia.
    + apply (IH1 f Hav k0 x0); auto. lia.
Qed.

Lemma nth_error_combine_seq {A} (l:list A) : forall s p r,
  nth_error l p = Some r -> In (s + p, r) (combine (seq s (length l)) l).
Proof.
  induction l as [|a l IH]; intros s [|p] r H; simpl in H; try discriminate.
  - injection H as ->. left. f_equal. lia.
  - right. replace (s + S p) with (S s + p) by lia. apply IH. exact H.
Qed.

Variable rules : list (nat * nat * bool).
Variable fuel : nat.
Definition rule_avoids (c:N) (r:nat*nat*bool) : bool := avoids fuel c (Ref (rid r)).
(* every token rule, except those at the listed positions of the rule list, avoids c *)
Definition all_avoid_except (ps:list nat) (c:N) : bool :=
  forallb (fun pr => (existsb (Nat.eqb (fst pr)) ps || rule_avoids c (snd pr))%bool)
          (combine (seq 0 (length rules)) rules).

Lemma all_avoid_except_spec ps c : all_avoid_except ps c = true ->
  forall p r, nth_error rules p = Some r -> ~ In p ps ->
  forall w i j, M N cset cmatch lg w (Ref (rid r)) i j ->
  forall k x, i <= k < j -> nth_error w k = Some x -> x <> c.
Proof.
  intros H p r Hr Hp. unfold all_avoid_except in H. rewrite forallb_forall in H.
  specialize (H (p, r) (nth_error_combine_seq rules 0 p r Hr)). cbn [fst snd] in H.
  apply orb_true_iff in H. destruct H as [H|H].
  - exfalso. apply Hp. apply existsb_exists in H. destruct H as (q & Hq & E). apply Nat.eqb_eq in E. subst; auto.
  - intros w i j. apply (avoids_sound fuel c _ H).
Qed.

(* a rule that avoids c matches nothing that starts with c *)
Lemma avoid_no_token ps c : all_avoid_except ps c = true ->
  forall p r, nth_error rules p = Some r -> ~ In p ps ->
  forall w i j, nth_error w i = Some c -> i < j -> ~ M N cset cmatch lg w (Ref (rid r)) i j.
Proof.
  intros H p r Hr Hp w i j Hi Hlt HM.
  apply (all_avoid_except_spec ps c H p r Hr Hp w i j HM i c); try lia; auto.
Qed.
End Avoids.

(* ---- 2b: the concrete grammar ---- *)
Local Notation LM := (M N cset cmatch lex_g).

Definition p_STR : nat := 11.
Definition p_NEWLINE : nat := 15.
Definition p_TAB : nat := 16.
Definition p_SPACE : nat := 17.
Definition p_COMMENT : nat := 59.
Definition p_ANY : nat := 60.
Lemma lex_rule_positions :
  nth_error lex_rules p_STR = Some (15, 12, false) /\ nth_error lex_rules p_NEWLINE = Some (19, 16, false) /\
  nth_error lex_rules p_TAB = Some (20, 17, false) /\ nth_error lex_rules p_SPACE = Some (21, 18, true) /\
  nth_error lex_rules p_COMMENT = Some (63, 60, true) /\ nth_error lex_rules p_ANY = Some (64, 61, false) /\
  length lex_rules = 61.
Proof. repeat split. Qed.

Definition avoid_fuel : nat := 40.
Definition g4_avoid_except : list nat -> N -> bool := all_avoid_except lex_g lex_rules avoid_fuel.

Lemma avoid_LF : g4_avoid_except [p_NEWLINE; p_ANY] 10 = true.
Proof. vm_compute. reflexivity. Qed.
Lemma avoid_CR : g4_avoid_except [p_NEWLINE; p_ANY] 13 = true.
Proof. vm_compute. reflexivity. Qed.
Lemma avoid_hash : g4_avoid_except [p_STR; p_COMMENT; p_ANY] 35 = true.
Proof. vm_compute. reflexivity. Qed.
Lemma avoid_space : g4_avoid_except [p_STR; p_TAB; p_SPACE; p_COMMENT; p_ANY] 32 = true.
Proof. vm_compute. reflexivity. Qed.
(* the exceptions are needed: these rules do mention the character *)
Definition none_avoids (ps:list nat) (c:N) : bool :=
  forallb (fun p => match nth_error lex_rules p with
                    | Some r => negb (rule_avoids lex_g avoid_fuel c r) | None => false end) ps.
Lemma avoid_exceptions_tight :
  none_avoids [p_NEWLINE; p_ANY] 10 = true /\ none_avoids [p_NEWLINE; p_ANY] 13 = true /\
  none_avoids [p_STR; p_COMMENT; p_ANY] 35 = true /\
  none_avoids [p_STR; p_TAB; p_SPACE; p_COMMENT; p_ANY] 32 = true.
Proof. vm_compute. repeat split. Qed.

Global Opaque avoid_fuel.

(* the four facts as propositions *)
Theorem rules_avoid_LF p r w i j k : nth_error lex_rules p = Some r -> p <> p_NEWLINE -> p <> p_ANY ->
  LM w (Ref (rid r)) i j -> i <= k < j -> nth_error w k <> Some 10%N.
Proof.
  intros Hr H1 H2 HM Hk E. apply (all_avoid_except_spec lex_g lex_rules avoid_fuel _ _ avoid_LF p r Hr) with (w:=w) (i:=i) (j:=j) (k:=k) (x:=10%N); auto.
  cbn [In]; intuition.
Qed.
Theorem rules_avoid_CR p r w i j k : nth_error lex_rules p = Some r -> p <> p_NEWLINE -> p <> p_ANY ->
  LM w (Ref (rid r)) i j -> i <= k < j -> nth_error w k <> Some 13%N.
Proof.
  intros Hr H1 H2 HM Hk E. apply (all_avoid_except_spec lex_g lex_rules avoid_fuel _ _ avoid_CR p r Hr) with (w:=w) (i:=i) (j:=j) (k:=k) (x:=13%N); auto.
  cbn [In]; intuition.
Qed.
Theorem rules_avoid_hash p r w i j k : nth_error lex_rules p = Some r -> p <> p_STR -> p <> p_COMMENT -> p <> p_ANY ->
  LM w (Ref (rid r)) i j -> i <= k < j -> nth_error w k <> Some 35%N.
Proof.
  intros Hr H1 H2 H3 HM Hk E. apply (all_avoid_except_spec lex_g lex_rules avoid_fuel _ _ avoid_hash p r Hr) with (w:=w) (i:=i) (j:=j) (k:=k) (x:=35%N); auto.
  cbn [In]; intuition.
Qed.
Theorem rules_avoid_space p r w i j k : nth_error lex_rules p = Some r ->
  p <> p_STR -> p <> p_TAB -> p <> p_SPACE -> p <> p_COMMENT -> p <> p_ANY ->
  LM w (Ref (rid r)) i j -> i <= k < j -> nth_error w k <> Some 32%N.
Proof.
  intros Hr H1 H2 H3 H4 H5 HM Hk E. apply (all_avoid_except_spec lex_g lex_rules avoid_fuel _ _ avoid_space p r Hr) with (w:=w) (i:=i) (j:=j) (k:=k) (x:=32%N); auto.
  cbn [In]; intuition.
Qed.

(* ---- inversion helpers for the concrete rules ---- *)
Lemma cmatch_single a x : cmatch (mkcs false [(a, a)]) x = true -> x = a.
Proof.
  unfold cmatch, in_ranges. cbn [cneg cranges existsb fst snd]. rewrite xorb_false_l, orb_false_r.
  intros H. apply andb_true_iff in H. destruct H as (H1 & H2). apply N.leb_le in H1, H2. lia.
Qed.
Lemma cmatch_not_crlf x : x <> 10%N -> x <> 13%N -> cmatch (mkcs true [(13, 13); (10, 10)]%N) x = true.
Proof.
  intros H1 H2. unfold cmatch, in_ranges. cbn [cneg cranges existsb fst snd]. rewrite xorb_true_l, orb_false_r.
  destruct (N.leb_spec 13 x), (N.leb_spec x 13), (N.leb_spec 10 x), (N.leb_spec x 10); cbn; try reflexivity; lia.
Qed.

Lemma M_tok_inv w t i j : LM w (Tok t) i j -> j = S i /\ exists x, nth_error w i = Some x /\ cmatch t x = true.
Proof. intros H. inversion H; subst. eauto. Qed.

Local Ltac minv :=
  repeat match goal with
  | H : M _ _ _ _ _ (Ref _) _ _ |- _ => inversion H; subst; clear H
  | H : M _ _ _ _ _ (lex_g _) _ _ |- _ => unfold lex_g in H
  | H : M _ _ _ _ _ (Seq _ _) _ _ |- _ => inversion H; subst; clear H
  | H : M _ _ _ _ _ (Alt _ _) _ _ |- _ => inversion H; subst; clear H
  | H : M _ _ _ _ _ (Tok _) _ _ |- _ =>
      let x := fresh "x" in let Hx := fresh "Hx" in let Hm := fresh "Hm" in
      apply M_tok_inv in H; destruct H as (-> & x & Hx & Hm); try (apply cmatch_single in Hm; subst x)
  end.

Lemma M_any_inv w i j : LM w (Ref 64) i j -> j = S i.
Proof. intros H. minv. reflexivity. Qed.
Lemma M_str_first w i j : LM w (Ref 15) i j -> nth_error w i = Some 34%N.
Proof. intros H. minv. assumption. Qed.
Lemma M_comment_first w i j : LM w (Ref 63) i j -> nth_error w i = Some 35%N.
Proof. intros H. minv. assumption. Qed.
Lemma M_newline_inv w i j : LM w (Ref 19) i j ->
  (j = S (S i) /\ nth_error w i = Some 13%N /\ nth_error w (S i) = Some 10%N) \/
  (j = S i /\ (nth_error w i = Some 13%N \/ nth_error w i = Some 10%N)).
Proof. intros H. minv; auto. Qed.

Lemma M_newline_LF w i : nth_error w i = Some 10%N -> LM w (Ref 19) i (S i).
Proof. intros H. apply MRef. unfold lex_g. apply MAltR, MAltR. econstructor; eauto. Qed.
Lemma M_newline_CR w i : nth_error w i = Some 13%N -> LM w (Ref 19) i (S i).
Proof. intros H. apply MRef. unfold lex_g. apply MAltR, MAltL. econstructor; eauto. Qed.
Lemma M_newline_CRLF w i : nth_error w i = Some 13%N -> nth_error w (S i) = Some 10%N -> LM w (Ref 19) i (S (S i)).
Proof. intros H1 H2. apply MRef. unfold lex_g. apply MAltL. eapply MSeq; econstructor; eauto. Qed.

(* a run of characters of a set is derived by the starred set *)
Lemma star_run w t : forall n k,
  (forall m x, k <= m < k + n -> nth_error w m = Some x -> cmatch t x = true) ->
  k + n <= length w -> LM w (Star (Tok t)) k (k + n).
Proof.
  induction n as [|n IH]; intros k H Hl.
  - rewrite Nat.add_0_r. constructor.
  - destruct (nth_error w k) as [x|] eqn:E; [|apply nth_error_None in E; lia].
    apply MStarS with (k := S k); [lia| |].
    + econstructor; [exact E|]. apply (H k); [lia|exact E].
    + replace (k + S n) with (S k + n) by lia. apply IH; [|lia]. intros m y Hm. apply H. lia.
Qed.

(* how a lexer step is established: a match of the rule, and every competing match is not longer and,
   when as long, not earlier in the rule list *)
Lemma lex_step_intro w i p j r :
  nth_error lex_rules p = Some r -> i < j -> LM w (Ref (rid r)) i j ->
  (forall p' r' j', nth_error lex_rules p' = Some r' -> i < j' -> LM w (Ref (rid r')) i j' ->
                    j' <= j /\ (j' = j -> p <= p')) ->
  LexStep lex_g lex_rules w i p j.
Proof.
  intros Hr Hlt HM Hall. split; [exists r; auto|]. split.
  - intros p' j' (r' & Hr' & Hlt' & HM'). eapply Hall; eauto.
  - intros p' Hp (r' & Hr' & _ & HM'). destruct (Hall p' r' j Hr' Hlt HM') as (_ & Hle).
    specialize (Hle eq_refl). lia.
Qed.

Local Ltac rule_at Hr HM :=
  vm_compute in Hr; injection Hr as <-; cbn [rid fst] in HM.

(* ---- 2c: line ends ---- *)
Theorem newline_step_LF w i : nth_error w i = Some 10%N -> LexStep lex_g lex_rules w i p_NEWLINE (S i).
Proof.
  intros Hi. apply (lex_step_intro w i p_NEWLINE (S i) (19, 16, false)); [reflexivity|lia|apply M_newline_LF; auto|].
  intros p' r' j' Hr' Hlt HM.
  destruct (Nat.eq_dec p' p_NEWLINE) as [->|N1].
  { rule_at Hr' HM. apply M_newline_inv in HM. destruct HM as [(_ & E & _)|(-> & _)]; [congruence|split; lia]. }
  destruct (Nat.eq_dec p' p_ANY) as [->|N2].
  { rule_at Hr' HM. apply M_any_inv in HM. subst j'. unfold p_NEWLINE, p_ANY. split; lia. }
  exfalso. apply (avoid_no_token lex_g lex_rules avoid_fuel _ _ avoid_LF p' r' Hr') with (w:=w) (i:=i) (j:=j'); auto.
  cbn [In]; intuition.
Qed.

Theorem newline_step_CR w i : nth_error w i = Some 13%N -> nth_error w (S i) <> Some 10%N ->
  LexStep lex_g lex_rules w i p_NEWLINE (S i).
Proof.
  intros Hi Hn. apply (lex_step_intro w i p_NEWLINE (S i) (19, 16, false)); [reflexivity|lia|apply M_newline_CR; auto|].
  intros p' r' j' Hr' Hlt HM.
  destruct (Nat.eq_dec p' p_NEWLINE) as [->|N1].
  { rule_at Hr' HM. apply M_newline_inv in HM. destruct HM as [(_ & _ & E)|(-> & _)]; [congruence|split; lia]. }
  destruct (Nat.eq_dec p' p_ANY) as [->|N2].
  { rule_at Hr' HM. apply M_any_inv in HM. subst j'. unfold p_NEWLINE, p_ANY. split; lia. }
  exfalso. apply (avoid_no_token lex_g lex_rules avoid_fuel _ _ avoid_CR p' r' Hr') with (w:=w) (i:=i) (j:=j'); auto.
  cbn [In]; intuition.
Qed.

(* CR LF is ONE token *)
Theorem newline_step_CRLF w i : nth_error w i = Some 13%N -> nth_error w (S i) = Some 10%N ->
  LexStep lex_g lex_rules w i p_NEWLINE (S (S i)).
Proof.
  intros Hi Hn. apply (lex_step_intro w i p_NEWLINE (S (S i)) (19, 16, false));
    [reflexivity|lia|apply M_newline_CRLF; auto|].
  intros p' r' j' Hr' Hlt HM.
  destruct (Nat.eq_dec p' p_NEWLINE) as [->|N1].
  { rule_at Hr' HM. apply M_newline_inv in HM. destruct HM as [(-> & _)|(-> & _)]; split; lia. }
  destruct (Nat.eq_dec p' p_ANY) as [->|N2].
  { rule_at Hr' HM. apply M_any_inv in HM. subst j'. split; lia. }
  exfalso. apply (avoid_no_token lex_g lex_rules avoid_fuel _ _ avoid_CR p' r' Hr') with (w:=w) (i:=i) (j:=j'); auto.
  cbn [In]; intuition.
Qed.

(* every NEWLINE token is one of the three spellings, and the three spellings are NEWLINE tokens *)
Example newline_tokens_CRLF : lex_raw lex_g lex_rules [13; 10]%N 64 64 = Some [(p_NEWLINE, 0, 2)].
Proof. vm_compute. reflexivity. Qed.
Example newline_tokens_CR : lex_raw lex_g lex_rules [13]%N 64 64 = Some [(p_NEWLINE, 0, 1)].
Proof. vm_compute. reflexivity. Qed.
Example newline_tokens_LF : lex_raw lex_g lex_rules [10]%N 64 64 = Some [(p_NEWLINE, 0, 1)].
Proof. vm_compute. reflexivity. Qed.
(* LF CR is two line ends, CR CR LF is two *)
Example newline_tokens_LFCR : lex_raw lex_g lex_rules [10; 13]%N 64 64 = Some [(p_NEWLINE, 0, 1); (p_NEWLINE, 1, 2)].
Proof. vm_compute. reflexivity. Qed.
Example newline_tokens_CRCRLF : lex_raw lex_g lex_rules [13; 13; 10]%N 64 64 = Some [(p_NEWLINE, 0, 1); (p_NEWLINE, 1, 3)].
Proof. vm_compute. reflexivity. Qed.

(* ---- 2d: a '#' at a token start swallows the rest of the line as one skipped token ---- *)
Theorem comment_step w i j :
  nth_error w i = Some 35%N -> i < j -> j <= length w ->
  (forall k x, i < k < j -> nth_error w k = Some x -> x <> 10%N /\ x <> 13%N) ->
  (j = length w \/ nth_error w j = Some 10%N \/ nth_error w j = Some 13%N) ->
  LexStep lex_g lex_rules w i p_COMMENT j.
Proof.
  intros Hi Hlt Hj Hmid Hend.
  apply (lex_step_intro w i p_COMMENT j (63, 60, true)); [reflexivity|exact Hlt| |].
  - cbn [rid fst]. apply MRef. unfold lex_g. apply MSeq with (k := S i); [econstructor; eauto|].
    replace j with (S i + (j - S i)) by lia. apply star_run; [|lia].
    intros m x Hm Hx. destruct (Hmid m x) as (H1 & H2); [lia|exact Hx|]. apply cmatch_not_crlf; auto.
  - intros p' r' j' Hr' Hlt' HM.
    destruct (Nat.eq_dec p' p_COMMENT) as [->|N1].
    { split; [|lia]. destruct (le_lt_dec j' j) as [|Hgt]; [assumption|exfalso].
      assert (Hb : j' <= length w).
      { eapply M_bound; [exact HM|]. apply Nat.lt_le_incl. apply nth_error_Some. congruence. }
      destruct Hend as [E|[E|E]]; [lia| |].
      - apply (all_avoid_except_spec lex_g lex_rules avoid_fuel _ _ avoid_LF p_COMMENT r' Hr')
          with (w:=w) (i:=i) (j:=j') (k:=j) (x:=10%N); auto; [|lia].
        cbn [In]. unfold p_COMMENT, p_NEWLINE, p_ANY. intuition discriminate.
      - apply (all_avoid_except_spec lex_g lex_rules avoid_fuel _ _ avoid_CR p_COMMENT r' Hr')
          with (w:=w) (i:=i) (j:=j') (k:=j) (x:=13%N); auto; [|lia].
        cbn [In]. unfold p_COMMENT, p_NEWLINE, p_ANY. intuition discriminate. }
    destruct (Nat.eq_dec p' p_ANY) as [->|N2].
    { rule_at Hr' HM. apply M_any_inv in HM. subst j'. unfold p_COMMENT, p_ANY. split; lia. }
    destruct (Nat.eq_dec p' p_STR) as [->|N3].
    { rule_at Hr' HM. apply M_str_first in HM. congruence. }
    exfalso. apply (avoid_no_token lex_g lex_rules avoid_fuel _ _ avoid_hash p' r' Hr') with (w:=w) (i:=i) (j:=j'); auto.
    cbn [In]; intuition.
Qed.

(* so: in a lexed text, a token that starts with '#' is a comment extending to the end of the line *)
Corollary comment_token_skipped : exists r, nth_error lex_rules p_COMMENT = Some r /\ rskip r = true.
Proof. eexists; split; reflexivity. Qed.

Example comment_example :   (* "#ab" LF "#" CR LF *)
  lex_raw lex_g lex_rules [35; 97; 98; 10; 35; 13; 10]%N 64 64
  = Some [(p_COMMENT, 0, 3); (p_NEWLINE, 3, 4); (p_COMMENT, 4, 5); (p_NEWLINE, 5, 7)].
Proof. vm_compute. reflexivity. Qed.

(* ---- 2e: tab versus four spaces; runs of spaces ---- *)
Example tab_equiv_tab : lex_raw lex_g lex_rules [9]%N 64 64 = Some [(p_TAB, 0, 1)].
Proof. vm_compute. reflexivity. Qed.
Example tab_equiv_four_spaces : lex_raw lex_g lex_rules [32; 32; 32; 32]%N 64 64 = Some [(p_TAB, 0, 4)].
Proof. vm_compute. reflexivity. Qed.
Example spaces_1 : lex_raw lex_g lex_rules [32]%N 64 64 = Some [(p_SPACE, 0, 1)].
Proof. vm_compute. reflexivity. Qed.
Example spaces_2 : lex_raw lex_g lex_rules [32; 32]%N 64 64 = Some [(p_SPACE, 0, 2)].
Proof. vm_compute. reflexivity. Qed.
Example spaces_3 : lex_raw lex_g lex_rules [32; 32; 32]%N 64 64 = Some [(p_SPACE, 0, 3)].
Proof. vm_compute. reflexivity. Qed.
Example spaces_5 : lex_raw lex_g lex_rules [32; 32; 32; 32; 32]%N 64 64 = Some [(p_SPACE, 0, 5)].
Proof. vm_compute. reflexivity. Qed.
(* the limits of the equivalence: eight spaces are ONE skipped SPACE token, not two TABs; and a tab followed by a
   space, or two tabs, is a skipped SPACE run as well *)
Example spaces_8 : lex_raw lex_g lex_rules [32; 32; 32; 32; 32; 32; 32; 32]%N 64 64 = Some [(p_SPACE, 0, 8)].
Proof. vm_compute. reflexivity. Qed.
Example tab_tab : lex_raw lex_g lex_rules [9; 9]%N 64 64 = Some [(p_SPACE, 0, 2)].
Proof. vm_compute. reflexivity. Qed.
(* only the visible tokens reach the parser: the TAB token is kept, SPACE and COMMENT are dropped *)
Example visible_tokens :    (* TAB "a" SPACE "#x" LF  versus  four spaces "a" CR LF *)
  option_map (map tkind) (lex lex_g lex_rules [9; 97; 32; 35; 120; 10]%N 64 64) = Some [17; 58; 16] /\
  option_map (map tkind) (lex lex_g lex_rules [32; 32; 32; 32; 97; 13; 10]%N 64 64) = Some [17; 58; 16].
Proof. vm_compute. split; reflexivity. Qed.

(* ================================================================================================ *)
Print Assumptions parser_layout_blind.
Print Assumptions pexpr_blind.
Print Assumptions ploop_blind.
Print Assumptions pstatement_blind.
Print Assumptions pfor_blind.
Print Assumptions pdecl_blind.
Print Assumptions pprogram_blind.
Print Assumptions pincludes_blind.
Print Assumptions pmetaline_blind.
Print Assumptions denote_position_blind.
Print Assumptions tokens_layout_blind.
Print Assumptions pprogram_skips_newline.
Print Assumptions skip_nl_idem.
Print Assumptions pscript_leading_newlines.
Print Assumptions avoids_sound.
Print Assumptions rules_avoid_LF.
Print Assumptions rules_avoid_CR.
Print Assumptions rules_avoid_hash.
Print Assumptions rules_avoid_space.
Print Assumptions newline_step_LF.
Print Assumptions newline_step_CR.
Print Assumptions newline_step_CRLF.
Print Assumptions comment_step.
Print Assumptions tab_equiv_four_spaces.
