(* Finite identities between the shipped generated artefacts (regenerated into AtnData.v on every run)
   and between them and the grammar file (G4Data.v). Everything here is decided by kernel computation. *)
From Coq Require Import List NArith String Bool Arith.
Import ListNotations.
From BB Require Import Ebnf Chars G4Data AtnData.
Local Open Scope string_scope.

Definition quote (s:string) : string := "'" ++ s ++ "'".

(* what the .tokens files must contain, computed from the grammar: NAME=n for every token rule in order,
   then 'literal'=n for every rule that is a single literal *)
Definition tokens_expected : list (string * N) :=
  map (fun p => (snd p, N.of_nat (fst p))) token_names ++
  map (fun p => (quote (snd p), N.of_nat (fst p))) token_literals.

Definition symbolic_expected : list string := map snd token_names.

Fixpoint lookup (t:nat) (l:list (nat*string)) : option string :=
  match l with [] => None | (k,v) :: l' => if Nat.eqb k t then Some v else lookup t l' end.
Definition literals_expected_full : list string :=
  map (fun p => match lookup (fst p) token_literals with Some l => quote l | None => "" end) token_names.
Fixpoint strip_trailing (l:list string) : list string :=
  match l with
  | [] => []
  | x :: l' => match strip_trailing l' with
               | [] => if String.eqb x "" then [] else [x]
               | r => x :: r
               end
  end.
Definition nonempty (l:list string) : list string := filter (fun s => negb (String.eqb s "")) l.

(* token types are 1..n in declaration order *)
Definition numbering_ok : bool :=
  forallb (fun p => Nat.eqb (fst (fst p)) (S (snd p))) (combine token_names (seq 0 (List.length token_names))).

Lemma atn_lexer_py_eq_cpp : atn_lexer_py = atn_lexer_cpp. Proof. vm_compute. reflexivity. Qed.
Lemma atn_parser_py_eq_cpp : atn_parser_py = atn_parser_cpp. Proof. vm_compute. reflexivity. Qed.
Lemma atn_lexer_eq_interp_py : atn_lexer_py = atn_lexer_interp_py. Proof. vm_compute. reflexivity. Qed.
Lemma atn_lexer_eq_interp_cpp : atn_lexer_py = atn_lexer_interp_cpp. Proof. vm_compute. reflexivity. Qed.
Lemma atn_parser_eq_interp_py : atn_parser_py = atn_parser_interp_py. Proof. vm_compute. reflexivity. Qed.
Lemma atn_parser_eq_interp_cpp : atn_parser_py = atn_parser_interp_cpp. Proof. vm_compute. reflexivity. Qed.

Lemma tokens_files_from_g4 :
  tokens_parser_py = tokens_expected /\ tokens_lexer_py = tokens_expected /\
  tokens_parser_cpp = tokens_expected /\ tokens_lexer_cpp = tokens_expected.
Proof. vm_compute. repeat split; reflexivity. Qed.

Lemma token_numbering_from_g4 : numbering_ok = true.
Proof. vm_compute. reflexivity. Qed.

Lemma symbolic_names_from_g4 :
  lexer_symbolic_py = symbolic_expected /\ parser_symbolic_py = symbolic_expected /\
  lexer_symbolic_cpp = symbolic_expected /\ parser_symbolic_cpp = symbolic_expected /\
  interp_lexer_symbolic_py = symbolic_expected /\ interp_parser_symbolic_py = symbolic_expected /\
  interp_lexer_symbolic_cpp = symbolic_expected /\ interp_parser_symbolic_cpp = symbolic_expected.
Proof. vm_compute. repeat split; reflexivity. Qed.

Lemma literal_names_from_g4 :
  nonempty lexer_literals_py = nonempty literals_expected_full /\
  strip_trailing parser_literals_py = strip_trailing literals_expected_full /\
  strip_trailing lexer_literals_cpp = strip_trailing literals_expected_full /\
  strip_trailing parser_literals_cpp = strip_trailing literals_expected_full /\
  strip_trailing interp_lexer_literals_py = strip_trailing literals_expected_full /\
  strip_trailing interp_parser_literals_py = strip_trailing literals_expected_full /\
  strip_trailing interp_lexer_literals_cpp = strip_trailing literals_expected_full /\
  strip_trailing interp_parser_literals_cpp = strip_trailing literals_expected_full.
Proof. vm_compute. repeat split; reflexivity. Qed.

Lemma rule_names_from_g4 :
  parser_rules_py = parser_rule_names /\ parser_rules_cpp = parser_rule_names /\
  interp_parser_rules_py = parser_rule_names /\ interp_parser_rules_cpp = parser_rule_names /\
  lexer_rules_py = lex_rule_names /\ lexer_rules_cpp = lex_rule_names /\
  interp_lexer_rules_py = lex_rule_names /\ interp_lexer_rules_cpp = lex_rule_names.
Proof. vm_compute. repeat split; reflexivity. Qed.

Lemma rule_count_ok : List.length parser_rule_names = parser_rule_count. Proof. reflexivity. Qed.

(* The generated Python parser calls adaptivePredict(decision) only at the state of that decision (or, for a starred
   block, at its loop-back state): the decision numbers in the generated code are those of the embedded automaton. *)
Definition predict_site_ok (sd : N * N) : bool :=
  match nth_error atn_decision_states (N.to_nat (snd sd)) with
  | Some (e, l) => (N.eqb (fst sd) e || N.eqb (fst sd) l)%bool
  | None => false
  end.
Lemma predict_sites_ok : forallb predict_site_ok py_predict_sites = true.
Proof. vm_compute. reflexivity. Qed.
Lemma predict_sites_nonempty : py_predict_sites <> [].
Proof. discriminate. Qed.
