(* SPACING DOES NOT MATTER, at lexer level.  Every statement below is fully proved (closed under the global context); nothing is partial.

   PART 1 (generic, any lexer grammar):
     M_local            matching is local: if w[i+k] = w'[i'+k] for k < j-i then  M w e i j -> M w' e i' (i'+(j-i));
     M_local_same       the same at equal positions;  M_star_tok_inv: what a starred character set derives;
     LexStep_shift, LexSpec_shift   a lexer step / a whole lexing only looks at the text from its start on: two texts
                        with a common suffix (at offsets a, a') have the same steps, shifted by [shift_tok a a'].
   PART 2 (the concrete lexer lex_g / lex_rules):
     space_step         a maximal run [i, j) of blanks (32 or 9) that is neither exactly one tab nor exactly four spaces is
                        ONE SPACE token (so five spaces, or tab-space, are SPACE by longest match);
     tab_step           a maximal run that is exactly one tab, or exactly four spaces, is ONE TAB token
                        (tab_step_tab, tab_step_four_spaces: the two cases separately);
     blank_competitors  the only rules that match at the start of a maximal blank run are TAB, SPACE and ANY.
   PART 3: characterisations of STR and COMMENT (the only rules that contain a blank without starting with one);
     crossing           a match that starts inside u and reaches beyond u in  u ++ s ++ v  (s a blank run, u not ending in
                        a blank) has a counterpart in  u ++ s' ++ v  for every other blank run s'.
   PART 4 (the main theorem).  [visible rules w ts] maps each raw token (p, a, b) of a non-skip rule to
     (p, seg w a b) = (rule position, token text), and drops the tokens of skip rules; positions, lines, columns are dropped.
     blank_run_irrelevant   w = u ++ s ++ v, w' = u ++ s' ++ v, s and s' non-empty runs of blanks (spaces AND tabs, any
                        length), s' not a spelling of TAB (not [9], not four spaces), u empty or ending in a non-blank,
                        v empty or starting with a non-blank, LexSpec w 0 ts, and (p_SPACE, |u|, |u|+|s|) in ts.  Then there
                        is ts' with LexSpec w' 0 ts' (unique, by LexSpec_functional), (p_SPACE, |u|, |u|+|s'|) in ts', and
                        visible w ts = visible w' ts'.
     space_run_irrelevant_gen   the instance for runs of spaces, |s| arbitrary, |s'| <> 4;
     space_run_irrelevant       the instance asked for: runs of one to three spaces;
     lex_blank_run_irrelevant, lex_space_run_irrelevant, lex_tokens_space_run_irrelevant
                        the same for the executable lexer (any fuels for which it answers on both texts): the token
                        streams handed to the parser agree in (token type, token text).
     Examples: "a  b" / "a b", "a" space tab "b" / "a b"; inside a string the hypothesis fails and the conclusion too.
     NOT covered (false in general): inserting a run where there was none (tokens may merge), runs next to other blanks.
   PART 5 (loader): final_newline_irrelevant, with_final_newline_idem, loads_final_newline, load_final_newline. *)
From Coq Require Import List NArith Bool Arith Lia.
Import ListNotations.
From BB Require Import Ebnf Chars Lexer EbnfP LexerP G4Data LayoutP Loader.

(* ================================================================================================ *)
(* PART 1 -- generic: matching is local                                                              *)
(* ================================================================================================ *)
Section Generic.
Variable lg : nat -> ebnf cset.
Local Notation GM := (M N cset cmatch lg).

Theorem M_local w w' e i j : GM w e i j ->
  forall i', (forall k, k < j - i -> nth_error w (i + k) = nth_error w' (i' + k)) ->
  GM w' e i' (i' + (j - i)).
Proof.
  intros HM.
  induction HM as [t i x Hx Hm|r i j HM IH|i|a b i k j H1 IH1 H2 IH2|a b i j H1 IH1|a b i j H1 IH1|a i
                  |a i k j Hlt H1 IH1 H2 IH2]; intros i' Hag.
  - replace (i' + (S i - i)) with (S i') by lia. apply MTok with (x := x); [|exact Hm].
    specialize (Hag 0). rewrite !Nat.add_0_r in Hag. rewrite <- Hag; [exact Hx|lia].
  - apply MRef. apply IH. exact Hag.
  - replace (i' + (i - i)) with i' by lia. apply MEps.
  - pose proof (M_le _ _ _ _ _ _ _ _ H1) as L1. pose proof (M_le _ _ _ _ _ _ _ _ H2) as L2.
    apply MSeq with (k := i' + (k - i)).
    + apply IH1. intros m Hm. apply Hag. lia.
    + replace (i' + (j - i)) with (i' + (k - i) + (j - k)) by lia. apply IH2.
      intros m Hm. replace (k + m) with (i + (k - i + m)) by lia.
      replace (i' + (k - i) + m) with (i' + (k - i + m)) by lia. apply Hag. lia.
  - apply MAltL. apply IH1. exact Hag.
  - apply MAltR. apply IH1. exact Hag.
  - replace (i' + (i - i)) with i' by lia. apply MStar0.
  - pose proof (M_le _ _ _ _ _ _ _ _ H2) as L2.
    apply MStarS with (k := i' + (k - i)); [lia| |].
    + apply IH1. intros m Hm. apply Hag. lia.
    + replace (i' + (j - i)) with (i' + (k - i) + (j - k)) by lia. apply IH2.
      intros m Hm. replace (k + m) with (i + (k - i + m)) by lia.
      replace (i' + (k - i) + m) with (i' + (k - i + m)) by lia. apply Hag. lia.
Qed.

(* same positions: two words that agree on [i, j) *)
Corollary M_local_same w w' e i j : GM w e i j ->
  (forall k, i <= k < j -> nth_error w k = nth_error w' k) -> GM w' e i j.
Proof.
  intros HM Hag. pose proof (M_le _ _ _ _ _ _ _ _ HM) as L.
  replace j with (i + (j - i)) by lia. apply M_local with (w := w); [exact HM|].
  intros k Hk. apply Hag. lia.
Qed.

(* a starred character set derives exactly the runs of characters of the set *)
Lemma M_star_tok_inv w t i j : GM w (Star (Tok t)) i j ->
  i <= j /\ forall k, i <= k < j -> exists x, nth_error w k = Some x /\ cmatch t x = true.
Proof.
  intros H. remember (Star (Tok t)) as e eqn:E. revert E.
  induction H as [t0 i x Hx Hm|r i j HM IH|i|a b i k j H1 IH1 H2 IH2|a b i j H1 IH1|a b i j H1 IH1|a i
                 |a i k j Hlt H1 IH1 H2 IH2]; intros E; try discriminate E.
  - split; [lia|]. intros k Hk. lia.
  - injection E as ->. destruct (IH2 eq_refl) as (Hkj & Hall). split; [lia|].
    inversion H1 as [t0 i0 x Hx Hm| | | | | | |]; subst.
    intros m Hm'. destruct (Nat.eq_dec m i) as [->|Hne]; [exists x; auto|].
    apply Hall. lia.
Qed.

Variable rules : list (nat * nat * bool).

(* a lexer step only looks at the text from its start on: two words with a common (shifted) suffix *)
Lemma IsTok_shift w w' a a' :
  (forall k, nth_error w (a + k) = nth_error w' (a' + k)) ->
  forall i p j, a <= i -> IsTok lg rules w i p j -> IsTok lg rules w' (i - a + a') p (j - a + a').
Proof.
  intros Hag i p j Hai (r & Hr & Hlt & HM). exists r. split; [exact Hr|]. split; [lia|].
  replace (j - a + a') with (i - a + a' + (j - i)) by lia.
  apply M_local with (w := w); [exact HM|].
  intros k _. replace (i + k) with (a + (i - a + k)) by lia.
  replace (i - a + a' + k) with (a' + (i - a + k)) by lia. apply Hag.
Qed.

Lemma LexStep_shift w w' a a' :
  (forall k, nth_error w (a + k) = nth_error w' (a' + k)) ->
  forall i p j, a <= i -> LexStep lg rules w i p j -> LexStep lg rules w' (i - a + a') p (j - a + a').
Proof.
  intros Hag i p j Hai (HT & Hmax & Hfirst).
  assert (Hij : i < j) by (destruct HT as (r & _ & Hlt & _); exact Hlt).
  assert (Hag' : forall k, nth_error w' (a' + k) = nth_error w (a + k)) by (intros k; symmetry; apply Hag).
  split; [apply IsTok_shift with (w := w); assumption|]. split.
  - intros p' j' HT'.
    assert (Hlt' : i - a + a' < j') by (destruct HT' as (r & _ & Hlt & _); exact Hlt).
    apply (IsTok_shift w' w a' a Hag') in HT'; [|lia].
    replace (i - a + a' - a' + a) with i in HT' by lia.
    apply Hmax in HT'. lia.
  - intros p' Hp HT'.
    apply (IsTok_shift w' w a' a Hag') in HT'; [|lia].
    replace (i - a + a' - a' + a) with i in HT' by lia.
    replace (j - a + a' - a' + a) with j in HT' by lia.
    exact (Hfirst p' Hp HT').
Qed.

Definition shift_tok (a a' : nat) (t : nat * nat * nat) : nat * nat * nat :=
  let '(p, i, j) := t in (p, i - a + a', j - a + a').

Lemma LexSpec_shift w w' a a' :
  (forall k, nth_error w (a + k) = nth_error w' (a' + k)) ->
  forall i ts, LexSpec lg rules w i ts -> a <= i ->
  LexSpec lg rules w' (i - a + a') (map (shift_tok a a') ts).
Proof.
  intros Hag i ts H. induction H as [i Hi|i p j ts Hi Hs Hts IH]; intros Hai.
  - cbn [map]. apply LSnil. apply nth_error_None.
    replace (i - a + a') with (a' + (i - a)) by lia. rewrite <- Hag.
    apply nth_error_None. lia.
  - assert (Hij : i < j) by (destruct Hs as ((r & _ & Hlt & _) & _); exact Hlt).
    cbn [map shift_tok]. apply LScons.
    + apply nth_error_Some. replace (i - a + a') with (a' + (i - a)) by lia. rewrite <- Hag.
      apply nth_error_Some. lia.
    + apply LexStep_shift with (w := w); assumption.
    + apply IH. lia.
Qed.
End Generic.

(* ================================================================================================ *)
(* PART 2 -- the concrete lexer: runs of blanks                                                      *)
(* ================================================================================================ *)
Local Notation LM := (M N cset cmatch lex_g).

Definition blank_at (w:list N) (k:nat) : Prop := nth_error w k = Some 32%N \/ nth_error w k = Some 9%N.
Definition nonblank (c:N) : Prop := c <> 32%N /\ c <> 9%N.
(* position j is the end of the text or holds a character that is neither a space nor a tab *)
Definition blank_end (w:list N) (j:nat) : Prop :=
  length w <= j \/ exists x, nth_error w j = Some x /\ nonblank x.

Lemma blank_end_not_blank w j : blank_end w j -> ~ blank_at w j.
Proof.
  intros [Hl|(x & Hx & H32 & H9)] [H|H].
  - apply nth_error_None in Hl. congruence.
  - apply nth_error_None in Hl. congruence.
  - rewrite Hx in H. injection H as ->. apply H32. reflexivity.
  - rewrite Hx in H. injection H as ->. apply H9. reflexivity.
Qed.

Definition cs_blank : cset := mkcs false [(32, 32); (9, 9)]%N.
Lemma cmatch_blank x : cmatch cs_blank x = true -> x = 32%N \/ x = 9%N.
Proof.
  unfold cmatch, in_ranges, cs_blank. cbn [cneg cranges existsb fst snd]. rewrite xorb_false_l, orb_false_r.
  intros H. apply orb_true_iff in H. destruct H as [H|H]; apply andb_true_iff in H; destruct H as (H1 & H2);
    apply N.leb_le in H1, H2; [left|right]; lia.
Qed.
Lemma blank_at_cmatch w k x : blank_at w k -> nth_error w k = Some x -> cmatch cs_blank x = true.
Proof. intros [H|H] Hx; rewrite Hx in H; injection H as ->; reflexivity. Qed.

Local Ltac minv :=
  repeat match goal with
  | H : M _ _ _ _ _ (Ref _) _ _ |- _ => inversion H; subst; clear H
  | H : M _ _ _ _ _ (lex_g _) _ _ |- _ => unfold lex_g in H
  | H : M _ _ _ _ _ (Seq _ _) _ _ |- _ => inversion H; subst; clear H
  | H : M _ _ _ _ _ (Alt _ _) _ _ |- _ => inversion H; subst; clear H
  | H : M _ _ _ _ _ (Tok _) _ _ |- _ =>
      let x := fresh "x" in let Hx := fresh "Hx" in let Hm := fresh "Hm" in
      apply M_tok_inv in H; destruct H as (-> & x & Hx & Hm); try (apply cmatch_single in Hm; subst x)
  end.
Local Ltac rule_at Hr HM :=
  vm_compute in Hr; injection Hr as <-; cbn [rid fst] in HM.

(* SPACE : [ \t]+ *)
Lemma M_space_inv w i j : LM w (Ref 21) i j -> i < j /\ forall k, i <= k < j -> blank_at w k.
Proof.
  intros H. inversion H as [|r i0 j0 HM| | | | | |]; subst; clear H. unfold lex_g in HM.
  inversion HM as [| | |a b i0 k j0 H1 H2| | | |]; subst; clear HM.
  apply M_tok_inv in H1. destruct H1 as (-> & x & Hx & Hm).
  apply M_star_tok_inv in H2. destruct H2 as (Hle & Hall). split; [lia|].
  intros m Hm'. destruct (Nat.eq_dec m i) as [->|Hne].
  - apply cmatch_blank in Hm. unfold blank_at. destruct Hm as [->| ->]; auto.
  - destruct (Hall m) as (y & Hy & Hmy); [lia|]. apply cmatch_blank in Hmy.
    unfold blank_at. destruct Hmy as [->| ->]; auto.
Qed.

Lemma M_space_intro w i j : i < j -> (forall k, i <= k < j -> blank_at w k) -> LM w (Ref 21) i j.
Proof.
  intros Hlt Hall. apply MRef. unfold lex_g.
  assert (Hj : j <= length w).
  { assert (Hb : blank_at w (j - 1)) by (apply Hall; lia).
    assert (j - 1 < length w); [|lia]. apply nth_error_Some. destruct Hb as [E|E]; rewrite E; discriminate. }
  destruct (nth_error w i) as [x|] eqn:Ex; [|apply nth_error_None in Ex; lia].
  apply MSeq with (k := S i).
  - apply MTok with (x := x); [exact Ex|]. apply (blank_at_cmatch w i); [apply Hall; lia|exact Ex].
  - replace j with (S i + (j - S i)) by lia. apply star_run; [|lia].
    intros m y Hm Hy. apply (blank_at_cmatch w m); [apply Hall; lia|exact Hy].
Qed.

(* TAB : '\t' | four spaces *)
Lemma M_tab_inv w i j : LM w (Ref 20) i j ->
  (j = S i /\ nth_error w i = Some 9%N) \/
  (j = i + 4 /\ forall k, i <= k < i + 4 -> nth_error w k = Some 32%N).
Proof.
  intros H. minv.
  - left. split; [reflexivity|assumption].
  - right. split; [lia|]. intros k Hk.
    assert (Hc : k = i \/ k = S i \/ k = S (S i) \/ k = S (S (S i))) by lia.
    destruct Hc as [->|[->|[->| ->]]]; assumption.
Qed.
Lemma M_tab_tab w i : nth_error w i = Some 9%N -> LM w (Ref 20) i (S i).
Proof. intros H. apply MRef. unfold lex_g. apply MAltL. econstructor; eauto. Qed.
Lemma M_tab_spaces w i : (forall k, i <= k < i + 4 -> nth_error w k = Some 32%N) -> LM w (Ref 20) i (i + 4).
Proof.
  intros H. apply MRef. unfold lex_g. apply MAltR.
  replace (i + 4) with (S (S (S (S i)))) by lia.
  apply MSeq with (k := S i); [apply MTok with (x := 32%N); [apply H; lia|reflexivity]|].
  apply MSeq with (k := S (S i)); [apply MTok with (x := 32%N); [apply H; lia|reflexivity]|].
  apply MSeq with (k := S (S (S i))); [apply MTok with (x := 32%N); [apply H; lia|reflexivity]|].
  apply MTok with (x := 32%N); [apply H; lia|reflexivity].
Qed.

Lemma avoid_tab : g4_avoid_except [p_STR; p_TAB; p_SPACE; p_COMMENT; p_ANY] 9 = true.
Proof. vm_compute. reflexivity. Qed.

(* every rule that matches at the start of a maximal run of blanks [i, j) *)
Lemma blank_competitors w i j : i < j -> (forall k, i <= k < j -> blank_at w k) -> blank_end w j ->
  forall p' r' j', nth_error lex_rules p' = Some r' -> i < j' -> LM w (Ref (rid r')) i j' ->
  (p' = p_TAB /\ j' <= j /\ ((j' = S i /\ nth_error w i = Some 9%N) \/
                             (j' = i + 4 /\ forall k, i <= k < i + 4 -> nth_error w k = Some 32%N))) \/
  (p' = p_SPACE /\ j' <= j) \/
  (p' = p_ANY /\ j' = S i).
Proof.
  intros Hlt Hall Hend p' r' j' Hr' Hlt' HM.
  pose proof (blank_end_not_blank w j Hend) as Hnb.
  assert (Hi : blank_at w i) by (apply Hall; lia).
  destruct (Nat.eq_dec p' p_TAB) as [->|N1].
  { left. split; [reflexivity|]. rule_at Hr' HM. apply M_tab_inv in HM.
    destruct HM as [(-> & E)|(-> & E)].
    - split; [lia|]. left. auto.
    - split; [|right; auto]. destruct (le_lt_dec (i + 4) j) as [|Hgt]; [assumption|exfalso].
      apply Hnb. left. apply E. lia. }
  destruct (Nat.eq_dec p' p_SPACE) as [->|N2].
  { right. left. split; [reflexivity|]. rule_at Hr' HM. apply M_space_inv in HM. destruct HM as (_ & E).
    destruct (le_lt_dec j' j) as [|Hgt]; [assumption|exfalso]. apply Hnb. apply E. lia. }
  destruct (Nat.eq_dec p' p_ANY) as [->|N3].
  { right. right. split; [reflexivity|]. rule_at Hr' HM. apply M_any_inv in HM. exact HM. }
  exfalso.
  destruct (Nat.eq_dec p' p_STR) as [->|N4].
  { rule_at Hr' HM. apply M_str_first in HM. destruct Hi as [E|E]; congruence. }
  destruct (Nat.eq_dec p' p_COMMENT) as [->|N5].
  { rule_at Hr' HM. apply M_comment_first in HM. destruct Hi as [E|E]; congruence. }
  destruct Hi as [E|E].
  - apply (avoid_no_token lex_g lex_rules avoid_fuel _ _ avoid_space p' r' Hr') with (w:=w) (i:=i) (j:=j'); auto.
    cbn [In]; intuition.
  - apply (avoid_no_token lex_g lex_rules avoid_fuel _ _ avoid_tab p' r' Hr') with (w:=w) (i:=i) (j:=j'); auto.
    cbn [In]; intuition.
Qed.

(* (A) a maximal run of blanks that is neither exactly one tab nor exactly four spaces is ONE SPACE token *)
Theorem space_step w i j :
  i < j -> (forall k, i <= k < j -> blank_at w k) -> blank_end w j ->
  ~ (j = S i /\ nth_error w i = Some 9%N) ->
  ~ (j = i + 4 /\ forall k, i <= k < i + 4 -> nth_error w k = Some 32%N) ->
  LexStep lex_g lex_rules w i p_SPACE j.
Proof.
  intros Hlt Hall Hend Hn1 Hn4.
  apply (lex_step_intro w i p_SPACE j (21, 18, true)); [reflexivity|exact Hlt| |].
  - cbn [rid fst]. apply M_space_intro; assumption.
  - intros p' r' j' Hr' Hlt' HM.
    destruct (blank_competitors w i j Hlt Hall Hend p' r' j' Hr' Hlt' HM)
      as [(-> & Hle & Hc)|[(-> & Hle)|(-> & ->)]].
    + split; [exact Hle|]. intros ->. exfalso. destruct Hc as [Hc|Hc]; [apply Hn1|apply Hn4]; exact Hc.
    + split; [exact Hle|]. intros _. lia.
    + split; [lia|]. intros _. unfold p_SPACE, p_ANY. lia.
Qed.

(* a maximal run of blanks that is exactly one tab, or exactly four spaces, is ONE TAB token *)
Theorem tab_step w i j :
  blank_end w j ->
  (j = S i /\ nth_error w i = Some 9%N) \/ (j = i + 4 /\ forall k, i <= k < i + 4 -> nth_error w k = Some 32%N) ->
  LexStep lex_g lex_rules w i p_TAB j.
Proof.
  intros Hend Hc.
  assert (Hlt : i < j) by (destruct Hc as [(-> & _)|(-> & _)]; lia).
  assert (Hall : forall k, i <= k < j -> blank_at w k).
  { intros k Hk. destruct Hc as [(-> & E)|(-> & E)].
    - right. replace k with i by lia. exact E.
    - left. apply E. exact Hk. }
  apply (lex_step_intro w i p_TAB j (20, 17, false)); [reflexivity|exact Hlt| |].
  - cbn [rid fst]. destruct Hc as [(-> & E)|(-> & E)]; [apply M_tab_tab|apply M_tab_spaces]; exact E.
  - intros p' r' j' Hr' Hlt' HM.
    destruct (blank_competitors w i j Hlt Hall Hend p' r' j' Hr' Hlt' HM)
      as [(-> & Hle & _)|[(-> & Hle)|(-> & ->)]].
    + split; [exact Hle|]. intros _. lia.
    + split; [exact Hle|]. intros _. unfold p_TAB, p_SPACE. lia.
    + split; [lia|]. intros _. unfold p_TAB, p_ANY. lia.
Qed.

Corollary tab_step_tab w i : nth_error w i = Some 9%N -> blank_end w (S i) ->
  LexStep lex_g lex_rules w i p_TAB (S i).
Proof. intros H He. apply tab_step; [exact He|left; auto]. Qed.
Corollary tab_step_four_spaces w i : (forall k, i <= k < i + 4 -> nth_error w k = Some 32%N) -> blank_end w (i + 4) ->
  LexStep lex_g lex_rules w i p_TAB (i + 4).
Proof. intros H He. apply tab_step; [exact He|right; auto]. Qed.

(* ================================================================================================ *)
(* PART 3 -- the two rules that can contain a blank without starting with one: STR and COMMENT        *)
(* ================================================================================================ *)
Definition cs_str : cset := mkcs true [(34, 34); (10, 10); (13, 13)]%N.
Definition cs_cmt : cset := mkcs true [(13, 13); (10, 10)]%N.

Lemma M_str_inv w i j : LM w (Ref 15) i j ->
  i + 2 <= j /\ nth_error w i = Some 34%N /\ nth_error w (j - 1) = Some 34%N /\
  forall k x, i < k < j - 1 -> nth_error w k = Some x -> cmatch cs_str x = true.
Proof.
  intros H. minv.
  match goal with HS : M _ _ _ _ _ (Star _) _ _ |- _ => apply M_star_tok_inv in HS; destruct HS as (Hle & Hall) end.
  rewrite !Nat.sub_succ, !Nat.sub_0_r.
  repeat split; [lia|assumption|assumption|].
  intros k x Hk Hkx. destruct (Hall k) as (y & Hy & Hmy); [lia|]. rewrite Hkx in Hy. injection Hy as <-. exact Hmy.
Qed.

Lemma M_str_intro w i j : i + 2 <= j -> nth_error w i = Some 34%N -> nth_error w (j - 1) = Some 34%N ->
  (forall k x, i < k < j - 1 -> nth_error w k = Some x -> cmatch cs_str x = true) -> LM w (Ref 15) i j.
Proof.
  intros Hlen H0 Hlast Hmid.
  assert (Hj : j - 1 < length w) by (apply nth_error_Some; rewrite Hlast; discriminate).
  apply MRef. unfold lex_g. apply MSeq with (k := S i); [apply MTok with (x := 34%N); [exact H0|reflexivity]|].
  apply MSeq with (k := j - 1).
  - replace (j - 1) with (S i + (j - 1 - S i)) by lia. apply star_run; [|lia].
    intros m x Hm Hx. apply (Hmid m); [lia|exact Hx].
  - replace j with (S (j - 1)) at 2 by lia. apply MTok with (x := 34%N); [exact Hlast|reflexivity].
Qed.

Lemma M_comment_inv w i j : LM w (Ref 63) i j ->
  i < j /\ nth_error w i = Some 35%N /\
  forall k x, i < k < j -> nth_error w k = Some x -> cmatch cs_cmt x = true.
Proof.
  intros H. minv.
  match goal with HS : M _ _ _ _ _ (Star _) _ _ |- _ => apply M_star_tok_inv in HS; destruct HS as (Hle & Hall) end.
  repeat split; [lia|assumption|].
  intros k x Hk Hkx. destruct (Hall k) as (y & Hy & Hmy); [lia|]. rewrite Hkx in Hy. injection Hy as <-. exact Hmy.
Qed.

Lemma M_comment_intro w i j : i < j -> j <= length w -> nth_error w i = Some 35%N ->
  (forall k x, i < k < j -> nth_error w k = Some x -> cmatch cs_cmt x = true) -> LM w (Ref 63) i j.
Proof.
  intros Hlt Hj H0 Hmid.
  apply MRef. unfold lex_g. apply MSeq with (k := S i); [apply MTok with (x := 35%N); [exact H0|reflexivity]|].
  replace j with (S i + (j - S i)) by lia. apply star_run; [|lia].
  intros m x Hm Hx. apply (Hmid m); [lia|exact Hx].
Qed.

(* ---- the text  u ++ s ++ v  where s is a run of blanks ---- *)
Definition respaced (u v s : list N) : list N := u ++ s ++ v.
Definition blanks (s : list N) : Prop := Forall (fun c => c = 32%N \/ c = 9%N) s.

Lemma W_length u v s : length (respaced u v s) = length u + length s + length v.
Proof. unfold respaced. rewrite !app_length. lia. Qed.
Lemma W_pre u v s k : k < length u -> nth_error (respaced u v s) k = nth_error u k.
Proof. intros H. unfold respaced. apply nth_error_app1. exact H. Qed.
Lemma W_mid_nth u v s k : k < length s -> nth_error (respaced u v s) (length u + k) = nth_error s k.
Proof.
  intros H. unfold respaced. rewrite nth_error_app2 by lia. rewrite nth_error_app1 by lia. f_equal. lia.
Qed.
Lemma W_mid u v s k : blanks s -> length u <= k < length u + length s -> blank_at (respaced u v s) k.
Proof.
  intros Hb H. replace k with (length u + (k - length u)) by lia. unfold blank_at. rewrite W_mid_nth by lia.
  destruct (nth_error s (k - length u)) as [x|] eqn:E; [|apply nth_error_None in E; lia].
  apply nth_error_In in E. unfold blanks in Hb. rewrite Forall_forall in Hb. destruct (Hb x E) as [-> | ->]; auto.
Qed.
Lemma W_post u v s k : nth_error (respaced u v s) (length u + length s + k) = nth_error v k.
Proof.
  unfold respaced. rewrite nth_error_app2 by lia. rewrite nth_error_app2 by lia. f_equal. lia.
Qed.

(* the last character of u, when there is one, is not a blank *)
Definition ends_nonblank (u : list N) : Prop := match rev u with [] => True | c :: _ => nonblank c end.
(* the first character of v, when there is one, is not a blank *)
Definition starts_nonblank (v : list N) : Prop := match v with [] => True | c :: _ => nonblank c end.

Lemma ends_nonblank_nth u : ends_nonblank u -> 0 < length u ->
  exists c, nth_error u (length u - 1) = Some c /\ nonblank c.
Proof.
  unfold ends_nonblank. intros H Hl. destruct (rev u) as [|c l] eqn:E.
  - apply (f_equal (@length N)) in E. rewrite rev_length in E. cbn in E. lia.
  - exists c. split; [|exact H]. rewrite <- (rev_involutive u), E. cbn [rev].
    rewrite app_length. cbn [length]. rewrite nth_error_app2 by lia.
    replace (length (rev l) + 1 - 1 - length (rev l)) with 0 by lia. reflexivity.
Qed.

Lemma starts_nonblank_end u v s : starts_nonblank v -> blank_end (respaced u v s) (length u + length s).
Proof.
  unfold starts_nonblank. intros H. destruct v as [|c v'].
  - left. rewrite W_length. cbn [length]. lia.
  - right. exists c. split; [|exact H]. replace (length u + length s) with (length u + length s + 0) by lia.
    rewrite W_post. reflexivity.
Qed.

Lemma cmatch_str_blank x : x = 32%N \/ x = 9%N -> cmatch cs_str x = true.
Proof. intros [-> | ->]; reflexivity. Qed.
Lemma cmatch_cmt_blank x : x = 32%N \/ x = 9%N -> cmatch cs_cmt x = true.
Proof. intros [-> | ->]; reflexivity. Qed.
Lemma blank_at_val w k x : blank_at w k -> nth_error w k = Some x -> x = 32%N \/ x = 9%N.
Proof. intros [E|E] Hx; rewrite Hx in E; injection E as ->; auto. Qed.

Theorem rules_avoid_tab p r w i j k : nth_error lex_rules p = Some r ->
  p <> p_STR -> p <> p_TAB -> p <> p_SPACE -> p <> p_COMMENT -> p <> p_ANY ->
  LM w (Ref (rid r)) i j -> i <= k < j -> nth_error w k <> Some 9%N.
Proof.
  intros Hr H1 H2 H3 H4 H5 HM Hk E. apply (all_avoid_except_spec lex_g lex_rules avoid_fuel _ _ avoid_tab p r Hr) with (w:=w) (i:=i) (j:=j) (k:=k) (x:=9%N); auto.
  cbn [In]; intuition.
Qed.

(* a match that starts inside u and reaches beyond u in one respacing has a counterpart in every other *)
Lemma crossing u v s s' : s <> [] -> s' <> [] -> blanks s -> blanks s' -> ends_nonblank u ->
  forall p r i j, nth_error lex_rules p = Some r -> i < length u -> length u < j ->
  LM (respaced u v s) (Ref (rid r)) i j ->
  exists j2, length u < j2 /\ LM (respaced u v s') (Ref (rid r)) i j2.
Proof.
  intros Hs Hs' Bs Bs' Hu p r i j Hr Hi Hj HM.
  assert (Hm : 1 <= length s) by (destruct s; [congruence|cbn; lia]).
  assert (Hm' : 1 <= length s') by (destruct s'; [congruence|cbn; lia]).
  destruct (ends_nonblank_nth u Hu) as (c & Hc & Hc32 & Hc9); [lia|].
  assert (Hlastu : ~ blank_at (respaced u v s) (length u - 1)).
  { intros [E|E]; rewrite W_pre in E by lia; rewrite Hc in E; injection E as ->; [apply Hc32|apply Hc9]; reflexivity. }
  destruct (Nat.eq_dec p p_STR) as [->|N1].
  { rule_at Hr HM. apply M_str_inv in HM. destruct HM as (Hlen & H0 & Hlast & Hmid).
    assert (Hge : length u + length s <= j - 1).
    { destruct (le_lt_dec (length u + length s) (j - 1)) as [|Hgt]; [assumption|exfalso].
      destruct (W_mid u v s (j - 1) Bs ltac:(lia)) as [E|E]; rewrite E in Hlast; discriminate Hlast. }
    remember (j - 1 - length u - length s) as q eqn:Eq.
    replace (j - 1) with (length u + length s + q) in Hlast by lia. rewrite W_post in Hlast.
    exists (length u + length s' + q + 1). split; [lia|]. apply M_str_intro.
    - lia.
    - rewrite W_pre by lia. rewrite W_pre in H0 by lia. exact H0.
    - replace (length u + length s' + q + 1 - 1) with (length u + length s' + q) by lia. rewrite W_post. exact Hlast.
    - intros k x Hk Hx. destruct (lt_dec k (length u)) as [Hku|Hku].
      + rewrite W_pre in Hx by lia. apply (Hmid k); [lia|]. rewrite W_pre by lia. exact Hx.
      + destruct (lt_dec k (length u + length s')) as [Hkm|Hkm].
        * apply cmatch_str_blank. apply (blank_at_val (respaced u v s') k); [|exact Hx]. apply W_mid; [exact Bs'|lia].
        * replace k with (length u + length s' + (k - length u - length s')) in Hx by lia. rewrite W_post in Hx.
          apply (Hmid (length u + length s + (k - length u - length s'))); [lia|]. rewrite W_post. exact Hx. }
  destruct (Nat.eq_dec p p_COMMENT) as [->|N2].
  { rule_at Hr HM. apply M_comment_inv in HM. destruct HM as (Hlt & H0 & Hmid).
    exists (length u + 1). split; [lia|]. apply M_comment_intro.
    - lia.
    - rewrite W_length. lia.
    - rewrite W_pre by lia. rewrite W_pre in H0 by lia. exact H0.
    - intros k x Hk Hx. destruct (lt_dec k (length u)) as [Hku|Hku].
      + rewrite W_pre in Hx by lia. apply (Hmid k); [lia|]. rewrite W_pre by lia. exact Hx.
      + apply cmatch_cmt_blank. apply (blank_at_val (respaced u v s') k); [|exact Hx]. apply W_mid; [exact Bs'|lia]. }
  exfalso.
  destruct (Nat.eq_dec p p_TAB) as [->|N3].
  { rule_at Hr HM. apply M_tab_inv in HM. apply Hlastu.
    destruct HM as [(-> & E)|(-> & E)]; [lia|]. left. apply E. lia. }
  destruct (Nat.eq_dec p p_SPACE) as [->|N4].
  { rule_at Hr HM. apply M_space_inv in HM. destruct HM as (_ & E). apply Hlastu. apply E. lia. }
  destruct (Nat.eq_dec p p_ANY) as [->|N5].
  { rule_at Hr HM. apply M_any_inv in HM. lia. }
  destruct (W_mid u v s (length u) Bs ltac:(lia)) as [E|E].
  - apply (rules_avoid_space p r (respaced u v s) i j (length u) Hr N1 N3 N4 N2 N5 HM); [lia|exact E].
  - apply (rules_avoid_tab p r (respaced u v s) i j (length u) Hr N1 N3 N4 N2 N5 HM); [lia|exact E].
Qed.

(* ================================================================================================ *)
(* PART 4 -- visible tokens; the width of a run of one to three spaces does not matter                *)
(* ================================================================================================ *)

(* what the parser sees of a raw token (rule position, start, end): nothing when the rule is a skip rule,
   otherwise the rule position and the token text.  Positions, lines and columns are dropped. *)
Definition vis_tok (rules : list (nat * nat * bool)) (w : list N) (t : nat * nat * nat) : option (nat * list N) :=
  let '(p, a, b) := t in
  match nth_error rules p with
  | Some r => if rskip r then None else Some (p, seg w a b)
  | None => None
  end.
Definition visible (rules : list (nat * nat * bool)) (w : list N) (ts : list (nat * nat * nat)) : list (nat * list N) :=
  filter_map (vis_tok rules w) ts.

Lemma skipn_nth_error {A} (w : list A) : forall i,
  skipn i w = match nth_error w i with Some x => x :: skipn (S i) w | None => [] end.
Proof.
  induction w as [|a w IH]; intros [|i]; try reflexivity.
  cbn [skipn nth_error]. rewrite IH. destruct (nth_error w i); reflexivity.
Qed.

Lemma firstn_skipn_ext {A} (w w' : list A) : forall n i i',
  (forall k, k < n -> nth_error w (i + k) = nth_error w' (i' + k)) ->
  firstn n (skipn i w) = firstn n (skipn i' w').
Proof.
  induction n as [|n IH]; intros i i' H; [reflexivity|].
  rewrite (skipn_nth_error w i), (skipn_nth_error w' i').
  pose proof (H 0 ltac:(lia)) as H0. rewrite !Nat.add_0_r in H0. rewrite H0.
  destruct (nth_error w' i') as [x|]; [|reflexivity]. cbn [firstn]. f_equal.
  apply IH. intros k Hk. replace (S i + k) with (i + S k) by lia. replace (S i' + k) with (i' + S k) by lia.
  apply H. lia.
Qed.

Lemma seg_ext w w' i j i' :
  (forall k, k < j - i -> nth_error w (i + k) = nth_error w' (i' + k)) ->
  seg w i j = seg w' i' (i' + (j - i)).
Proof.
  intros H. unfold seg. replace (i' + (j - i) - i') with (j - i) by lia. apply firstn_skipn_ext. exact H.
Qed.

Lemma vis_tok_shift rules w w' a a' :
  (forall k, nth_error w (a + k) = nth_error w' (a' + k)) ->
  forall p x y, a <= x -> x <= y -> vis_tok rules w (p, x, y) = vis_tok rules w' (shift_tok a a' (p, x, y)).
Proof.
  intros Hag p x y Hax Hxy. cbn [vis_tok shift_tok].
  destruct (nth_error rules p) as [r|]; [|reflexivity]. destruct (rskip r); [reflexivity|]. f_equal. f_equal.
  replace (y - a + a') with (x - a + a' + (y - x)) by lia. apply seg_ext.
  intros k _. replace (x + k) with (a + (x - a + k)) by lia.
  replace (x - a + a' + k) with (a' + (x - a + k)) by lia. apply Hag.
Qed.

Lemma visible_shift rules w w' a a' :
  (forall k, nth_error w (a + k) = nth_error w' (a' + k)) ->
  forall ts, (forall p x y, In (p, x, y) ts -> a <= x /\ x <= y) ->
  visible rules w ts = visible rules w' (map (shift_tok a a') ts).
Proof.
  intros Hag ts. unfold visible. induction ts as [|[[p x] y] ts IH]; intros Hts; [reflexivity|].
  cbn [map filter_map]. destruct (Hts p x y (or_introl eq_refl)) as (Hax & Hxy).
  rewrite <- (vis_tok_shift rules w w' a a' Hag p x y Hax Hxy).
  rewrite IH; [reflexivity|]. intros p0 x0 y0 Hin. apply (Hts p0). right. exact Hin.
Qed.

Lemma vis_space w a b : vis_tok lex_rules w (p_SPACE, a, b) = None.
Proof. reflexivity. Qed.

(* tokens that end inside u are the same tokens after respacing *)
Lemma prefix_step u v s s' : s <> [] -> s' <> [] -> blanks s -> blanks s' -> ends_nonblank u ->
  forall i p j, j <= length u -> LexStep lex_g lex_rules (respaced u v s) i p j ->
  LexStep lex_g lex_rules (respaced u v s') i p j.
Proof.
  intros Hs Hs' Bs Bs' Hu i p j Hj (HT & Hmax & Hfirst).
  assert (Hag : forall a b k, k < length u -> nth_error (respaced u v a) k = nth_error (respaced u v b) k).
  { intros a b k Hk. rewrite !W_pre by lia. reflexivity. }
  assert (Htr : forall a b i0 p0 j0, j0 <= length u ->
            IsTok lex_g lex_rules (respaced u v a) i0 p0 j0 -> IsTok lex_g lex_rules (respaced u v b) i0 p0 j0).
  { intros a b i0 p0 j0 Hj0 (r & Hr & Hlt & HM). exists r. split; [exact Hr|]. split; [exact Hlt|].
    apply M_local_same with (w := respaced u v a); [exact HM|]. intros k Hk. apply Hag. lia. }
  assert (Hij : i < j) by (destruct HT as (r & _ & Hlt & _); exact Hlt).
  split; [apply (Htr s s'); assumption|]. split.
  - intros p' j' HT'. destruct (le_lt_dec j' (length u)) as [Hle|Hgt].
    + apply (Hmax p'). apply (Htr s' s); assumption.
    + exfalso. destruct HT' as (r & Hr & Hlt & HM).
      destruct (crossing u v s' s Hs' Hs Bs' Bs Hu p' r i j' Hr ltac:(lia) Hgt HM) as (j2 & Hj2 & HM2).
      assert (HT2 : IsTok lex_g lex_rules (respaced u v s) i p' j2) by (exists r; repeat split; [exact Hr|lia|exact HM2]).
      apply Hmax in HT2. lia.
  - intros p' Hp HT'. apply (Hfirst p' Hp). apply (Htr s' s); assumption.
Qed.

(* the new run is not one of the two spellings of TAB *)
Definition not_tab_spelling (s : list N) : Prop := s <> [9%N] /\ s <> [32; 32; 32; 32]%N.

Lemma respace_from u v s s' : s <> [] -> s' <> [] -> blanks s -> blanks s' -> not_tab_spelling s' ->
  ends_nonblank u -> starts_nonblank v ->
  forall i ts, LexSpec lex_g lex_rules (respaced u v s) i ts -> i <= length u ->
  In (p_SPACE, length u, length u + length s) ts ->
  exists ts', LexSpec lex_g lex_rules (respaced u v s') i ts' /\
              In (p_SPACE, length u, length u + length s') ts' /\
              visible lex_rules (respaced u v s) ts = visible lex_rules (respaced u v s') ts'.
Proof.
  intros Hs Hs' Bs Bs' (Hn1 & Hn4) Hu Hv i ts H.
  assert (Hm : 1 <= length s) by (destruct s; [congruence|cbn; lia]).
  assert (Hm' : 1 <= length s') by (destruct s'; [congruence|cbn; lia]).
  induction H as [i Hi|i p j ts Hi Hst Hts IH]; intros Hiu Hin; [destruct Hin|].
  assert (Htile : forall p0 a b, In (p0, a, b) ((p, i, j) :: ts) -> i <= a /\ a < b <= length (respaced u v s)).
  { apply (LexSpec_tiles lex_g lex_rules (respaced u v s) i ((p, i, j) :: ts)); [|lia].
    apply LScons; assumption. }
  destruct (Htile p i j (or_introl eq_refl)) as (_ & Hij & Hjl).
  assert (Htile' : forall p0 a b, In (p0, a, b) ts -> j <= a /\ a < b <= length (respaced u v s)).
  { apply (LexSpec_tiles lex_g lex_rules (respaced u v s) j ts Hts Hjl). }
  destruct (Nat.eq_dec i (length u)) as [->|Hne].
  - (* the run of blanks itself *)
    assert (E : p = p_SPACE /\ j = length u + length s).
    { destruct Hin as [E|Hin]; [injection E as -> ->; auto|]. apply Htile' in Hin. lia. }
    destruct E as (-> & ->).
    assert (Hag : forall k, nth_error (respaced u v s) (length u + length s + k)
                          = nth_error (respaced u v s') (length u + length s' + k)).
    { intros k. rewrite !W_post. reflexivity. }
    exists ((p_SPACE, length u, length u + length s') :: map (shift_tok (length u + length s) (length u + length s')) ts).
    split; [|split].
    + apply LScons.
      * rewrite W_length. lia.
      * apply space_step.
        -- lia.
        -- intros k Hk. apply W_mid; [exact Bs'|lia].
        -- apply starts_nonblank_end. exact Hv.
        -- intros (E1 & E2). apply Hn1. destruct s' as [|c [|c2 s2]]; cbn [length] in E1; try lia.
           replace (length u) with (length u + 0) in E2 by lia. rewrite W_mid_nth in E2 by (cbn [length]; lia).
           cbn [nth_error] in E2. injection E2 as ->. reflexivity.
        -- intros (E1 & E2). apply Hn4.
           destruct s' as [|c0 [|c1 [|c2 [|c3 [|c4 s4]]]]]; cbn [length] in E1; try lia.
           pose proof (E2 (length u + 0) ltac:(lia)) as X0. pose proof (E2 (length u + 1) ltac:(lia)) as X1.
           pose proof (E2 (length u + 2) ltac:(lia)) as X2. pose proof (E2 (length u + 3) ltac:(lia)) as X3.
           rewrite W_mid_nth in X0, X1, X2, X3 by (cbn [length]; lia). cbn [nth_error] in X0, X1, X2, X3.
           injection X0 as ->. injection X1 as ->. injection X2 as ->. injection X3 as ->. reflexivity.
      * pose proof (LexSpec_shift lex_g lex_rules _ _ _ _ Hag _ _ Hts (le_n _)) as HS.
        replace (length u + length s - (length u + length s) + (length u + length s')) with (length u + length s') in HS by lia.
        exact HS.
    + left. reflexivity.
    + unfold visible. cbn [filter_map]. rewrite !vis_space. apply visible_shift; [exact Hag|].
      intros p0 x y Hxy. apply Htile' in Hxy. lia.
  - (* a token before the run *)
    assert (Hin' : In (p_SPACE, length u, length u + length s) ts).
    { destruct Hin as [E|Hin]; [injection E as _ E _; lia|exact Hin]. }
    assert (Hju : j <= length u) by (apply Htile' in Hin'; lia).
    destruct (IH Hju Hin') as (ts' & HS' & Hin2 & Hvis).
    exists ((p, i, j) :: ts'). split; [|split].
    + apply LScons; [rewrite W_length; lia| |exact HS'].
      apply (prefix_step u v s s' Hs Hs' Bs Bs' Hu i p j Hju Hst).
    + right. exact Hin2.
    + unfold visible in *. cbn [filter_map].
      assert (Ev : vis_tok lex_rules (respaced u v s) (p, i, j) = vis_tok lex_rules (respaced u v s') (p, i, j)).
      { cbn [vis_tok]. destruct (nth_error lex_rules p) as [r|]; [|reflexivity].
        destruct (rskip r); [reflexivity|]. f_equal. f_equal.
        replace j with (i + (j - i)) at 2 by lia. apply seg_ext.
        intros k Hk. rewrite !W_pre by lia. reflexivity. }
      rewrite Ev, Hvis. reflexivity.
Qed.

(* (C), general form: a maximal run of blanks (spaces and tabs, any length) that is a SPACE token may be replaced by
   any other non-empty run of blanks that is not one of the two spellings of TAB *)
Theorem blank_run_irrelevant (u s s' v : list N) ts :
  s <> [] -> s' <> [] -> blanks s -> blanks s' -> not_tab_spelling s' ->
  ends_nonblank u -> starts_nonblank v ->
  LexSpec lex_g lex_rules (u ++ s ++ v) 0 ts ->
  In (p_SPACE, length u, length u + length s) ts ->
  exists ts', LexSpec lex_g lex_rules (u ++ s' ++ v) 0 ts' /\
              In (p_SPACE, length u, length u + length s') ts' /\
              visible lex_rules (u ++ s ++ v) ts = visible lex_rules (u ++ s' ++ v) ts'.
Proof.
  intros Hs Hs' Bs Bs' Hnt Hu Hv HL Hin.
  apply (respace_from u v s s' Hs Hs' Bs Bs' Hnt Hu Hv 0 ts HL); [lia|exact Hin].
Qed.

Lemma spaces_blanks (s : list N) : Forall (fun c => c = 32%N) s -> blanks s.
Proof. unfold blanks. apply Forall_impl. intros c Hc. left. exact Hc. Qed.

Lemma spaces_not_tab_spelling (s : list N) : Forall (fun c => c = 32%N) s -> length s <> 4 -> not_tab_spelling s.
Proof.
  intros F H4. split; intros ->.
  - inversion F as [|c l Hc _]; subst. discriminate Hc.
  - apply H4. reflexivity.
Qed.

(* runs of spaces: the run may have any length, the new run any length but four *)
Theorem space_run_irrelevant_gen (u s s' v : list N) ts :
  s <> [] -> s' <> [] -> Forall (fun c => c = 32%N) s -> Forall (fun c => c = 32%N) s' -> length s' <> 4 ->
  ends_nonblank u -> starts_nonblank v ->
  LexSpec lex_g lex_rules (u ++ s ++ v) 0 ts ->
  In (p_SPACE, length u, length u + length s) ts ->
  exists ts', LexSpec lex_g lex_rules (u ++ s' ++ v) 0 ts' /\
              In (p_SPACE, length u, length u + length s') ts' /\
              visible lex_rules (u ++ s ++ v) ts = visible lex_rules (u ++ s' ++ v) ts'.
Proof.
  intros Hs Hs' Fs Fs' H4 Hu Hv HL Hin.
  apply (blank_run_irrelevant u s s' v ts); auto using spaces_blanks, spaces_not_tab_spelling.
Qed.

(* (C) as asked: runs of one to three spaces *)
Theorem space_run_irrelevant (u s s' v : list N) ts :
  s <> [] -> s' <> [] -> Forall (fun c => c = 32%N) s -> Forall (fun c => c = 32%N) s' ->
  length s <= 3 -> length s' <= 3 ->
  ends_nonblank u -> starts_nonblank v ->
  LexSpec lex_g lex_rules (u ++ s ++ v) 0 ts ->
  In (p_SPACE, length u, length u + length s) ts ->
  exists ts', LexSpec lex_g lex_rules (u ++ s' ++ v) 0 ts' /\
              visible lex_rules (u ++ s ++ v) ts = visible lex_rules (u ++ s' ++ v) ts'.
Proof.
  intros Hs Hs' Fs Fs' L3 L3' Hu Hv HL Hin.
  destruct (space_run_irrelevant_gen u s s' v ts Hs Hs' Fs Fs' ltac:(lia) Hu Hv HL Hin) as (ts' & H1 & _ & H2).
  exists ts'. split; assumption.
Qed.

(* ---- the same statement on the tokens the executable lexer hands to the parser ---- *)
Definition tok_view (t : token) : nat * list N := (tkind t, ttext t).
Definition rule_type (rules : list (nat * nat * bool)) (p : nat) : nat :=
  match nth_error rules p with Some r => rtype r | None => 0 end.

Lemma visible_mk_token rules w ts :
  map tok_view (filter_map (mk_token rules w) ts)
  = map (fun pt => (rule_type rules (fst pt), snd pt)) (visible rules w ts).
Proof.
  unfold visible. induction ts as [|[[p a] b] ts IH]; [reflexivity|].
  cbn [filter_map mk_token vis_tok].
  destruct (nth_error rules p) as [r|] eqn:Er; [|exact IH].
  destruct (rskip r); [exact IH|]. cbn [map tok_view tkind ttext fst snd].
  f_equal; [|exact IH]. unfold rule_type. rewrite Er. reflexivity.
Qed.

Theorem lex_blank_run_irrelevant (u s s' v : list N) K F K' F' ts ts' :
  s <> [] -> s' <> [] -> blanks s -> blanks s' -> not_tab_spelling s' ->
  ends_nonblank u -> starts_nonblank v ->
  lex_raw lex_g lex_rules (u ++ s ++ v) K F = Some ts ->
  In (p_SPACE, length u, length u + length s) ts ->
  lex_raw lex_g lex_rules (u ++ s' ++ v) K' F' = Some ts' ->
  visible lex_rules (u ++ s ++ v) ts = visible lex_rules (u ++ s' ++ v) ts' /\
  map tok_view (filter_map (mk_token lex_rules (u ++ s ++ v)) ts)
  = map tok_view (filter_map (mk_token lex_rules (u ++ s' ++ v)) ts').
Proof.
  intros Hs Hs' Bs Bs' Hnt Hu Hv HL Hin HL'.
  apply lex_spec in HL. destruct HL as (HL & _). apply lex_spec in HL'. destruct HL' as (_ & Huniq).
  destruct (blank_run_irrelevant u s s' v ts Hs Hs' Bs Bs' Hnt Hu Hv HL Hin) as (ts2 & HS2 & _ & Hvis).
  apply Huniq in HS2. subst ts2. split; [exact Hvis|]. rewrite !visible_mk_token, Hvis. reflexivity.
Qed.

Theorem lex_space_run_irrelevant (u s s' v : list N) K F K' F' ts ts' :
  s <> [] -> s' <> [] -> Forall (fun c => c = 32%N) s -> Forall (fun c => c = 32%N) s' ->
  length s <= 3 -> length s' <= 3 ->
  ends_nonblank u -> starts_nonblank v ->
  lex_raw lex_g lex_rules (u ++ s ++ v) K F = Some ts ->
  In (p_SPACE, length u, length u + length s) ts ->
  lex_raw lex_g lex_rules (u ++ s' ++ v) K' F' = Some ts' ->
  visible lex_rules (u ++ s ++ v) ts = visible lex_rules (u ++ s' ++ v) ts' /\
  map tok_view (filter_map (mk_token lex_rules (u ++ s ++ v)) ts)
  = map tok_view (filter_map (mk_token lex_rules (u ++ s' ++ v)) ts').
Proof.
  intros Hs Hs' Fs Fs' L3 L3' Hu Hv HL Hin HL'.
  apply (lex_blank_run_irrelevant u s s' v K F K' F' ts ts'); auto using spaces_blanks.
  apply spaces_not_tab_spelling; [exact Fs'|lia].
Qed.

Corollary lex_tokens_space_run_irrelevant (u s s' v : list N) K F K' F' ts toks toks' :
  s <> [] -> s' <> [] -> Forall (fun c => c = 32%N) s -> Forall (fun c => c = 32%N) s' ->
  length s <= 3 -> length s' <= 3 ->
  ends_nonblank u -> starts_nonblank v ->
  lex_raw lex_g lex_rules (u ++ s ++ v) K F = Some ts ->
  In (p_SPACE, length u, length u + length s) ts ->
  lex lex_g lex_rules (u ++ s ++ v) K F = Some toks ->
  lex lex_g lex_rules (u ++ s' ++ v) K' F' = Some toks' ->
  map tok_view toks = map tok_view toks'.
Proof.
  intros Hs Hs' Fs Fs' L3 L3' Hu Hv HL Hin Hlex Hlex'. unfold lex in Hlex, Hlex'. rewrite HL in Hlex.
  destruct (lex_raw lex_g lex_rules (u ++ s' ++ v) K' F') as [ts'|] eqn:HL'; [|discriminate Hlex'].
  injection Hlex as <-. injection Hlex' as <-.
  apply (lex_space_run_irrelevant u s s' v K F K' F' ts ts'); assumption.
Qed.

(* the hypotheses are satisfiable: "a  b" versus "a b" *)
Example respace_example_hyp :
  lex_raw lex_g lex_rules ([97] ++ [32; 32] ++ [98])%N 64 64 = Some [(57, 0, 1); (p_SPACE, 1, 3); (57, 3, 4)].
Proof. vm_compute. reflexivity. Qed.

Example respace_example :
  exists ts', LexSpec lex_g lex_rules ([97] ++ [32] ++ [98])%N 0 ts' /\
    visible lex_rules ([97] ++ [32; 32] ++ [98])%N [(57, 0, 1); (p_SPACE, 1, 3); (57, 3, 4)]
    = visible lex_rules ([97] ++ [32] ++ [98])%N ts'.
Proof.
  apply (space_run_irrelevant [97]%N [32; 32]%N [32]%N [98]%N).
  - discriminate.
  - discriminate.
  - repeat constructor.
  - repeat constructor.
  - cbn [length]. lia.
  - cbn [length]. lia.
  - unfold ends_nonblank, nonblank. cbn [rev app]. split; discriminate.
  - unfold starts_nonblank, nonblank. split; discriminate.
  - apply (lex_spec lex_g lex_rules _ 64 64). exact respace_example_hyp.
  - cbn [length Nat.add]. right. left. reflexivity.
Qed.

(* and the conclusion, computed: both texts give the visible tokens  NAME "a", NAME "b" *)
Example respace_example_computed :
  lex_raw lex_g lex_rules [97; 32; 98]%N 64 64 = Some [(57, 0, 1); (p_SPACE, 1, 2); (57, 2, 3)] /\
  visible lex_rules [97; 32; 32; 98]%N [(57, 0, 1); (p_SPACE, 1, 3); (57, 3, 4)] = [(57, [97%N]); (57, [98%N])] /\
  visible lex_rules [97; 32; 98]%N [(57, 0, 1); (p_SPACE, 1, 2); (57, 2, 3)] = [(57, [97%N]); (57, [98%N])].
Proof. vm_compute. repeat split; reflexivity. Qed.

(* a run with a tab in it: "a" SPACE TAB "b"  versus  "a b" *)
Example respace_example_tab :
  lex_raw lex_g lex_rules ([97] ++ [32; 9] ++ [98])%N 64 64 = Some [(57, 0, 1); (p_SPACE, 1, 3); (57, 3, 4)] /\
  exists ts', LexSpec lex_g lex_rules ([97] ++ [32] ++ [98])%N 0 ts' /\
    visible lex_rules ([97] ++ [32; 9] ++ [98])%N [(57, 0, 1); (p_SPACE, 1, 3); (57, 3, 4)]
    = visible lex_rules ([97] ++ [32] ++ [98])%N ts'.
Proof.
  assert (HL : lex_raw lex_g lex_rules ([97] ++ [32; 9] ++ [98])%N 64 64 = Some [(57, 0, 1); (p_SPACE, 1, 3); (57, 3, 4)])
    by (vm_compute; reflexivity).
  split; [exact HL|].
  destruct (blank_run_irrelevant [97]%N [32; 9]%N [32]%N [98]%N [(57, 0, 1); (p_SPACE, 1, 3); (57, 3, 4)])
    as (ts' & H1 & _ & H2).
  - discriminate.
  - discriminate.
  - unfold blanks. repeat (apply Forall_cons; [auto|]). apply Forall_nil.
  - unfold blanks. repeat (apply Forall_cons; [auto|]). apply Forall_nil.
  - split; discriminate.
  - unfold ends_nonblank, nonblank. cbn [rev app]. split; discriminate.
  - unfold starts_nonblank, nonblank. split; discriminate.
  - apply (lex_spec lex_g lex_rules _ 64 64). exact HL.
  - cbn [length Nat.add]. right. left. reflexivity.
  - exists ts'. split; assumption.
Qed.

(* the token hypothesis matters: inside a string the spaces are part of the token text *)
Example respace_in_string :
  lex_raw lex_g lex_rules [34; 97; 32; 32; 98; 34]%N 64 64 = Some [(p_STR, 0, 6)] /\
  lex_raw lex_g lex_rules [34; 97; 32; 98; 34]%N 64 64 = Some [(p_STR, 0, 5)] /\
  visible lex_rules [34; 97; 32; 32; 98; 34]%N [(p_STR, 0, 6)] <> visible lex_rules [34; 97; 32; 98; 34]%N [(p_STR, 0, 5)].
Proof. vm_compute. repeat split; try reflexivity. discriminate. Qed.

(* ================================================================================================ *)
(* PART 5 -- the loader: a final newline is irrelevant                                                *)
(* ================================================================================================ *)
Lemma rev_last {A} (w l : list A) c d : rev w = c :: l -> last w d = c.
Proof.
  intros E. rewrite <- (rev_involutive w), E. cbn [rev]. apply last_last.
Qed.

Lemma with_final_newline_adds w : w <> [] -> last w 0%N <> 10%N -> last w 0%N <> 13%N ->
  with_final_newline w = w ++ [10%N].
Proof.
  intros Hne H10 H13. unfold with_final_newline. destruct (rev w) as [|c l] eqn:E.
  - exfalso. apply Hne. apply (f_equal (@rev N)) in E. rewrite rev_involutive in E. exact E.
  - rewrite (rev_last w l c 0%N E) in H10, H13.
    apply N.eqb_neq in H10, H13. rewrite H10, H13. reflexivity.
Qed.

Lemma with_final_newline_keeps w c : (c = 10%N \/ c = 13%N) -> with_final_newline (w ++ [c]) = w ++ [c].
Proof.
  intros Hc. unfold with_final_newline. rewrite rev_app_distr. cbn [rev app].
  destruct Hc as [-> | ->]; reflexivity.
Qed.

Theorem final_newline_irrelevant w : w <> [] -> last w 0%N <> 10%N -> last w 0%N <> 13%N ->
  with_final_newline (w ++ [10%N]) = with_final_newline w.
Proof.
  intros Hne H10 H13. rewrite with_final_newline_keeps by (left; reflexivity).
  symmetry. apply with_final_newline_adds; assumption.
Qed.

Theorem with_final_newline_idem w : with_final_newline (with_final_newline w) = with_final_newline w.
Proof.
  unfold with_final_newline at 2. destruct (rev w) as [|c l] eqn:E.
  - apply (f_equal (@rev N)) in E. rewrite rev_involutive in E. subst w. reflexivity.
  - destruct (N.eqb c 10 || N.eqb c 13)%bool eqn:Eb.
    + reflexivity.
    + rewrite with_final_newline_keeps by (left; reflexivity).
      unfold with_final_newline. rewrite E, Eb. reflexivity.
Qed.

Theorem loads_final_newline lg lrules fs cwd w : w <> [] -> last w 0%N <> 10%N -> last w 0%N <> 13%N ->
  loads lg lrules fs cwd (w ++ [10%N]) = loads lg lrules fs cwd w.
Proof. intros Hne H10 H13. unfold loads. rewrite final_newline_irrelevant by assumption. reflexivity. Qed.

(* two files of the same directory whose contents differ by the final newline load alike *)
Theorem load_final_newline lg lrules fs cwd f1 f2 w : w <> [] -> last w 0%N <> 10%N -> last w 0%N <> 13%N ->
  dirname f1 = dirname f2 ->
  read_file fs cwd f1 = Some (w ++ [10%N]) -> read_file fs cwd f2 = Some w ->
  load lg lrules fs cwd f1 = load lg lrules fs cwd f2.
Proof.
  intros Hne H10 H13 Hd R1 R2. unfold load. rewrite R1, R2, Hd.
  rewrite final_newline_irrelevant by assumption. reflexivity.
Qed.

(* ================================================================================================ *)
Print Assumptions M_local.
Print Assumptions M_local_same.
Print Assumptions M_star_tok_inv.
Print Assumptions LexStep_shift.
Print Assumptions LexSpec_shift.
Print Assumptions space_step.
Print Assumptions tab_step.
Print Assumptions tab_step_tab.
Print Assumptions tab_step_four_spaces.
Print Assumptions rules_avoid_tab.
Print Assumptions crossing.
Print Assumptions prefix_step.
Print Assumptions respace_from.
Print Assumptions blank_run_irrelevant.
Print Assumptions space_run_irrelevant_gen.
Print Assumptions space_run_irrelevant.
Print Assumptions lex_blank_run_irrelevant.
Print Assumptions lex_space_run_irrelevant.
Print Assumptions lex_tokens_space_run_irrelevant.
Print Assumptions respace_example_hyp.
Print Assumptions respace_example.
Print Assumptions respace_example_computed.
Print Assumptions respace_example_tab.
Print Assumptions respace_in_string.
Print Assumptions final_newline_irrelevant.
Print Assumptions with_final_newline_idem.
Print Assumptions loads_final_newline.
Print Assumptions load_final_newline.
