(* TEXT-LEVEL ROUND TRIP: the maximal-munch lexer reads back rendered token lists (model/Render.v).
   Every statement below is fully proved (closed under the global context); nothing is partial.

   STAGE 1 (composition; any token texts).  [alone t]: the text of t followed by a space and then by ANYTHING is one
     lexer step (LexerP.LexStep) of the rule of t's type ([alone_nl], [alone_tab]: the variants for NEWLINE / TAB tokens,
     which are written without a space after them).  [renderable ts]: every token is alone in this sense, and what
     is written after a token other than NEWLINE does not start with a blank.
       render_lexspec  renderable ts -> exists raw, LexSpec (render ts) 0 raw /\ visible raw = the (rule position, text) of ts
       render_lex      renderable ts -> lex (render ts) K F = Some toks -> Forall2 same_tok toks ts
       render_lex_views    the same as an equality of (type, text) lists.
   STAGE 2 (which texts are alone).
       whole_alone     if rule p is the first rule that matches the WHOLE of u (LexStep u 0 p |u|, "u lexed alone is one
                       token") and u does not start with a blank, '#', or an unclosed quote, then u ++ space ++ rest
                       has the step (0, p, |u|) for every rest: a longer match would contain the space, and only STR, TAB,
                       SPACE, COMMENT, ANY contain one (LayoutP.avoid_space).
       static analyses of the generated grammar, checked by vm_compute, each with a soundness lemma:
         nullable / nofirst (no word of the rule starts with c), words_of (the finite language of a literal rule);
         with LayoutP.avoids they dismiss the rules that come before the rule of the token.
       lex_ok_tok : token -> bool  -- INT digits+; FLOAT a REAL (digits+ ('.' digits+)? ([eE][+-]?digits+)?) that is not
         all digits; COMPLEX a REAL followed by j or J; STR quote, no quote/LF/CR, quote; REGREF q digits+;
         MEASURE "Measure" letters*; NAME letter (letter|digit|_)* that is no reserved word (the finite words of the
         rules before NAME: computed), no REGREF and no MEASURE text; NEWLINE LF or CR LF; TAB four spaces or a tab; every
         other kind: the literal of the grammar for that kind, checked by running the model lexer on it (iso_ok).
       lex_ok_tok_sound  lex_ok_tok t = true -> tok_ok t (and the text starts with a non-blank unless t is a TAB)
       lex_ok_renderable forallb lex_ok_tok ts = true -> tabs_ok ts = true -> renderable ts
                         (tabs_ok: a TAB is the first token or directly follows a NEWLINE)
   STAGE 3 (scripts).  lex_ok_script sc := forallb lex_ok_tok (up_script sc).
       pscript_mono    pscript f ts = Some sc -> f <= f' -> pscript f' ts = Some sc   (new; pincludes is total)
       up_script_tabs_ok, lex_ok_script_renderable, script_render_lex
       text_roundtrip  wf_script sc -> lex_ok_script sc = true -> front lex_g lex_rules (render (up_script sc)) = Ok sc'
                       -> erase_script sc' = erase_script sc       (with the fuels of Loader.front; LayoutP's erasure,
                       equal to UnparseP's by RoundtripP.erase_script_eq);  text_roundtrip_fuel: any fuels.
       ser_lex_ok      names_ok p = true -> ser_script p = Some sc -> lex_ok_script sc = true
       ser_text_roundtrip  wf_prog p -> strings_ok p -> modes_ok p -> names_ok p = true -> ser_script p = Some sc ->
                       front lex_g lex_rules (render (up_script sc)) = Ok sc' -> erase_script sc' = sc
     NOT shown: that the lexer answers at all with the fuels of [front] (fuel exhaustion gives Unspec, which the
     hypothesis "= Ok sc'" excludes), nor that the parser fuel of [front] suffices (Refuse ESyntax is likewise excluded). *)
From Coq Require Import List NArith ZArith Bool Arith Lia.
From Coq Require String Ascii.
Import ListNotations.
From BB Require Import Ebnf Chars Lexer EbnfP LexerP G4Data Syntax Parser Unparse Values Eval Loader Serialize SerializeP
  LayoutP SpaceP UnparseP RoundtripP Render.

Local Notation LM := (M N cset cmatch lex_g).
Local Ltac rule_at Hr HM := vm_compute in Hr; injection Hr as <-; cbn [rid fst] in HM.

(* ================================================================================================ *)
(* STAGE 1 -- composition: tokens that lex alone lex together                                        *)
(* ================================================================================================ *)

(* the position in lex_rules of the rule that produces tokens of type k *)
Fixpoint find_type (k:nat) (rs:list (nat*nat*bool)) (p:nat) : nat :=
  match rs with
  | [] => p
  | r :: rs' => if Nat.eqb (rtype r) k then p else find_type k rs' (S p)
  end.
Definition position_of_type (k:nat) : nat := find_type k lex_rules 0.

Lemma position_of_type_spec p r : nth_error lex_rules p = Some r -> position_of_type (rtype r) = p.
Proof.
  intros H.
  assert (C : forallb (fun pr => Nat.eqb (position_of_type (rtype (snd pr))) (fst pr))
                      (combine (seq 0 (length lex_rules)) lex_rules) = true) by (vm_compute; reflexivity).
  rewrite forallb_forall in C. specialize (C (0 + p, r) (nth_error_combine_seq lex_rules 0 p r H)).
  cbn [fst snd] in C. apply Nat.eqb_eq in C. exact C.
Qed.

(* t is produced by the (non-skip) rule at list position p *)
Definition tok_rule (t:token) (p:nat) : Prop :=
  exists r, nth_error lex_rules p = Some r /\ rtype r = tkind t /\ rskip r = false.

(* an ordinary token: its text followed by a space, and then by anything, is ONE lexer step of its own rule *)
Definition alone (t:token) : Prop :=
  exists p, tok_rule t p /\ ttext t <> [] /\
    forall rest, LexStep lex_g lex_rules (ttext t ++ 32%N :: rest) 0 p (length (ttext t)).
(* a NEWLINE token: its text followed by anything is one lexer step *)
Definition alone_nl (t:token) : Prop :=
  exists p, tok_rule t p /\ ttext t <> [] /\
    forall rest, LexStep lex_g lex_rules (ttext t ++ rest) 0 p (length (ttext t)).
(* a TAB token: its text followed by anything that does not start with a blank is one lexer step *)
Definition alone_tab (t:token) : Prop :=
  exists p, tok_rule t p /\ ttext t <> [] /\
    forall rest, starts_nonblank rest -> LexStep lex_g lex_rules (ttext t ++ rest) 0 p (length (ttext t)).

Definition tok_ok (t:token) : Prop :=
  if Nat.eqb (tkind t) 16 then alone_nl t else if Nat.eqb (tkind t) 17 then alone_tab t else alone t.

(* every token is fine on its own, and what is written after a token other than NEWLINE does not start with a
   blank (so: no token text starts with a blank except TAB, and TAB only occurs first or right after NEWLINE) *)
Fixpoint renderable (ts:list token) : Prop :=
  match ts with
  | [] => True
  | t :: ts' => tok_ok t /\ (Nat.eqb (tkind t) 16 = false -> starts_nonblank (render ts')) /\ renderable ts'
  end.

Lemma seg_prefix (x rest : list N) : seg (x ++ rest) 0 (length x) = x.
Proof.
  unfold seg. rewrite Nat.sub_0_r. cbn [skipn]. rewrite firstn_app, Nat.sub_diag, firstn_all. cbn [firstn].
  apply app_nil_r.
Qed.

(* a lexing of w, moved behind a prefix u *)
Lemma lexspec_prepend u w raw : LexSpec lex_g lex_rules w 0 raw ->
  LexSpec lex_g lex_rules (u ++ w) (length u) (map (shift_tok 0 (length u)) raw) /\
  visible lex_rules (u ++ w) (map (shift_tok 0 (length u)) raw) = visible lex_rules w raw.
Proof.
  intros H.
  assert (Hag : forall k, nth_error w (0 + k) = nth_error (u ++ w) (length u + k)).
  { intros k. rewrite nth_error_app2 by lia. f_equal. lia. }
  split.
  - exact (LexSpec_shift lex_g lex_rules w (u ++ w) 0 (length u) Hag 0 raw H (le_n 0)).
  - symmetry. apply visible_shift; [exact Hag|].
    intros p x y Hin. destruct (LexSpec_tiles lex_g lex_rules w 0 raw H (Nat.le_0_l _) p x y Hin) as (A & B & _). lia.
Qed.

Lemma vis_first p r x rest raw : nth_error lex_rules p = Some r -> rskip r = false ->
  visible lex_rules (x ++ rest) ((p, 0, length x) :: raw) = (p, x) :: visible lex_rules (x ++ rest) raw.
Proof.
  intros Hr Hs. unfold visible. cbn [filter_map vis_tok]. rewrite Hr, Hs, seg_prefix. reflexivity.
Qed.

(* a layout token (no space written after it) in front of a lexed text *)
Lemma cons_layout x rest p r raw' : x <> [] -> nth_error lex_rules p = Some r -> rskip r = false ->
  LexStep lex_g lex_rules (x ++ rest) 0 p (length x) -> LexSpec lex_g lex_rules rest 0 raw' ->
  exists raw, LexSpec lex_g lex_rules (x ++ rest) 0 raw /\
              visible lex_rules (x ++ rest) raw = (p, x) :: visible lex_rules rest raw'.
Proof.
  intros Hx Hr Hs Hstep Hspec. destruct (lexspec_prepend x rest raw' Hspec) as (HS & HV).
  exists ((p, 0, length x) :: map (shift_tok 0 (length x)) raw'). split.
  - apply LScons; [|exact Hstep|exact HS]. rewrite app_length. destruct x; [congruence|cbn [length]; lia].
  - rewrite (vis_first p r x rest _ Hr Hs), HV. reflexivity.
Qed.

(* an ordinary token and the space written after it, in front of a lexed text that does not start with a blank *)
Lemma cons_plain x rest p r raw' : x <> [] -> nth_error lex_rules p = Some r -> rskip r = false ->
  LexStep lex_g lex_rules (x ++ 32%N :: rest) 0 p (length x) -> starts_nonblank rest ->
  LexSpec lex_g lex_rules rest 0 raw' ->
  exists raw, LexSpec lex_g lex_rules (x ++ 32%N :: rest) 0 raw /\
              visible lex_rules (x ++ 32%N :: rest) raw = (p, x) :: visible lex_rules rest raw'.
Proof.
  intros Hx Hr Hs Hstep Hnb Hspec. destruct (lexspec_prepend (x ++ [32%N]) rest raw' Hspec) as (HS & HV).
  rewrite <- app_assoc in HS, HV. cbn [app] in HS, HV. rewrite app_length in HS, HV. cbn [length] in HS, HV.
  set (w := x ++ 32%N :: rest) in *.
  assert (Hlen : length w = length x + S (length rest)) by (unfold w; rewrite app_length; reflexivity).
  assert (Hsp : nth_error w (length x) = Some 32%N).
  { unfold w. rewrite nth_error_app2 by lia. rewrite Nat.sub_diag. reflexivity. }
  exists ((p, 0, length x) :: (p_SPACE, length x, length x + 1) :: map (shift_tok 0 (length x + 1)) raw'). split.
  - apply LScons; [lia|exact Hstep|]. apply LScons; [lia| |exact HS].
    apply space_step.
    + lia.
    + intros k Hk. replace k with (length x) by lia. left. exact Hsp.
    + exact (starts_nonblank_end x rest [32%N] Hnb).
    + intros (_ & E). rewrite Hsp in E. discriminate E.
    + intros (E & _). lia.
  - unfold w. rewrite (vis_first p r x (32%N :: rest) _ Hr Hs). fold w. f_equal.
    unfold visible in *. cbn [filter_map]. rewrite vis_space. exact HV.
Qed.

Theorem render_lexspec ts : renderable ts ->
  exists raw, LexSpec lex_g lex_rules (render ts) 0 raw /\
              visible lex_rules (render ts) raw = map (fun t => (position_of_type (tkind t), ttext t)) ts.
Proof.
  induction ts as [|t ts IH]; intros H.
  - exists []. split; [apply LSnil; cbn; lia|reflexivity].
  - destruct H as (Hok & Hnext & Hr). destruct (IH Hr) as (raw' & HS' & HV'). clear IH.
    change (render (t :: ts)) with (render_tok t ++ render ts). unfold render_tok, tok_ok in *.
    cbn [map]. destruct (Nat.eqb (tkind t) 16) eqn:E16; cbn [orb].
    + destruct Hok as (p & (r & Hp & Ht & Hsk) & Hx & Hstep).
      destruct (cons_layout (ttext t) (render ts) p r raw' Hx Hp Hsk (Hstep _) HS') as (raw & A & B).
      exists raw. split; [exact A|]. rewrite B, HV', <- Ht, (position_of_type_spec p r Hp). reflexivity.
    + specialize (Hnext eq_refl). destruct (Nat.eqb (tkind t) 17) eqn:E17.
      * destruct Hok as (p & (r & Hp & Ht & Hsk) & Hx & Hstep).
        destruct (cons_layout (ttext t) (render ts) p r raw' Hx Hp Hsk (Hstep _ Hnext) HS') as (raw & A & B).
        exists raw. split; [exact A|]. rewrite B, HV', <- Ht, (position_of_type_spec p r Hp). reflexivity.
      * destruct Hok as (p & (r & Hp & Ht & Hsk) & Hx & Hstep).
        rewrite <- app_assoc. cbn [app].
        destruct (cons_plain (ttext t) (render ts) p r raw' Hx Hp Hsk (Hstep _) Hnext HS') as (raw & A & B).
        exists raw. split; [exact A|]. rewrite B, HV', <- Ht, (position_of_type_spec p r Hp). reflexivity.
Qed.

(* the rule at the position of a type has that type *)
Lemma rule_type_position t p : tok_rule t p -> rule_type lex_rules (position_of_type (tkind t)) = tkind t.
Proof.
  intros (r & Hp & Ht & _). rewrite <- Ht, (position_of_type_spec p r Hp). unfold rule_type. rewrite Hp. reflexivity.
Qed.

Lemma tok_ok_rule t : tok_ok t -> exists p, tok_rule t p.
Proof.
  unfold tok_ok. destruct (Nat.eqb (tkind t) 16); [|destruct (Nat.eqb (tkind t) 17)];
    intros (p & Hp & _); exists p; exact Hp.
Qed.

Lemma renderable_views ts : renderable ts ->
  map (fun pt : nat * list N => (rule_type lex_rules (fst pt), snd pt))
      (map (fun t => (position_of_type (tkind t), ttext t)) ts) = map tok_view ts.
Proof.
  induction ts as [|t ts IH]; intros H; [reflexivity|]. destruct H as (Hok & _ & Hr).
  cbn [map fst snd]. rewrite (IH Hr). destruct (tok_ok_rule t Hok) as (p & Hp).
  rewrite (rule_type_position t p Hp). reflexivity.
Qed.

Lemma views_same_tok toks ts : map tok_view toks = map tok_view ts -> Forall2 same_tok toks ts.
Proof.
  revert ts. induction toks as [|a toks IH]; intros [|b ts] H; try discriminate H; constructor.
  - cbn [map] in H. unfold tok_view at 1 3 in H. injection H as E1 E2 _.
    split; [exact E1|right; right; exact E2].
  - apply IH. cbn [map] in H. injection H as _ _ H. exact H.
Qed.

(* the executable lexer: whenever it answers on the rendered text, it answers with the tokens rendered *)
Theorem render_lex_views ts K F toks : renderable ts -> lex lex_g lex_rules (render ts) K F = Some toks ->
  map tok_view toks = map tok_view ts.
Proof.
  intros Hr Hlex. unfold lex in Hlex.
  destruct (lex_raw lex_g lex_rules (render ts) K F) as [raw0|] eqn:Hraw; [|discriminate Hlex].
  injection Hlex as <-. destruct (lex_spec lex_g lex_rules _ K F raw0 Hraw) as (_ & Huniq).
  destruct (render_lexspec ts Hr) as (raw & HS & HV). apply Huniq in HS. subst raw.
  rewrite visible_mk_token, HV. apply renderable_views. exact Hr.
Qed.

Theorem render_lex ts K F toks : renderable ts -> lex lex_g lex_rules (render ts) K F = Some toks ->
  Forall2 same_tok toks ts.
Proof. intros Hr Hlex. apply views_same_tok. apply (render_lex_views ts K F); assumption. Qed.


(* ================================================================================================ *)
(* STAGE 2 -- which token texts lex alone                                                            *)
(* ================================================================================================ *)

(* ---- 2a: from "first rule that matches the whole text" to "alone" ---- *)

(* rule p is the first rule of the list that matches the whole of u (u lexed in isolation is one token of rule p) *)
Definition whole_step (u:list N) (p:nat) : Prop := LexStep lex_g lex_rules u 0 p (length u).

Lemma whole_step_intro u p r : nth_error lex_rules p = Some r -> u <> [] -> LM u (Ref (rid r)) 0 (length u) ->
  (forall p' r', p' < p -> nth_error lex_rules p' = Some r' -> ~ LM u (Ref (rid r')) 0 (length u)) ->
  whole_step u p.
Proof.
  intros Hr Hu HM Hearlier. apply (lex_step_intro u 0 p (length u) r Hr); [destruct u; [congruence|cbn; lia]|exact HM|].
  intros p' r' j' Hr' Hlt HM'. split.
  - apply (M_bound _ _ _ _ _ _ _ _ HM'). lia.
  - intros ->. destruct (le_lt_dec p p') as [|Hlt']; [assumption|]. exfalso. exact (Hearlier p' r' Hlt' Hr' HM').
Qed.

Lemma nth_error_pre (u v : list N) k : k < length u -> nth_error (u ++ v) k = nth_error u k.
Proof. intros H. apply nth_error_app1. exact H. Qed.

(* the first character decides that nothing longer than u matches in  u ++ space ++ rest *)
Theorem whole_alone u p c : nth_error u 0 = Some c -> c <> 32%N -> c <> 9%N -> c <> 35%N ->
  (c = 34%N -> 2 <= length u /\ nth_error u (length u - 1) = Some 34%N) ->
  whole_step u p -> forall rest, LexStep lex_g lex_rules (u ++ 32%N :: rest) 0 p (length u).
Proof.
  intros Hc N32 N9 N35 Hq ((r & Hr & Hlt & HM) & Hmax & Hfirst) rest.
  set (w := u ++ 32%N :: rest).
  assert (Hpre : forall k, k < length u -> nth_error w k = nth_error u k) by (intros k Hk; apply nth_error_pre; exact Hk).
  assert (Hsp : nth_error w (length u) = Some 32%N).
  { unfold w. rewrite nth_error_app2 by lia. rewrite Nat.sub_diag. reflexivity. }
  assert (Hc' : nth_error w 0 = Some c) by (rewrite Hpre by lia; exact Hc).
  apply (lex_step_intro w 0 p (length u) r Hr Hlt).
  - apply M_local_same with (w := u); [exact HM|]. intros k Hk. symmetry. apply Hpre. lia.
  - intros p' r' j' Hr' Hlt' HM'.
    destruct (le_lt_dec j' (length u)) as [Hle|Hgt].
    + assert (HT : IsTok lex_g lex_rules u 0 p' j').
      { exists r'. split; [exact Hr'|]. split; [exact Hlt'|].
        apply M_local_same with (w := w); [exact HM'|]. intros k Hk. apply Hpre. lia. }
      split; [exact Hle|]. intros ->. destruct (le_lt_dec p p') as [|Hlt2]; [assumption|].
      exfalso. exact (Hfirst p' Hlt2 HT).
    + exfalso.
      destruct (Nat.eq_dec p' p_ANY) as [->|N5].
      { rule_at Hr' HM'. apply M_any_inv in HM'. lia. }
      destruct (Nat.eq_dec p' p_TAB) as [->|N2].
      { rule_at Hr' HM'. apply M_tab_inv in HM'. destruct HM' as [(_ & E)|(_ & E)].
        - rewrite Hc' in E. injection E as ->. apply N9. reflexivity.
        - specialize (E 0 ltac:(lia)). rewrite Hc' in E. injection E as ->. apply N32. reflexivity. }
      destruct (Nat.eq_dec p' p_SPACE) as [->|N3].
      { rule_at Hr' HM'. apply M_space_inv in HM'. destruct HM' as (_ & E). specialize (E 0 ltac:(lia)).
        destruct E as [E|E]; rewrite Hc' in E; injection E as ->; [apply N32|apply N9]; reflexivity. }
      destruct (Nat.eq_dec p' p_COMMENT) as [->|N4].
      { rule_at Hr' HM'. apply M_comment_first in HM'. rewrite Hc' in HM'. injection HM' as ->. apply N35. reflexivity. }
      destruct (Nat.eq_dec p' p_STR) as [->|N1].
      { rule_at Hr' HM'. apply M_str_inv in HM'. destruct HM' as (_ & H0 & _ & Hmid).
        rewrite Hc' in H0. injection H0 as ->. destruct (Hq eq_refl) as (Hlen & Hlast).
        specialize (Hmid (length u - 1) 34%N ltac:(lia)). rewrite Hpre in Hmid by lia. specialize (Hmid Hlast).
        discriminate Hmid. }
      apply (rules_avoid_space p' r' w 0 j' (length u) Hr' N1 N2 N3 N4 N5 HM'); [lia|exact Hsp].
Qed.

(* ---- 2b: deciding whole_step by running the model lexer's [pick] on the text alone ---- *)
Definition whole_step_b (u:list N) (p:nat) : bool :=
  match pick lex_g u (8 * length u + 64) 64 lex_rules 0 0 with
  | Some (Some (p', j)) => (Nat.eqb p' p && Nat.eqb j (length u))%bool
  | _ => false
  end.

Lemma whole_step_b_sound u p : whole_step_b u p = true -> whole_step u p.
Proof.
  unfold whole_step_b, whole_step.
  destruct (pick lex_g u (8 * length u + 64) 64 lex_rules 0 0) as [[[p' j]|]|] eqn:E; try discriminate.
  intros H. apply andb_true_iff in H. destruct H as (H1 & H2). apply Nat.eqb_eq in H1, H2. subst p' j.
  exact (pick_step lex_g lex_rules u _ _ 0 p (length u) E).
Qed.

(* ---- 2c: static analyses of the rule bodies ---- *)
Definition afuel : nat := 40.

(* may e derive the empty word?  (true when the fuel runs out) *)
Fixpoint nullable (f:nat) (e:ebnf cset) : bool :=
  match f with 0 => true | S f =>
    match e with
    | Tok _ => false
    | Ref r => nullable f (lex_g r)
    | Eps => true
    | Seq a b => (nullable f a && nullable f b)%bool
    | Alt a b => (nullable f a || nullable f b)%bool
    | Star _ => true
    end end.

Lemma nullable_sound w e i j : LM w e i j -> forall f, nullable f e = false -> i < j.
Proof.
  induction 1 as [t i x Hx Hm|r i j HM IH|i|a b i k j H1 IH1 H2 IH2|a b i j H1 IH1|a b i j H1 IH1|a i
                 |a i k j Hlt H1 IH1 H2 IH2]; intros [|f] Hn; try discriminate Hn; cbn [nullable] in Hn.
  - lia.
  - exact (IH f Hn).
  - apply andb_false_iff in Hn. pose proof (M_le _ _ _ _ _ _ _ _ H1). pose proof (M_le _ _ _ _ _ _ _ _ H2).
    destruct Hn as [Hn|Hn]; [specialize (IH1 f Hn)|specialize (IH2 f Hn)]; lia.
  - apply orb_false_iff in Hn. exact (IH1 f (proj1 Hn)).
  - apply orb_false_iff in Hn. exact (IH1 f (proj2 Hn)).
Qed.

(* no non-empty word of e starts with c *)
Fixpoint nofirst (f:nat) (c:N) (e:ebnf cset) : bool :=
  match f with 0 => false | S f =>
    match e with
    | Tok t => negb (cmatch t c)
    | Ref r => nofirst f c (lex_g r)
    | Eps => true
    | Seq a b => (nofirst f c a && (negb (nullable f a) || nofirst f c b))%bool
    | Alt a b => (nofirst f c a && nofirst f c b)%bool
    | Star a => nofirst f c a
    end end.

Lemma nofirst_sound w e i j : LM w e i j -> forall f c, nofirst f c e = true -> i < j -> nth_error w i <> Some c.
Proof.
  induction 1 as [t i x Hx Hm|r i j HM IH|i|a b i k j H1 IH1 H2 IH2|a b i j H1 IH1|a b i j H1 IH1|a i
                 |a i k j Hlt H1 IH1 H2 IH2]; intros [|f] c Hn Hij; try discriminate Hn; cbn [nofirst] in Hn.
  - rewrite Hx. intros E. injection E as ->. rewrite Hm in Hn. discriminate Hn.
  - exact (IH f c Hn Hij).
  - lia.
  - apply andb_true_iff in Hn. destruct Hn as (Ha & Hb).
    pose proof (M_le _ _ _ _ _ _ _ _ H1) as L1.
    destruct (Nat.eq_dec i k) as [->|Hne].
    + apply orb_true_iff in Hb. destruct Hb as [Hb|Hb].
      * apply negb_true_iff in Hb. pose proof (nullable_sound _ _ _ _ H1 f Hb). lia.
      * exact (IH2 f c Hb Hij).
    + apply (IH1 f c Ha). lia.
  - apply andb_true_iff in Hn. exact (IH1 f c (proj1 Hn) Hij).
  - apply andb_true_iff in Hn. exact (IH1 f c (proj2 Hn) Hij).
  - lia.
  - exact (IH1 f c Hn Hlt).
Qed.

(* the finite language of a rule body made of single characters, sequences and alternatives *)
Definition single (t:cset) : option N :=
  match t with
  | mkcs false [(a, b)] => if N.eqb a b then Some a else None
  | _ => None
  end.

Lemma single_spec t a x : single t = Some a -> cmatch t x = true -> x = a.
Proof.
  destruct t as [[|] [|[lo hi] [|]]]; cbn [single]; try discriminate.
  destruct (N.eqb_spec lo hi) as [->|]; [|discriminate]. intros [= ->]. apply cmatch_single.
Qed.

Fixpoint words_of (f:nat) (e:ebnf cset) : option (list (list N)) :=
  match f with 0 => None | S f =>
    match e with
    | Tok t => match single t with Some a => Some [[a]] | None => None end
    | Ref r => words_of f (lex_g r)
    | Eps => Some [[]]
    | Seq a b => match words_of f a, words_of f b with
                 | Some A, Some B => Some (flat_map (fun x => map (app x) B) A)
                 | _, _ => None
                 end
    | Alt a b => match words_of f a, words_of f b with
                 | Some A, Some B => Some (A ++ B)
                 | _, _ => None
                 end
    | Star _ => None
    end end.

Lemma firstn_plus {A} n m : forall l : list A, firstn (n + m) l = firstn n l ++ firstn m (skipn n l).
Proof. induction n as [|n IH]; intros [|x l]; cbn [Nat.add firstn skipn app]; try reflexivity; [now rewrite firstn_nil|now rewrite IH]. Qed.
Lemma skipn_plus {A} n m : forall l : list A, skipn n (skipn m l) = skipn (m + n) l.
Proof. induction m as [|m IH]; intros [|x l]; cbn [Nat.add skipn]; try reflexivity; [apply skipn_nil|apply IH]. Qed.

Lemma seg_split (w:list N) i k j : i <= k -> k <= j -> seg w i j = seg w i k ++ seg w k j.
Proof.
  intros H1 H2. unfold seg. replace (j - i) with ((k - i) + (j - k)) by lia.
  rewrite firstn_plus, skipn_plus. replace (i + (k - i)) with k by lia. reflexivity.
Qed.

Lemma seg_one (w:list N) i x : nth_error w i = Some x -> seg w i (S i) = [x].
Proof.
  intros H. unfold seg. replace (S i - i) with 1 by lia. rewrite (skipn_nth_error w i), H. reflexivity.
Qed.

Lemma seg_nil (w:list N) i : seg w i i = [].
Proof. unfold seg. rewrite Nat.sub_diag. reflexivity. Qed.

Lemma words_of_sound w e i j : LM w e i j -> forall f L, words_of f e = Some L -> In (seg w i j) L.
Proof.
  induction 1 as [t i x Hx Hm|r i j HM IH|i|a b i k j H1 IH1 H2 IH2|a b i j H1 IH1|a b i j H1 IH1|a i
                 |a i k j Hlt H1 IH1 H2 IH2]; intros [|f] L HL; try discriminate HL; cbn [words_of] in HL.
  - destruct (single t) as [c|] eqn:Es; [|discriminate HL]. injection HL as <-.
    rewrite (seg_one w i x Hx). rewrite (single_spec t c x Es Hm). left. reflexivity.
  - exact (IH f L HL).
  - injection HL as <-. rewrite seg_nil. left. reflexivity.
  - destruct (words_of f a) as [A|] eqn:EA; [|discriminate HL]. destruct (words_of f b) as [B|] eqn:EB; [|discriminate HL].
    injection HL as <-. pose proof (M_le _ _ _ _ _ _ _ _ H1). pose proof (M_le _ _ _ _ _ _ _ _ H2).
    rewrite (seg_split w i k j) by assumption. apply in_flat_map. exists (seg w i k). split; [exact (IH1 f A EA)|].
    apply in_map. exact (IH2 f B EB).
  - destruct (words_of f a) as [A|] eqn:EA; [|discriminate HL]. destruct (words_of f b) as [B|] eqn:EB; [|discriminate HL].
    injection HL as <-. apply in_or_app. left. exact (IH1 f A EA).
  - destruct (words_of f a) as [A|] eqn:EA; [|discriminate HL]. destruct (words_of f b) as [B|] eqn:EB; [|discriminate HL].
    injection HL as <-. apply in_or_app. right. exact (IH1 f B EB).
Qed.

Lemma seg_whole (u:list N) : seg u 0 (length u) = u.
Proof. rewrite <- (app_nil_r u) at 1. apply seg_prefix. Qed.

Lemma nth_error_firstn_lt {A} : forall n k (l:list A), k < n -> nth_error (firstn n l) k = nth_error l k.
Proof. induction n as [|n IH]; intros [|k] [|x l] H; cbn [firstn nth_error]; try reflexivity; try lia. apply IH. lia. Qed.

(* the rules before position p *)
Lemma earlier_excl (u:list N) p (chk : nat * nat * bool -> bool) :
  forallb chk (firstn p lex_rules) = true ->
  (forall r', In r' (firstn p lex_rules) -> chk r' = true -> ~ LM u (Ref (rid r')) 0 (length u)) ->
  forall p' r', p' < p -> nth_error lex_rules p' = Some r' -> ~ LM u (Ref (rid r')) 0 (length u).
Proof.
  intros Hall Hsound p' r' Hlt Hr'.
  assert (Hin : In r' (firstn p lex_rules)).
  { apply nth_error_In with (n := p'). rewrite nth_error_firstn_lt by exact Hlt. exact Hr'. }
  apply (Hsound r' Hin). rewrite forallb_forall in Hall. apply Hall. exact Hin.
Qed.

(* (notations, not definitions: unification must not be tempted to unfold the analysis on a symbolic rule) *)
Local Notation rule_nofirst c r := (nofirst afuel c (Ref (rid r))).
Local Notation rule_nofirst_all cs r := (forallb (fun c => nofirst afuel c (Ref (rid r))) cs).

Lemma rule_nofirst_excl (u:list N) c r : nth_error u 0 = Some c -> rule_nofirst c r = true ->
  ~ LM u (Ref (rid r)) 0 (length u).
Proof.
  intros Hc Hn HM.
  assert (Hlt : 0 < length u) by (destruct u; [discriminate Hc|cbn [length]; lia]).
  exact (nofirst_sound u (Ref (rid r)) 0 (length u) HM afuel c Hn Hlt Hc).
Qed.

Lemma rule_nofirst_all_excl (u:list N) cs c r : nth_error u 0 = Some c -> In c cs -> rule_nofirst_all cs r = true ->
  ~ LM u (Ref (rid r)) 0 (length u).
Proof.
  intros Hc Hin Hn. rewrite forallb_forall in Hn.
  exact (rule_nofirst_excl u c r Hc (Hn c Hin)).
Qed.

(* ---- 2d: character classes and whole-word matching ---- *)
Definition cs_digit : cset := mkcs false [(48, 57)]%N.
Definition cs_letter : cset := mkcs false [(65, 90); (97, 122)]%N.
Definition cs_namechar : cset := mkcs false [(48, 57); (65, 90); (97, 122); (95, 95)]%N.
Definition is_digit (c:N) : bool := cmatch cs_digit c.
Definition is_letter (c:N) : bool := cmatch cs_letter c.
Definition is_namechar (c:N) : bool := cmatch cs_namechar c.

Definition digits : list N := map N.of_nat (seq 48 10).
Definition letters : list N := map N.of_nat (seq 65 26 ++ seq 97 26).

Lemma range_in lo n (c:N) : (N.of_nat lo <= c)%N -> (c < N.of_nat (lo + n))%N -> In c (map N.of_nat (seq lo n)).
Proof. intros H1 H2. rewrite <- (N2Nat.id c). apply in_map. apply in_seq. lia. Qed.

Lemma is_digit_range c : is_digit c = true -> (48 <= c <= 57)%N.
Proof.
  unfold is_digit, cmatch, in_ranges, cs_digit. cbn [cneg cranges existsb fst snd]. rewrite xorb_false_l, orb_false_r.
  intros H. apply andb_true_iff in H. destruct H as (H1 & H2). apply N.leb_le in H1, H2. lia.
Qed.
Lemma is_letter_range c : is_letter c = true -> (65 <= c <= 90)%N \/ (97 <= c <= 122)%N.
Proof.
  unfold is_letter, cmatch, in_ranges, cs_letter. cbn [cneg cranges existsb fst snd]. rewrite xorb_false_l, orb_false_r.
  intros H. apply orb_true_iff in H. destruct H as [H|H]; apply andb_true_iff in H; destruct H as (H1 & H2);
    apply N.leb_le in H1, H2; [left|right]; lia.
Qed.
Lemma is_digit_in c : is_digit c = true -> In c digits.
Proof. intros H. apply is_digit_range in H. apply (range_in 48 10); cbn; lia. Qed.
Lemma is_letter_in c : is_letter c = true -> In c letters.
Proof.
  intros H. apply is_letter_range in H. unfold letters. rewrite map_app. apply in_or_app.
  destruct H as [H|H]; [left; apply (range_in 65 26)|right; apply (range_in 97 26)]; cbn; lia.
Qed.

Definition nonempty {A} (l:list A) : bool := match l with [] => false | _ :: _ => true end.
Lemma nonempty_ne {A} (l:list A) : nonempty l = true -> l <> [].
Proof. destruct l; [discriminate|intros _; discriminate]. Qed.

Fixpoint leqb (a b:list N) : bool :=
  match a, b with
  | [], [] => true
  | c :: a', d :: b' => (N.eqb c d && leqb a' b')%bool
  | _, _ => false
  end.
Lemma leqb_eq a : forall b, leqb a b = true <-> a = b.
Proof.
  induction a as [|c a IH]; intros [|d b]; cbn [leqb]; split; try discriminate; try reflexivity.
  - intros H. apply andb_true_iff in H. destruct H as (H1 & H2). apply N.eqb_eq in H1. apply IH in H2. congruence.
  - intros [= -> ->]. rewrite N.eqb_refl. apply IH. reflexivity.
Qed.

(* e derives the whole of u *)
Definition W (e:ebnf cset) (u:list N) : Prop := LM u e 0 (length u).

Lemma W_embed e u a b : W e u -> LM (a ++ u ++ b) e (length a) (length a + length u).
Proof.
  intros H. unfold W in H. rewrite <- (Nat.sub_0_r (length u)) at 1. apply M_local with (w := u); [exact H|].
  intros k Hk. rewrite Nat.sub_0_r in Hk. rewrite nth_error_app2 by lia. rewrite nth_error_app1 by lia. f_equal. lia.
Qed.

Lemma W_seq a b u1 u2 : W a u1 -> W b u2 -> W (Seq a b) (u1 ++ u2).
Proof.
  intros H1 H2. unfold W. rewrite app_length. apply MSeq with (k := length u1).
  - exact (W_embed a u1 [] u2 H1).
  - pose proof (W_embed b u2 u1 [] H2) as X. rewrite app_nil_r in X. exact X.
Qed.
Lemma W_tok t c : cmatch t c = true -> W (Tok t) [c].
Proof. intros H. unfold W. cbn [length]. apply MTok with (x := c); [reflexivity|exact H]. Qed.
Lemma W_star t v : forallb (cmatch t) v = true -> W (Star (Tok t)) v.
Proof.
  intros H. unfold W. apply (star_run v t (length v) 0); [|lia].
  intros m x _ Hx. rewrite forallb_forall in H. apply H. apply nth_error_In with (n := m). exact Hx.
Qed.
Lemma W_ref r u : W (lex_g r) u -> W (Ref r) u.
Proof. intros H. apply MRef. exact H. Qed.
Lemma W_altL a b u : W a u -> W (Alt a b) u.
Proof. intros H. apply MAltL. exact H. Qed.
Lemma W_altR a b u : W b u -> W (Alt a b) u.
Proof. intros H. apply MAltR. exact H. Qed.
Lemma W_eps : W Eps [].
Proof. apply MEps. Qed.

Lemma nth_error_skipn {A} : forall i n (u:list A), nth_error (skipn i u) n = nth_error u (i + n).
Proof. induction i as [|i IH]; intros n [|x u]; cbn [skipn Nat.add nth_error]; try reflexivity; [destruct n; reflexivity|apply IH]. Qed.

(* from facts about positions to facts about lists *)
Lemma all_nth {A} (P:A -> bool) (u:list A) i :
  (forall k, i <= k < length u -> exists x, nth_error u k = Some x /\ P x = true) -> forallb P (skipn i u) = true.
Proof.
  intros H. apply forallb_forall. intros x Hx. apply In_nth_error in Hx. destruct Hx as (n & Hn).
  rewrite nth_error_skipn in Hn.
  assert (Hlt : i + n < length u) by (apply nth_error_Some; congruence).
  destruct (H (i + n) ltac:(lia)) as (y & Hy & Py). congruence.
Qed.

(* DIGIT+ (fragment rule 8) *)
Lemma M_dig_inv w i j : LM w (Ref 8) i j ->
  i < j /\ forall k, i <= k < j -> exists x, nth_error w k = Some x /\ is_digit x = true.
Proof.
  intros H. inversion H as [|r i0 j0 HM| | | | | |]; subst; clear H. unfold lex_g in HM.
  inversion HM as [| | |a b i0 k j0 H1 H2| | | |]; subst; clear HM.
  apply M_tok_inv in H1. destruct H1 as (-> & x & Hx & Hm).
  apply M_star_tok_inv in H2. destruct H2 as (Hle & Hall). split; [lia|].
  intros m Hm'. destruct (Nat.eq_dec m i) as [->|Hne]; [exists x; split; assumption|]. apply Hall. lia.
Qed.

Definition dig_ne (d:list N) : bool := (nonempty d && forallb is_digit d)%bool.

Lemma W_dig d : dig_ne d = true -> W (Ref 8) d.
Proof.
  unfold dig_ne. intros H. apply andb_true_iff in H. destruct H as (H1 & H2). destruct d as [|c d]; [discriminate H1|].
  cbn [forallb] in H2. apply andb_true_iff in H2. destruct H2 as (Hc & Hd).
  apply W_ref. unfold lex_g. apply (W_seq _ _ [c] d); [apply W_tok; exact Hc|apply W_star; exact Hd].
Qed.

Lemma W_dig_inv u : W (Ref 8) u -> dig_ne u = true.
Proof.
  intros H. apply M_dig_inv in H. destruct H as (Hlt & Hall). unfold dig_ne. apply andb_true_iff. split.
  - destruct u; [cbn in Hlt; lia|reflexivity].
  - apply (all_nth is_digit u 0). intros k Hk. apply Hall. lia.
Qed.

(* ---- 2e: the token kinds with a variable text ---- *)
Definition first_ok (u:list N) : bool :=
  match u with
  | c :: _ => (negb (N.eqb c 32) && negb (N.eqb c 9) && negb (N.eqb c 35) && negb (N.eqb c 34))%bool
  | [] => false
  end.
Lemma first_ok_spec u : first_ok u = true ->
  exists c, nth_error u 0 = Some c /\ c <> 32%N /\ c <> 9%N /\ c <> 35%N /\ c <> 34%N.
Proof.
  destruct u as [|c u]; [discriminate|]. cbn [first_ok]. intros H. exists c. split; [reflexivity|].
  repeat (apply andb_true_iff in H; destruct H as (H & ?)).
  repeat match goal with X : negb _ = true |- _ => apply negb_true_iff in X; apply N.eqb_neq in X end. auto.
Qed.

Lemma plain_alone t p r : nth_error lex_rules p = Some r -> rtype r = tkind t -> rskip r = false ->
  first_ok (ttext t) = true -> whole_step (ttext t) p -> alone t.
Proof.
  intros Hp Ht Hs Hf Hw. exists p. split; [exists r; auto|].
  destruct (first_ok_spec _ Hf) as (c & Hc & N32 & N9 & N35 & N34).
  split; [intros E; rewrite E in Hc; discriminate Hc|].
  apply (whole_alone (ttext t) p c Hc N32 N9 N35); [|exact Hw]. intros E. contradiction.
Qed.

Lemma dig_ne_first u : dig_ne u = true -> exists c, nth_error u 0 = Some c /\ is_digit c = true.
Proof.
  unfold dig_ne. destruct u as [|c u]; [discriminate|]. cbn [nonempty forallb andb]. intros H.
  apply andb_true_iff in H. exists c. split; [reflexivity|exact (proj1 H)].
Qed.

(* INT : DIGIT+ *)
Lemma int_whole u : dig_ne u = true -> whole_step u 8.
Proof.
  intros H. destruct (dig_ne_first u H) as (c & Hc & Dc).
  apply (whole_step_intro u 8 (12, 9, false)); [reflexivity|intros E; rewrite E in Hc; discriminate Hc| |].
  - cbn [rid fst]. apply W_ref. unfold lex_g. exact (W_dig u H).
  - apply (earlier_excl u 8 (fun r => rule_nofirst_all digits r)); [vm_compute; reflexivity|].
    intros r' _ Hchk. exact (rule_nofirst_all_excl u digits c r' Hc (is_digit_in c Dc) Hchk).
Qed.

(* REGREF : 'q' DIGIT+ *)
Definition regref_shape (u:list N) : bool :=
  match u with c :: d => (N.eqb c 113 && dig_ne d)%bool | [] => false end.

Lemma regref_W u : regref_shape u = true -> W (Ref 59) u.
Proof.
  destruct u as [|c d]; [discriminate|]. cbn [regref_shape]. intros H. apply andb_true_iff in H. destruct H as (H1 & H2).
  apply N.eqb_eq in H1. subst c. apply W_ref. unfold lex_g. apply (W_seq _ _ [113%N] d); [apply W_tok; reflexivity|].
  exact (W_dig d H2).
Qed.

Lemma regref_W_inv u : W (Ref 59) u -> regref_shape u = true.
Proof.
  intros H. unfold W in H. inversion H as [|r i0 j0 HM| | | | | |]; subst; clear H. unfold lex_g in HM.
  inversion HM as [| | |a b i0 k j0 H1 H2| | | |]; subst; clear HM.
  apply M_tok_inv in H1. destruct H1 as (-> & x & Hx & Hm). apply cmatch_single in Hm. subst x.
  apply M_dig_inv in H2. destruct H2 as (Hlt & Hall).
  destruct u as [|c d]; [discriminate Hx|]. cbn [nth_error] in Hx. injection Hx as ->.
  cbn [regref_shape]. rewrite N.eqb_refl. cbn [andb]. unfold dig_ne. apply andb_true_iff. split.
  - destruct d; [cbn in Hlt; lia|reflexivity].
  - apply (all_nth is_digit (113%N :: d) 1). intros k Hk. apply Hall. lia.
Qed.

Lemma regref_whole u : regref_shape u = true -> whole_step u 55.
Proof.
  intros H. assert (Hc : nth_error u 0 = Some 113%N).
  { destruct u as [|c d]; [discriminate H|]. cbn [regref_shape] in H. apply andb_true_iff in H. destruct H as (H & _).
    apply N.eqb_eq in H. subst c. reflexivity. }
  apply (whole_step_intro u 55 (59, 56, false)); [reflexivity|intros E; rewrite E in Hc; discriminate Hc| |].
  - cbn [rid fst]. exact (regref_W u H).
  - apply (earlier_excl u 55 (fun r => rule_nofirst 113%N r)); [vm_compute; reflexivity|].
    intros r' _ Hchk. exact (rule_nofirst_excl u 113%N r' Hc Hchk).
Qed.

(* STR : a quote, any characters but quote, LF, CR, a quote *)
Definition str_shape (u:list N) : bool :=
  match u with
  | q :: r => (N.eqb q 34 && match rev r with
                             | q' :: m => (N.eqb q' 34 && forallb (cmatch cs_str) m)%bool
                             | [] => false
                             end)%bool
  | [] => false
  end.

Lemma str_shape_spec u : str_shape u = true ->
  exists m, u = 34%N :: m ++ [34%N] /\ forallb (cmatch cs_str) m = true.
Proof.
  destruct u as [|q r]; [discriminate|]. cbn [str_shape]. intros H. apply andb_true_iff in H. destruct H as (H1 & H2).
  apply N.eqb_eq in H1. subst q. destruct (rev r) as [|q' m] eqn:E; [discriminate H2|].
  apply andb_true_iff in H2. destruct H2 as (H2 & H3). apply N.eqb_eq in H2. subst q'.
  exists (rev m). split.
  - f_equal. rewrite <- (rev_involutive r), E. reflexivity.
  - apply forallb_forall. intros x Hx. rewrite forallb_forall in H3. apply H3. apply in_rev. exact Hx.
Qed.

Lemma str_whole u : str_shape u = true -> whole_step u 11.
Proof.
  intros H. destruct (str_shape_spec u H) as (m & -> & Hm).
  apply (whole_step_intro _ 11 (15, 12, false)); [reflexivity|discriminate| |].
  - cbn [rid fst]. apply W_ref. unfold lex_g.
    apply (W_seq _ _ [34%N] (m ++ [34%N])); [apply W_tok; reflexivity|].
    apply (W_seq _ _ m [34%N]); [apply W_star; exact Hm|apply W_tok; reflexivity].
  - apply (earlier_excl _ 11 (fun r => rule_nofirst 34%N r)); [vm_compute; reflexivity|].
    intros r' _ Hchk. exact (rule_nofirst_excl (34%N :: m ++ [34%N]) 34%N r' eq_refl Hchk).
Qed.

Lemma str_alone t : tkind t = 12 -> str_shape (ttext t) = true -> alone t.
Proof.
  intros Hk H. exists 11. split; [exists (15, 12, false); repeat split; symmetry; exact Hk|].
  pose proof (str_whole _ H) as Hw. destruct (str_shape_spec _ H) as (m & E & Hm).
  split; [rewrite E; discriminate|].
  apply (whole_alone (ttext t) 11 34%N); try discriminate; [rewrite E; reflexivity| |exact Hw].
  intros _. rewrite E. cbn [length]. rewrite app_length. cbn [length]. split; [lia|].
  replace (S (length m + 1) - 1) with (S (length m)) by lia. cbn [nth_error].
  rewrite nth_error_app2 by lia. rewrite Nat.sub_diag. reflexivity.
Qed.

(* MEASURE : 'Measure' [A-Za-z]* *)
Definition measure_text : list N := [77; 101; 97; 115; 117; 114; 101]%N.
Definition measure_shape (u:list N) : bool := (is_prefix measure_text u && forallb is_letter (skipn 7 u))%bool.

Lemma is_prefix_spec p : forall s, is_prefix p s = true -> s = p ++ skipn (length p) s.
Proof.
  induction p as [|c p IH]; intros s H; [reflexivity|]. destruct s as [|d s]; [discriminate H|].
  cbn [is_prefix] in H. apply andb_true_iff in H. destruct H as (H1 & H2). apply N.eqb_eq in H1. subst d.
  cbn [length skipn app]. f_equal. apply IH. exact H2.
Qed.
Lemma is_prefix_app p x : is_prefix p (p ++ x) = true.
Proof. induction p as [|c p IH]; [reflexivity|]. cbn [app is_prefix]. rewrite N.eqb_refl. exact IH. Qed.

Definition measure_lit : ebnf cset :=
  Seq (Tok (mkcs false [(77,77)%N])) (Seq (Tok (mkcs false [(101,101)%N])) (Seq (Tok (mkcs false [(97,97)%N]))
  (Seq (Tok (mkcs false [(115,115)%N])) (Seq (Tok (mkcs false [(117,117)%N])) (Seq (Tok (mkcs false [(114,114)%N]))
  (Tok (mkcs false [(101,101)%N]))))))).

Lemma measure_lit_W : W measure_lit measure_text.
Proof.
  unfold W, measure_lit, measure_text. cbn [length].
  repeat (eapply MSeq; [eapply MTok; reflexivity|]). eapply MTok; reflexivity.
Qed.

Lemma measure_W u : measure_shape u = true -> W (Ref 60) u.
Proof.
  unfold measure_shape. intros H. apply andb_true_iff in H. destruct H as (H1 & H2).
  apply is_prefix_spec in H1. cbn [measure_text length] in H1. rewrite H1. fold measure_text.
  apply W_ref. unfold lex_g. apply (W_seq _ _ measure_text (skipn 7 u)); [exact measure_lit_W|].
  apply W_star. exact H2.
Qed.

Lemma measure_W_inv u : W (Ref 60) u -> measure_shape u = true.
Proof.
  intros H. unfold W in H. inversion H as [|r i0 j0 HM| | | | | |]; subst; clear H. unfold lex_g in HM.
  inversion HM as [| | |a b i0 k j0 H1 H2| | | |]; subst; clear HM.
  pose proof (M_le _ _ _ _ _ _ _ _ H2) as Hk.
  assert (HL : words_of afuel measure_lit = Some [measure_text]) by (vm_compute; reflexivity).
  pose proof (words_of_sound u _ 0 k H1 afuel _ HL) as Hin. destruct Hin as [Hin|[]].
  unfold seg in Hin. rewrite Nat.sub_0_r in Hin. cbn [skipn] in Hin.
  assert (k = 7).
  { apply (f_equal (@length N)) in Hin. rewrite firstn_length_le in Hin by exact Hk. cbn in Hin. congruence. }
  subst k. apply M_star_tok_inv in H2. destruct H2 as (_ & Hall).
  unfold measure_shape. apply andb_true_iff. split.
  - rewrite <- (firstn_skipn 7 u), <- Hin. apply is_prefix_app.
  - apply (all_nth is_letter u 7). exact Hall.
Qed.

Lemma measure_whole u : measure_shape u = true -> whole_step u 56.
Proof.
  intros H. assert (Hc : nth_error u 0 = Some 77%N).
  { unfold measure_shape in H. apply andb_true_iff in H. destruct H as (H & _). apply is_prefix_spec in H.
    rewrite H. reflexivity. }
  apply (whole_step_intro u 56 (60, 57, false)); [reflexivity|intros E; rewrite E in Hc; discriminate Hc| |].
  - cbn [rid fst]. exact (measure_W u H).
  - apply (earlier_excl u 56 (fun r => rule_nofirst 77%N r)); [vm_compute; reflexivity|].
    intros r' _ Hchk. exact (rule_nofirst_excl u 77%N r' Hc Hchk).
Qed.

(* NAME : [A-Za-z] [0-9A-Za-z_]*, when no earlier rule matches the same text *)
Definition name_shape (u:list N) : bool :=
  match u with c :: v => (is_letter c && forallb is_namechar v)%bool | [] => false end.
(* the words of the rules before NAME whose language is finite: operators, keywords, True, False, pi, ... *)
Definition reserved_words : list (list N) :=
  flat_map (fun r => match words_of afuel (Ref (rid r)) with Some L => L | None => [] end) (firstn 57 lex_rules).
Definition mem_word (u:list N) (L:list (list N)) : bool := existsb (leqb u) L.
Definition name_ok (u:list N) : bool :=
  (name_shape u && negb (mem_word u reserved_words) && negb (regref_shape u) && negb (measure_shape u))%bool.

Lemma mem_word_in u L : In u L -> mem_word u L = true.
Proof. intros H. apply existsb_exists. exists u. split; [exact H|]. apply leqb_eq. reflexivity. Qed.

Lemma name_whole u : name_ok u = true -> whole_step u 57.
Proof.
  unfold name_ok. intros H. repeat (apply andb_true_iff in H; destruct H as (H & ?)).
  repeat match goal with X : negb _ = true |- _ => apply negb_true_iff in X end.
  destruct u as [|c v]; [discriminate H|]. cbn [name_shape] in H. apply andb_true_iff in H. destruct H as (Hc & Hv).
  apply (whole_step_intro _ 57 (61, 58, false)); [reflexivity|discriminate| |].
  - cbn [rid fst]. apply W_ref. unfold lex_g. apply (W_seq _ _ [c] v); [apply W_tok; exact Hc|apply W_star; exact Hv].
  - apply (earlier_excl _ 57 (fun r => (rule_nofirst_all letters r
                                  || match words_of afuel (Ref (rid r)) with Some _ => true | None => false end
                                  || Nat.eqb (rid r) 59 || Nat.eqb (rid r) 60)%bool)); [vm_compute; reflexivity|].
    intros r' Hin Hchk HM. repeat (apply orb_true_iff in Hchk; destruct Hchk as [Hchk|Hchk]).
    + exact (rule_nofirst_all_excl (c :: v) letters c r' eq_refl (is_letter_in c Hc) Hchk HM).
    + destruct (words_of afuel (Ref (rid r'))) as [L|] eqn:EL; [|discriminate Hchk].
      pose proof (words_of_sound _ _ _ _ HM afuel L EL) as HinL. rewrite seg_whole in HinL.
      assert (Hres : In (c :: v) reserved_words).
      { unfold reserved_words. apply in_flat_map. exists r'. split; [exact Hin|]. rewrite EL. exact HinL. }
      apply mem_word_in in Hres. congruence.
    + apply Nat.eqb_eq in Hchk. rewrite Hchk in HM. apply regref_W_inv in HM. congruence.
    + apply Nat.eqb_eq in Hchk. rewrite Hchk in HM. apply measure_W_inv in HM. congruence.
Qed.

(* REAL (fragment rule 9) : DIGIT+ ('.' DIGIT+)? ([eE] [+-]? DIGIT+)? *)
Fixpoint span_dig (u:list N) : list N * list N :=
  match u with
  | c :: u' => if is_digit c then (c :: fst (span_dig u'), snd (span_dig u')) else ([], u)
  | [] => ([], [])
  end.
Lemma span_dig_app u : fst (span_dig u) ++ snd (span_dig u) = u.
Proof.
  induction u as [|c u IH]; [reflexivity|]. cbn [span_dig]. destruct (is_digit c); cbn [fst snd app]; [|reflexivity].
  f_equal. exact IH.
Qed.
Lemma span_dig_digits u : forallb is_digit (fst (span_dig u)) = true.
Proof.
  induction u as [|c u IH]; [reflexivity|]. cbn [span_dig]. destruct (is_digit c) eqn:E; cbn [fst forallb]; [|reflexivity].
  rewrite E, IH. reflexivity.
Qed.

Definition exp_shape (x:list N) : bool :=
  match x with
  | [] => true
  | e :: x' => ((N.eqb e 101 || N.eqb e 69) &&
               match x' with
               | s :: d => if (N.eqb s 43 || N.eqb s 45)%bool then dig_ne d else dig_ne x'
               | [] => false
               end)%bool
  end.
Definition frac_exp_shape (r:list N) : bool :=
  match r with
  | c :: r' => if N.eqb c 46 then (nonempty (fst (span_dig r')) && exp_shape (snd (span_dig r')))%bool else exp_shape r
  | [] => true
  end.
Definition real_shape (u:list N) : bool := (nonempty (fst (span_dig u)) && frac_exp_shape (snd (span_dig u)))%bool.

Definition g_sign : ebnf cset := Alt Eps (Alt (Tok (mkcs false [(43,43)%N])) (Tok (mkcs false [(45,45)%N]))).
Definition g_exp : ebnf cset :=
  Alt Eps (Seq (Alt (Tok (mkcs false [(101,101)%N])) (Tok (mkcs false [(69,69)%N]))) (Seq g_sign (Ref 8))).
Definition g_frac : ebnf cset := Alt Eps (Seq (Tok (mkcs false [(46,46)%N])) (Ref 8)).

Lemma W_exp x : exp_shape x = true -> W g_exp x.
Proof.
  destruct x as [|e x']; intros H; [apply W_altL, W_eps|]. cbn [exp_shape] in H.
  apply andb_true_iff in H. destruct H as (He & H). apply W_altR. apply (W_seq _ _ [e] x').
  { apply orb_true_iff in He. destruct He as [He|He]; apply N.eqb_eq in He; subst e;
      [apply W_altL|apply W_altR]; apply W_tok; reflexivity. }
  destruct x' as [|s d]; [discriminate H|].
  destruct (N.eqb s 43 || N.eqb s 45)%bool eqn:Es.
  - apply (W_seq _ _ [s] d); [|exact (W_dig d H)]. apply W_altR.
    apply orb_true_iff in Es. destruct Es as [Es|Es]; apply N.eqb_eq in Es; subst s;
      [apply W_altL|apply W_altR]; apply W_tok; reflexivity.
  - apply (W_seq _ _ [] (s :: d)); [apply W_altL, W_eps|exact (W_dig _ H)].
Qed.

Lemma W_frac_exp r : frac_exp_shape r = true -> W (Seq g_frac g_exp) r.
Proof.
  destruct r as [|c r']; intros H.
  - apply (W_seq _ _ [] []); [apply W_altL, W_eps|apply W_altL, W_eps].
  - cbn [frac_exp_shape] in H. destruct (N.eqb_spec c 46) as [->|Hne].
    + apply andb_true_iff in H. destruct H as (H1 & H2).
      rewrite <- (span_dig_app r'). apply (W_seq _ _ (46%N :: fst (span_dig r')) (snd (span_dig r'))); [|exact (W_exp _ H2)].
      apply W_altR. apply (W_seq _ _ [46%N] (fst (span_dig r'))); [apply W_tok; reflexivity|].
      apply W_dig. unfold dig_ne. rewrite H1, span_dig_digits. reflexivity.
    + apply (W_seq _ _ [] (c :: r')); [apply W_altL, W_eps|exact (W_exp _ H)].
Qed.

Lemma W_real u : real_shape u = true -> W (Ref 9) u.
Proof.
  unfold real_shape. intros H. apply andb_true_iff in H. destruct H as (H1 & H2).
  rewrite <- (span_dig_app u). apply W_ref. unfold lex_g.
  apply (W_seq _ _ (fst (span_dig u)) (snd (span_dig u))); [|exact (W_frac_exp _ H2)].
  apply W_dig. unfold dig_ne. rewrite H1, span_dig_digits. reflexivity.
Qed.

Lemma real_shape_first u : real_shape u = true -> exists c, nth_error u 0 = Some c /\ is_digit c = true.
Proof.
  unfold real_shape. intros H. apply andb_true_iff in H. destruct H as (H1 & _).
  pose proof (span_dig_digits u) as D. rewrite <- (span_dig_app u).
  destruct (fst (span_dig u)) as [|c d]; [discriminate H1|]. cbn [forallb] in D. apply andb_true_iff in D.
  exists c. split; [reflexivity|exact (proj1 D)].
Qed.

(* FLOAT : a REAL that is not an INT *)
Definition float_ok (u:list N) : bool := (real_shape u && negb (forallb is_digit u))%bool.

Lemma float_whole u : float_ok u = true -> whole_step u 9.
Proof.
  unfold float_ok. intros H. apply andb_true_iff in H. destruct H as (H1 & H2). apply negb_true_iff in H2.
  destruct (real_shape_first u H1) as (c & Hc & Dc).
  apply (whole_step_intro u 9 (13, 10, false)); [reflexivity|intros E; rewrite E in Hc; discriminate Hc| |].
  - cbn [rid fst]. apply W_ref. unfold lex_g. exact (W_real u H1).
  - apply (earlier_excl u 9 (fun r => (rule_nofirst_all digits r || Nat.eqb (rid r) 12)%bool)); [vm_compute; reflexivity|].
    intros r' _ Hchk HM. apply orb_true_iff in Hchk. destruct Hchk as [Hchk|Hchk].
    + exact (rule_nofirst_all_excl u digits c r' Hc (is_digit_in c Dc) Hchk HM).
    + apply Nat.eqb_eq in Hchk. rewrite Hchk in HM.
      inversion HM as [|r i0 j0 HM'| | | | | |]; subst; clear HM. unfold lex_g in HM'.
      apply W_dig_inv in HM'. unfold dig_ne in HM'. apply andb_true_iff in HM'. destruct HM' as (_ & HM'). congruence.
Qed.

(* COMPLEX : a number followed by j or J (the optional sign and real part of the rule are not printed) *)
Definition complex_shape (u:list N) : bool :=
  match rev u with
  | c :: rn => ((N.eqb c 106 || N.eqb c 74) && real_shape (rev rn))%bool
  | [] => false
  end.

Lemma complex_shape_spec u : complex_shape u = true ->
  exists n c, u = n ++ [c] /\ (c = 106%N \/ c = 74%N) /\ real_shape n = true.
Proof.
  unfold complex_shape. destruct (rev u) as [|c rn] eqn:E; [discriminate|]. intros H.
  apply andb_true_iff in H. destruct H as (H1 & H2). exists (rev rn), c. split; [|split].
  - rewrite <- (rev_involutive u), E. reflexivity.
  - apply orb_true_iff in H1. destruct H1 as [H1|H1]; apply N.eqb_eq in H1; auto.
  - exact H2.
Qed.

Lemma complex_whole u : complex_shape u = true -> whole_step u 10.
Proof.
  intros H. destruct (complex_shape_spec u H) as (n & c & -> & Hj & Hn).
  destruct (real_shape_first n Hn) as (c0 & Hc0 & Dc0).
  assert (Hc : nth_error (n ++ [c]) 0 = Some c0).
  { rewrite nth_error_app1; [exact Hc0|]. destruct n; [discriminate Hc0|cbn; lia]. }
  apply (whole_step_intro _ 10 (14, 11, false)); [reflexivity|intros E; rewrite E in Hc; discriminate Hc| |].
  - cbn [rid fst]. apply W_ref. unfold lex_g.
    apply (W_seq _ _ [] (n ++ [c])); [apply W_altL, W_eps|].
    apply (W_seq _ _ [] (n ++ [c])); [apply W_altL, W_eps|].
    apply W_ref. unfold lex_g. apply (W_seq _ _ n [c]).
    + apply W_ref. unfold lex_g. apply W_altL. exact (W_real n Hn).
    + apply W_tok. destruct Hj as [-> | ->]; reflexivity.
  - apply (earlier_excl _ 10 (fun r => (rule_nofirst_all digits r
                                  || forallb (fun c => avoids lex_g afuel c (Ref (rid r))) [106; 74]%N)%bool));
      [vm_compute; reflexivity|].
    intros r' _ Hchk HM. apply orb_true_iff in Hchk. destruct Hchk as [Hchk|Hchk].
    + exact (rule_nofirst_all_excl _ digits c0 r' Hc (is_digit_in c0 Dc0) Hchk HM).
    + rewrite forallb_forall in Hchk.
      assert (Hav : avoids lex_g afuel c (Ref (rid r')) = true).
      { apply Hchk. destruct Hj as [-> | ->]; cbn [In]; auto. }
      apply (avoids_sound lex_g afuel c _ Hav _ _ _ HM (length n) c); [rewrite app_length; cbn [length]; lia| |reflexivity].
      rewrite nth_error_app2 by lia. rewrite Nat.sub_diag. reflexivity.
Qed.

(* ---- 2f: the token kinds with a fixed text, by running the lexer on the text alone ---- *)
Definition rule_of_type_ok (k p:nat) : bool :=
  match nth_error lex_rules p with Some r => (Nat.eqb (rtype r) k && negb (rskip r))%bool | None => false end.

(* the text u, lexed alone, is one token of type k (a computation), and does not start with a blank, '#' or a quote *)
Definition iso_ok (k:nat) (u:list N) : bool :=
  (first_ok u && rule_of_type_ok k (position_of_type k) && whole_step_b u (position_of_type k))%bool.

Lemma iso_ok_alone t : iso_ok (tkind t) (ttext t) = true -> alone t.
Proof.
  unfold iso_ok. intros H. apply andb_true_iff in H. destruct H as (H & H3). apply andb_true_iff in H. destruct H as (H1 & H2).
  unfold rule_of_type_ok in H2. destruct (nth_error lex_rules (position_of_type (tkind t))) as [r|] eqn:Er; [|discriminate H2].
  apply andb_true_iff in H2. destruct H2 as (Hk & Hs). apply Nat.eqb_eq in Hk. apply negb_true_iff in Hs.
  exact (plain_alone t _ r Er Hk Hs H1 (whole_step_b_sound _ _ H3)).
Qed.

Fixpoint codes (s:String.string) : list N :=
  match s with String.EmptyString => [] | String.String a s' => Ascii.N_of_ascii a :: codes s' end.

(* the literal tokens of the grammar (G4Data.token_literals) and the two spellings of BOOL, as far as they lex alone *)
Definition fixed_candidates : list (nat * list N) :=
  map (fun kt => (fst kt, codes (snd kt))) token_literals ++ [(13, true_text); (13, false_text)].
Definition fixed_ok (k:nat) (u:list N) : bool :=
  (existsb (fun kt => (Nat.eqb (fst kt) k && leqb (snd kt) u)%bool) fixed_candidates && iso_ok k u)%bool.

Lemma fixed_ok_iso k u : fixed_ok k u = true -> iso_ok k u = true.
Proof. unfold fixed_ok. intros H. apply andb_true_iff in H. exact (proj2 H). Qed.

(* every literal of the grammar passes, except the lone quote character (never printed) *)
Example fixed_all_ok :
  filter (fun kt => negb (fixed_ok (fst kt) (snd kt))) fixed_candidates = [(42, [34%N])].
Proof. vm_compute. reflexivity. Qed.

(* ---- 2g: the boolean condition on tokens ---- *)
Definition lex_ok_tok (t:token) : bool :=
  let k := tkind t in let u := ttext t in
  if Nat.eqb k 16 then (leqb u [10%N] || leqb u [13%N; 10%N])%bool
  else if Nat.eqb k 17 then (leqb u [32%N; 32%N; 32%N; 32%N] || leqb u [9%N])%bool
  else if Nat.eqb k 9 then dig_ne u
  else if Nat.eqb k 10 then float_ok u
  else if Nat.eqb k 11 then complex_shape u
  else if Nat.eqb k 12 then str_shape u
  else if Nat.eqb k 56 then regref_shape u
  else if Nat.eqb k 57 then measure_shape u
  else if Nat.eqb k 58 then name_ok u
  else fixed_ok k u.

Definition good_first (c:N) : Prop := c <> 32%N /\ c <> 9%N /\ c <> 35%N /\ c <> 34%N.
Lemma digit_good c : is_digit c = true -> good_first c.
Proof. intros H. apply is_digit_range in H. unfold good_first. lia. Qed.
Lemma letter_good c : is_letter c = true -> good_first c.
Proof. intros H. apply is_letter_range in H. unfold good_first. lia. Qed.

Lemma shaped_alone t p r c : nth_error lex_rules p = Some r -> rtype r = tkind t -> rskip r = false ->
  nth_error (ttext t) 0 = Some c -> good_first c -> whole_step (ttext t) p -> alone t.
Proof.
  intros Hp Ht Hs Hc (N32 & N9 & N35 & N34) Hw. exists p. split; [exists r; auto|].
  split; [intros E; rewrite E in Hc; discriminate Hc|].
  apply (whole_alone (ttext t) p c Hc N32 N9 N35); [|exact Hw]. intros E. contradiction.
Qed.

(* the first character of an accepted token text *)
Definition text_start (t:token) : Prop := exists c, nth_error (ttext t) 0 = Some c /\ nonblank c.
Lemma good_nonblank c : good_first c -> nonblank c.
Proof. intros (A & B & _). split; assumption. Qed.

Lemma name_ok_first u : name_ok u = true -> exists c, nth_error u 0 = Some c /\ is_letter c = true.
Proof.
  unfold name_ok. intros H. repeat (apply andb_true_iff in H; destruct H as (H & _)).
  destruct u as [|c v]; [discriminate H|]. cbn [name_shape] in H. apply andb_true_iff in H. exists c. split; [reflexivity|exact (proj1 H)].
Qed.

(* every accepted token is fine on its own (STAGE 1), and its text starts with a non-blank unless it is a TAB *)
Theorem lex_ok_tok_sound t : lex_ok_tok t = true -> tok_ok t /\ (Nat.eqb (tkind t) 17 = false -> text_start t).
Proof.
  unfold lex_ok_tok, tok_ok. intros H.
  destruct (Nat.eqb_spec (tkind t) 16) as [E16|_].
  { split.
    - exists p_NEWLINE. split; [exists (19, 16, false); repeat split; symmetry; exact E16|].
      apply orb_true_iff in H. destruct H as [H|H]; apply leqb_eq in H; rewrite H; (split; [discriminate|]); intros rest.
      + apply newline_step_LF. reflexivity.
      + apply newline_step_CRLF; reflexivity.
    - intros _. apply orb_true_iff in H. destruct H as [H|H]; apply leqb_eq in H; unfold text_start; rewrite H;
        eexists; (split; [reflexivity|split; discriminate]). }
  destruct (Nat.eqb_spec (tkind t) 17) as [E17|_].
  { split; [|discriminate].
    exists p_TAB. split; [exists (20, 17, false); repeat split; symmetry; exact E17|].
    apply orb_true_iff in H. destruct H as [H|H]; apply leqb_eq in H; rewrite H; (split; [discriminate|]); intros rest Hnb.
    + apply (tab_step_four_spaces ([32; 32; 32; 32]%N ++ rest) 0).
      * intros k Hk. assert (Hc : k = 0 \/ k = 1 \/ k = 2 \/ k = 3) by lia.
        destruct Hc as [->|[->|[->| ->]]]; reflexivity.
      * exact (starts_nonblank_end [] rest [32; 32; 32; 32]%N Hnb).
    + apply (tab_step_tab ([9%N] ++ rest) 0); [reflexivity|]. exact (starts_nonblank_end [] rest [9%N] Hnb). }
  assert (Hgen : forall p r c, nth_error lex_rules p = Some r -> rtype r = tkind t -> rskip r = false ->
            nth_error (ttext t) 0 = Some c -> good_first c -> whole_step (ttext t) p ->
            alone t /\ (true = false \/ text_start t)).
  { intros p r c Hp Ht Hs Hc Hg Hw. split; [exact (shaped_alone t p r c Hp Ht Hs Hc Hg Hw)|].
    right. exists c. split; [exact Hc|exact (good_nonblank c Hg)]. }
  assert (Hfin : forall A B : Prop, A /\ (true = false \/ B) -> A /\ (false = false -> B)).
  { intros A B (HA & [HB|HB]); [discriminate HB|]. split; auto. }
  destruct (Nat.eqb_spec (tkind t) 9) as [E|_].
  { apply Hfin. destruct (dig_ne_first _ H) as (c & Hc & Dc).
    apply (Hgen 8 (12, 9, false) c); auto using digit_good, int_whole. }
  destruct (Nat.eqb_spec (tkind t) 10) as [E|_].
  { apply Hfin. assert (H' := H). unfold float_ok in H'. apply andb_true_iff in H'. destruct H' as (H1 & _).
    destruct (real_shape_first _ H1) as (c & Hc & Dc).
    apply (Hgen 9 (13, 10, false) c); auto using digit_good, float_whole. }
  destruct (Nat.eqb_spec (tkind t) 11) as [E|_].
  { apply Hfin. destruct (complex_shape_spec _ H) as (n & cj & En & _ & Hn).
    destruct (real_shape_first n Hn) as (c & Hc & Dc).
    apply (Hgen 10 (14, 11, false) c); auto using digit_good, complex_whole.
    rewrite En. rewrite nth_error_app1; [exact Hc|]. destruct n; [discriminate Hc|cbn; lia]. }
  destruct (Nat.eqb_spec (tkind t) 12) as [E|_].
  { split; [exact (str_alone t E H)|]. intros _. destruct (str_shape_spec _ H) as (m & Em & _).
    exists 34%N. rewrite Em. split; [reflexivity|split; discriminate]. }
  destruct (Nat.eqb_spec (tkind t) 56) as [E|_].
  { apply Hfin. apply (Hgen 55 (59, 56, false) 113%N); auto using regref_whole.
    - destruct (ttext t) as [|c d]; [discriminate H|]. cbn [regref_shape] in H. apply andb_true_iff in H.
      destruct H as (H & _). apply N.eqb_eq in H. subst c. reflexivity.
    - apply letter_good. reflexivity. }
  destruct (Nat.eqb_spec (tkind t) 57) as [E|_].
  { apply Hfin. apply (Hgen 56 (60, 57, false) 77%N); auto using measure_whole.
    - unfold measure_shape in H. apply andb_true_iff in H. destruct H as (H & _). apply is_prefix_spec in H.
      rewrite H. reflexivity.
    - apply letter_good. reflexivity. }
  destruct (Nat.eqb_spec (tkind t) 58) as [E|_].
  { apply Hfin. destruct (name_ok_first _ H) as (c & Hc & Lc).
    apply (Hgen 57 (61, 58, false) c); auto using letter_good, name_whole. }
  apply fixed_ok_iso in H. split; [exact (iso_ok_alone t H)|]. intros _.
  unfold iso_ok in H. apply andb_true_iff in H. destruct H as (H & _). apply andb_true_iff in H. destruct H as (H & _).
  destruct (first_ok_spec _ H) as (c & Hc & N32 & N9 & _). exists c. split; [exact Hc|split; assumption].
Qed.

Corollary lex_ok_tok_alone t : lex_ok_tok t = true -> Nat.eqb (tkind t) 16 = false -> Nat.eqb (tkind t) 17 = false -> alone t.
Proof. intros H E16 E17. destruct (lex_ok_tok_sound t H) as (Hok & _). unfold tok_ok in Hok. rewrite E16, E17 in Hok. exact Hok. Qed.

(* ---- 2h: token lists ---- *)
(* a TAB is the first token or directly follows a NEWLINE *)
Fixpoint tabs_ok (ts:list token) : bool :=
  match ts with
  | t :: ts' => ((match ts' with
                  | t' :: _ => (Nat.eqb (tkind t) 16 || negb (Nat.eqb (tkind t') 17))%bool
                  | [] => true
                  end) && tabs_ok ts')%bool
  | [] => true
  end.

Lemma render_tok_start t : text_start t -> starts_nonblank (render_tok t).
Proof.
  intros (c & Hc & Hnb). unfold render_tok. destruct (ttext t) as [|c' u]; [discriminate Hc|].
  cbn [nth_error] in Hc. injection Hc as ->.
  destruct (Nat.eqb (tkind t) 16 || Nat.eqb (tkind t) 17)%bool; exact Hnb.
Qed.

Lemma starts_nonblank_app u v : u <> [] -> starts_nonblank u -> starts_nonblank (u ++ v).
Proof. destruct u; [congruence|]. intros _ H. exact H. Qed.

Theorem lex_ok_renderable ts : forallb lex_ok_tok ts = true -> tabs_ok ts = true -> renderable ts.
Proof.
  induction ts as [|t ts IH]; intros Hall Htab; [exact I|].
  cbn [forallb] in Hall. apply andb_true_iff in Hall. destruct Hall as (Ht & Hall).
  cbn [tabs_ok] in Htab. apply andb_true_iff in Htab. destruct Htab as (Hnext & Htab).
  destruct (lex_ok_tok_sound t Ht) as (Hok & _).
  cbn [renderable]. split; [exact Hok|]. split; [|exact (IH Hall Htab)].
  intros E16. destruct ts as [|t' ts']; [exact I|].
  rewrite E16 in Hnext. cbn [orb] in Hnext. apply negb_true_iff in Hnext.
  cbn [forallb] in Hall. apply andb_true_iff in Hall. destruct Hall as (Ht' & _).
  destruct (lex_ok_tok_sound t' Ht') as (_ & Hst). specialize (Hst Hnext).
  change (render (t' :: ts')) with (render_tok t' ++ render ts').
  apply starts_nonblank_app; [|exact (render_tok_start t' Hst)].
  destruct Hst as (c & Hc & _). unfold render_tok.
  destruct (ttext t') as [|c' u]; [discriminate Hc|]. destruct (Nat.eqb (tkind t') 16 || Nat.eqb (tkind t') 17)%bool; discriminate.
Qed.

(* the two stages together, on the executable lexer *)
Corollary lex_ok_render_lex ts K F toks : forallb lex_ok_tok ts = true -> tabs_ok ts = true ->
  lex lex_g lex_rules (render ts) K F = Some toks -> Forall2 same_tok toks ts.
Proof. intros H1 H2. apply render_lex. apply lex_ok_renderable; assumption. Qed.

(* ================================================================================================ *)
(* STAGE 3 -- scripts                                                                                *)
(* ================================================================================================ *)

(* ---- 3a: the parser's answer does not change when its fuel grows ---- *)
Lemma pprogram_include_none f t r : tkk t = TINCLUDE -> pprogram f (t :: r) = None.
Proof.
  intros H. destruct f as [|f]; [reflexivity|]. cbn [pprogram]. rewrite H. unfold pdecl. rewrite H. reflexivity.
Qed.

(* when the items parse, more fuel does not make the include reader take anything more than newlines *)
Lemma pincludes_more_nothing g : forall f ts items, pprogram f ts = Some items ->
  exists r', pincludes g ts = ([], r') /\ pprogram f r' = Some items.
Proof.
  induction g as [|g IH]; intros f ts items H; [exists ts; split; [reflexivity|exact H]|].
  destruct ts as [|t r]; [exists []; split; [reflexivity|exact H]|].
  cbn [pincludes]. destruct (tkk t) eqn:Ek; try (exists (t :: r); split; [reflexivity|exact H]).
  - destruct f as [|f]; [discriminate H|]. rewrite pprogram_skips_newline in H by (apply isk_true; exact Ek).
    destruct (IH f r items H) as (r' & A & B). exists r'. split; [exact A|].
    apply (pprogram_mono f (S f)); [lia|exact B].
  - rewrite (pprogram_include_none f t r Ek) in H. discriminate H.
Qed.

Lemma pincludes_grow g : forall g' f ts incs r4 items, g <= g' ->
  pincludes g ts = (incs, r4) -> pprogram f r4 = Some items ->
  exists r4', pincludes g' ts = (incs, r4') /\ pprogram f r4' = Some items.
Proof.
  induction g as [|g IH]; intros g' f ts incs r4 items Hle HI HP.
  - cbn [pincludes] in HI. injection HI as <- <-. exact (pincludes_more_nothing g' f ts items HP).
  - destruct g' as [|g']; [lia|]. destruct ts as [|t r].
    + cbn [pincludes] in *. injection HI as <- <-. exists []. split; [reflexivity|exact HP].
    + cbn [pincludes] in *. destruct (tkk t); try (injection HI as <- <-; exists (t :: r); split; [reflexivity|exact HP]).
      * exact (IH g' f r incs r4 items ltac:(lia) HI HP).
      * destruct r as [|s r1]; [injection HI as <- <-; exists [t]; split; [reflexivity|exact HP]|].
        destruct (isk TSTR s); [|injection HI as <- <-; exists (t :: s :: r1); split; [reflexivity|exact HP]].
        destruct (pincludes g r1) as [l r2] eqn:E. injection HI as <- <-.
        destruct (IH g' f r1 l r2 items ltac:(lia) E HP) as (r4' & A & B).
        exists r4'. rewrite A. split; [reflexivity|exact B].
Qed.

Theorem pscript_mono f f' ts sc : f <= f' -> pscript f ts = Some sc -> pscript f' ts = Some sc.
Proof.
  intros Hle. unfold pscript. destruct (skip_nl ts) as [|pn [|n [|nl r]]]; try discriminate.
  destruct (isk TPROGNAME pn && isk TNAME n && isk TNEWLINE nl)%bool; [|discriminate].
  destruct (skip_nl r) as [|v [|num r1]]; try discriminate.
  destruct (isk TVERSION v && isk TFLOAT num)%bool; [|discriminate].
  destruct (pmetaline f TTARGET is_device r1) as [[tg r2]|] eqn:E1; [|discriminate].
  rewrite (pmetaline_mono f f' _ _ _ _ Hle E1).
  destruct (pmetaline f TPROGTYPE is_name r2) as [[ty r3]|] eqn:E2; [|discriminate].
  rewrite (pmetaline_mono f f' _ _ _ _ Hle E2).
  destruct (pincludes f r3) as [incs r4] eqn:E3.
  destruct (pprogram f r4) as [items|] eqn:E4; [|discriminate]. intros [= <-].
  destruct (pincludes_grow f f' f r3 incs r4 items Hle E3 E4) as (r4' & A & B).
  rewrite A. rewrite (pprogram_mono f f' _ _ Hle B). reflexivity.
Qed.

(* ---- 3b: in printed scripts a TAB always directly follows a NEWLINE ---- *)
Definition is_tabk (t:token) : bool := Nat.eqb (tkind t) 17.
Definition is_nlk (t:token) : bool := Nat.eqb (tkind t) 16.
(* b: the previous token is a NEWLINE (or there is none) *)
Fixpoint tabs_from (b:bool) (ts:list token) : bool :=
  match ts with [] => true | t :: ts' => ((b || negb (is_tabk t)) && tabs_from (is_nlk t) ts')%bool end.
Definition endnl (b:bool) (l:list token) : bool := fold_left (fun _ t => is_nlk t) l b.

Lemma tabs_ok_cons t ts : tabs_ok (t :: ts) = tabs_from (is_nlk t) ts.
Proof.
  revert t. induction ts as [|t' ts IH]; intros t; [reflexivity|].
  change (tabs_ok (t :: t' :: ts)) with ((is_nlk t || negb (is_tabk t')) && tabs_ok (t' :: ts))%bool.
  rewrite IH. reflexivity.
Qed.
Lemma tabs_ok_from ts : tabs_ok ts = tabs_from true ts.
Proof. destruct ts as [|t ts]; [reflexivity|]. rewrite tabs_ok_cons. reflexivity. Qed.

Lemma tabs_from_app l1 : forall b l2, tabs_from b (l1 ++ l2) = (tabs_from b l1 && tabs_from (endnl b l1) l2)%bool.
Proof.
  induction l1 as [|t l1 IH]; intros b l2; [reflexivity|]. cbn [app tabs_from]. rewrite IH, andb_assoc. reflexivity.
Qed.
Lemma endnl_app b l1 l2 : endnl b (l1 ++ l2) = endnl (endnl b l1) l2.
Proof. apply fold_left_app. Qed.

Definition notab (l:list token) : bool := forallb (fun t => negb (is_tabk t)) l.
Lemma notab_app a b : notab (a ++ b) = (notab a && notab b)%bool.
Proof. apply forallb_app. Qed.
Lemma notab_cons t l : notab (t :: l) = (negb (is_tabk t) && notab l)%bool.
Proof. reflexivity. Qed.
Lemma notab_from l : notab l = true -> forall b, tabs_from b l = true.
Proof.
  induction l as [|t l IH]; intros H b; [reflexivity|]. rewrite notab_cons in H. apply andb_true_iff in H.
  destruct H as (H1 & H2). cbn [tabs_from]. rewrite H1, orb_true_r, (IH H2). reflexivity.
Qed.

Local Ltac nt := repeat first [rewrite notab_app | rewrite notab_cons]; cbn [notab forallb is_tabk tkind Unparse.mk Nat.eqb negb andb].

Lemma notab_expr e : notab (up_expr e) = true.
Proof.
  induction e as [k s|x l c|s|x l c e IH|p|e IH|neg e IH|a IHa b IHb|d a IHa b IHb|sg a IHa b IHb|f e IH];
    cbn [up_expr]; nt; rewrite ?IH, ?IHa, ?IHb; try reflexivity.
  - destruct k; reflexivity.
  - destruct neg; reflexivity.
  - destruct d; reflexivity.
  - destruct sg; reflexivity.
  - destruct f; reflexivity.
Qed.

Lemma notab_sep {A} (up : A -> list token) l : (forall x, In x l -> notab (up x) = true) -> notab (up_sep up l) = true.
Proof.
  induction l as [|x l IH]; intros H; [reflexivity|]. destruct l as [|y l]; [apply H; left; reflexivity|].
  rewrite up_sep_cons. nt. rewrite (H x (or_introl eq_refl)). rewrite IH; [reflexivity|].
  intros z Hz. apply H. right. exact Hz.
Qed.

Lemma notab_val v : notab (up_val v) = true.
Proof. destruct v as [e|s|b]; cbn [up_val]; [apply notab_expr|reflexivity|reflexivity]. Qed.
Lemma notab_vallist l : notab (up_vallist l) = true.
Proof. apply notab_sep. intros x _. apply notab_val. Qed.
Lemma notab_kwarg kw : notab (up_kwarg kw) = true.
Proof.
  unfold up_kwarg. destruct (snd kw) as [v|l]; nt; [apply notab_val|]. rewrite notab_vallist. reflexivity.
Qed.
Lemma notab_args a : notab (up_args a) = true.
Proof.
  unfold up_args. nt. rewrite notab_vallist. rewrite (notab_sep up_kwarg (akw a)) by (intros x _; apply notab_kwarg).
  destruct (apos a), (akw a); reflexivity.
Qed.
Lemma notab_oargs a : notab (up_oargs a) = true.
Proof. destruct a as [a|]; [apply notab_args|reflexivity]. Qed.
Lemma notab_stmt_nonl s : notab (up_stmt_nonl s) = true.
Proof.
  unfold up_stmt_nonl. nt. rewrite notab_oargs. rewrite (notab_sep up_expr (smodes s)) by (intros x _; apply notab_expr).
  unfold tOP. destruct (starts_measure (sop s)); reflexivity.
Qed.
Lemma notab_dname n : negb (is_tabk (up_dname n)) = true.
Proof.
  destruct n as [x|s l c|s l c]; cbn [up_dname]; try reflexivity. unfold reserved_num.
  repeat match goal with |- context [if ?b then _ else _] => destruct b end; reflexivity.
Qed.
Lemma notab_shape sh : notab (up_shape sh) = true.
Proof.
  destruct sh as [l|]; [|reflexivity]. cbn [up_shape]. nt.
  rewrite (notab_sep (fun s => [tINT s]) l) by (intros x _; reflexivity). reflexivity.
Qed.
Lemma notab_hdr h : notab (up_hdr h) = true.
Proof.
  destruct h as [a b c|l]; cbn [up_hdr]; nt; [destruct c; reflexivity|]. rewrite notab_vallist. reflexivity.
Qed.

(* pieces that are fine wherever they stand *)
Definition anywhere (l:list token) : Prop := forall b, tabs_from b l = true.
Lemma anywhere_notab l : notab l = true -> anywhere l.
Proof. intros H b. apply notab_from. exact H. Qed.
Lemma anywhere_app a b : anywhere a -> anywhere b -> anywhere (a ++ b).
Proof. intros Ha Hb c. rewrite tabs_from_app, Ha, Hb. reflexivity. Qed.
Lemma anywhere_flat_map {A} (f:A -> list token) l : (forall x, anywhere (f x)) -> anywhere (flat_map f l).
Proof.
  intros H. induction l as [|x l IH]; [intros b; reflexivity|]. cbn [flat_map]. apply anywhere_app; [apply H|exact IH].
Qed.

Lemma rows_after_nl rows : tabs_from true (flat_map up_row rows) = true /\ endnl true (flat_map up_row rows) = true.
Proof.
  induction rows as [|row rows (IH1 & IH2)]; [split; reflexivity|]. cbn [flat_map].
  assert (Hrow : tabs_from true (up_row row) = true /\ forall b, endnl b (up_row row) = true).
  { unfold up_row. split.
    - cbn [tabs_from]. apply notab_from. nt. rewrite (notab_sep up_expr row) by (intros x _; apply notab_expr). reflexivity.
    - intros b. change (tTAB :: up_sep up_expr row ++ [tNL]) with ((tTAB :: up_sep up_expr row) ++ [tNL]).
      rewrite endnl_app. reflexivity. }
  destruct Hrow as (R1 & R2). split.
  - rewrite tabs_from_app, R1, R2, IH1. reflexivity.
  - rewrite endnl_app, R2. exact IH2.
Qed.

Lemma anywhere_bodyline s : anywhere (up_bodyline s).
Proof.
  intros b. unfold up_bodyline. cbn [tabs_from is_tabk is_nlk tkind tNL tTAB Unparse.mk Nat.eqb negb orb andb].
  rewrite orb_true_r. apply notab_from. apply notab_stmt_nonl.
Qed.

Lemma anywhere_item it : anywhere (up_item it).
Proof.
  destruct it as [ty n init l c|ty n sh body l c|s|ty x h body]; cbn [up_item].
  - apply anywhere_notab. nt. rewrite notab_dname, notab_val. destruct ty; reflexivity.
  - replace (tTYPE ty :: tARRAY :: up_dname n :: up_shape sh ++ tASSIGN :: tNL :: up_arrbody body)
      with (((tTYPE ty :: tARRAY :: up_dname n :: up_shape sh ++ [tASSIGN]) ++ [tNL]) ++ up_arrbody body)
      by (cbn [app]; rewrite <- !app_assoc; reflexivity).
    intros b. rewrite tabs_from_app, endnl_app. cbn [endnl fold_left is_nlk tkind tNL Unparse.mk Nat.eqb].
    rewrite notab_from.
    + destruct body as [rows|p]; cbn [up_arrbody andb]; [exact (proj1 (rows_after_nl rows))|reflexivity].
    + nt. rewrite notab_dname, notab_shape. destruct ty; reflexivity.
  - apply anywhere_notab. unfold up_stmt. nt. rewrite notab_stmt_nonl. reflexivity.
  - change (tFOR :: tTYPE ty :: tNAME x :: tIN :: up_hdr h ++ flat_map up_bodyline body ++ [tNL])
      with ((tFOR :: tTYPE ty :: tNAME x :: tIN :: up_hdr h) ++ flat_map up_bodyline body ++ [tNL]).
    apply anywhere_app; [|apply anywhere_app].
    + apply anywhere_notab. nt. rewrite notab_hdr. destruct ty; reflexivity.
    + apply anywhere_flat_map. exact anywhere_bodyline.
    + apply anywhere_notab. reflexivity.
Qed.

Lemma notab_meta kw m : negb (is_tabk kw) = true -> notab (up_meta kw m) = true.
Proof.
  intros H. destruct m as [[d a]|]; [|reflexivity]. cbn [up_meta]. nt. rewrite H, notab_oargs. reflexivity.
Qed.

Theorem up_script_tabs_ok sc : tabs_ok (up_script sc) = true.
Proof.
  rewrite tabs_ok_from. unfold up_script.
  change (tPROGNAME :: tNAME (sc_name sc) :: tNL :: tVERSION :: Unparse.mk 10 (sc_version sc)
            :: up_meta tTARGET (sc_target sc) ++ up_meta tPROGTYPE (sc_type sc)
            ++ tNL :: flat_map up_include (sc_includes sc) ++ up_items (sc_items sc))
    with ((tPROGNAME :: tNAME (sc_name sc) :: tNL :: tVERSION :: Unparse.mk 10 (sc_version sc) :: up_meta tTARGET (sc_target sc))
            ++ up_meta tPROGTYPE (sc_type sc) ++ (tNL :: flat_map up_include (sc_includes sc)) ++ up_items (sc_items sc)).
  apply anywhere_app; [|apply anywhere_app; [|apply anywhere_app]].
  - apply anywhere_notab. nt. rewrite notab_meta by reflexivity. reflexivity.
  - apply anywhere_notab. apply notab_meta. reflexivity.
  - apply anywhere_notab. rewrite notab_cons. cbn [is_tabk tkind tNL Unparse.mk Nat.eqb negb andb].
    induction (sc_includes sc) as [|s l IH]; [reflexivity|].
    cbn [flat_map]. rewrite notab_app, IH. reflexivity.
  - unfold up_items. apply anywhere_flat_map. exact anywhere_item.
Qed.

(* ---- 3c: printed scripts ---- *)
(* every token of the printed script satisfies the token condition: names are NAME-shaped and not reserved,
   numbers and strings have the shape of their kind (the fixed tokens always pass) *)
Definition lex_ok_script (sc:script) : bool := forallb lex_ok_tok (up_script sc).

Theorem lex_ok_script_renderable sc : lex_ok_script sc = true -> renderable (up_script sc).
Proof. intros H. apply lex_ok_renderable; [exact H|apply up_script_tabs_ok]. Qed.

(* the lexer reads the rendered printed script back as the printed tokens *)
Theorem script_render_lex sc K F toks : lex_ok_script sc = true ->
  lex lex_g lex_rules (render (up_script sc)) K F = Some toks -> Forall2 same_tok toks (up_script sc).
Proof. intros H. apply render_lex. apply lex_ok_script_renderable. exact H. Qed.

(* TEXT ROUND TRIP: whenever the front end (lexer with its fuels, then parser with its fuel) accepts the rendered
   printed script, the tree it returns is the printed tree up to positions *)
Theorem text_roundtrip sc sc' : wf_script sc -> lex_ok_script sc = true ->
  front lex_g lex_rules (render (up_script sc)) = Ok sc' -> LayoutP.erase_script sc' = LayoutP.erase_script sc.
Proof.
  intros Hwf Hok H. unfold front in H.
  destruct (lex lex_g lex_rules (render (up_script sc)) _ 64) as [toks|] eqn:EL; [|discriminate H].
  destruct (pscript (4 * length toks + 16) toks) as [s1|] eqn:EP; [|discriminate H]. injection H as <-.
  pose proof (script_render_lex sc _ _ toks Hok EL) as Hsame.
  pose proof (parser_layout_blind (4 * length toks + 16) toks (up_script sc) Hsame) as Hb.
  rewrite EP in Hb. cbn [option_map] in Hb.
  destruct (pscript (4 * length toks + 16) (up_script sc)) as [s2|] eqn:E2; [|discriminate Hb].
  cbn [option_map] in Hb. assert (Hb' : LayoutP.erase_script s1 = LayoutP.erase_script s2) by congruence. rewrite Hb'.
  destruct (unparse_parse_exact sc Hwf) as (F0 & HF).
  pose proof (pscript_mono _ (Nat.max (4 * length toks + 16) F0) _ _ (Nat.le_max_l _ _) E2) as E3.
  rewrite (HF _ (Nat.le_max_r _ _)) in E3. injection E3 as <-.
  rewrite erase_script_eq, <- !erase_script_eq. apply erase_script_idem.
Qed.

(* the same for any parser fuel *)
Theorem text_roundtrip_fuel sc sc' K F f toks : wf_script sc -> lex_ok_script sc = true ->
  lex lex_g lex_rules (render (up_script sc)) K F = Some toks -> pscript f toks = Some sc' ->
  LayoutP.erase_script sc' = LayoutP.erase_script sc.
Proof.
  intros Hwf Hok EL EP.
  pose proof (script_render_lex sc _ _ toks Hok EL) as Hsame.
  pose proof (parser_layout_blind f toks (up_script sc) Hsame) as Hb.
  rewrite EP in Hb. cbn [option_map] in Hb.
  destruct (pscript f (up_script sc)) as [s2|] eqn:E2; [|discriminate Hb].
  cbn [option_map] in Hb. assert (Hb' : LayoutP.erase_script sc' = LayoutP.erase_script s2) by congruence. rewrite Hb'.
  destruct (unparse_parse_exact sc Hwf) as (F0 & HF).
  pose proof (pscript_mono _ (Nat.max f F0) _ _ (Nat.le_max_l _ _) E2) as E3.
  rewrite (HF _ (Nat.le_max_r _ _)) in E3. injection E3 as <-.
  rewrite erase_script_eq, <- !erase_script_eq. apply erase_script_idem.
Qed.

(* ---- 3d: the scripts written by the serialiser ---- *)
Definition toks_ok (l:list token) : Prop := forallb lex_ok_tok l = true.
Lemma toks_ok_nil : toks_ok [].
Proof. reflexivity. Qed.
Lemma toks_ok_cons t l : lex_ok_tok t = true -> toks_ok l -> toks_ok (t :: l).
Proof. unfold toks_ok. intros H1 H2. cbn [forallb]. rewrite H1, H2. reflexivity. Qed.
Lemma toks_ok_app a b : toks_ok a -> toks_ok b -> toks_ok (a ++ b).
Proof. unfold toks_ok. intros H1 H2. rewrite forallb_app, H1, H2. reflexivity. Qed.
Lemma toks_ok_flat_map {A} (f:A -> list token) l : (forall x, In x l -> toks_ok (f x)) -> toks_ok (flat_map f l).
Proof.
  induction l as [|x l IH]; intros H; [reflexivity|]. cbn [flat_map]. apply toks_ok_app; [apply H; left; reflexivity|].
  apply IH. intros y Hy. apply H. right. exact Hy.
Qed.
Lemma toks_ok_sep {A} (up:A -> list token) l : (forall x, In x l -> toks_ok (up x)) -> toks_ok (up_sep up l).
Proof.
  induction l as [|x l IH]; intros H; [reflexivity|]. destruct l as [|y l]; [apply H; left; reflexivity|].
  rewrite up_sep_cons. apply toks_ok_app; [apply H; left; reflexivity|]. apply toks_ok_cons; [vm_compute; reflexivity|].
  apply IH. intros z Hz. apply H. right. exact Hz.
Qed.

(* the fixed tokens of the printer *)
Lemma ok_fixed : forallb lex_ok_tok
  [tPLUS; tMINUS; tTIMES; tDIVIDE; tPWR; tASSIGN; tFOR; tIN; tNL; tTAB; tPROGNAME; tVERSION; tTARGET; tPROGTYPE; tINCLUDE;
   tCOMMA; tCOLON; tLB; tRB; tLSQ; tRSQ; tLBRACE; tRBRACE; tAPPLY; tARRAY] = true.
Proof. vm_compute. reflexivity. Qed.
Lemma ok_tFN f : lex_ok_tok (tFN f) = true.
Proof. destruct f; vm_compute; reflexivity. Qed.
Lemma ok_tTYPE ty : lex_ok_tok (tTYPE ty) = true.
Proof. destruct ty; vm_compute; reflexivity. Qed.
Lemma ok_bool (b:bool) : lex_ok_tok (Unparse.mk 13 (if b then true_text else false_text)) = true.
Proof. destruct b; vm_compute; reflexivity. Qed.

Lemma ok_int u : dig_ne u = true -> lex_ok_tok (Unparse.mk 9 u) = true.
Proof. intros H. exact H. Qed.
Lemma ok_float u : float_ok u = true -> lex_ok_tok (Unparse.mk 10 u) = true.
Proof. intros H. exact H. Qed.
Lemma ok_str u : str_shape u = true -> lex_ok_tok (Unparse.mk 12 u) = true.
Proof. intros H. exact H. Qed.
Lemma ok_reg u : regref_shape u = true -> lex_ok_tok (Unparse.mk 56 u) = true.
Proof. intros H. exact H. Qed.
Lemma ok_measure u : measure_shape u = true -> lex_ok_tok (Unparse.mk 57 u) = true.
Proof. intros H. exact H. Qed.
Lemma ok_name u : name_ok u = true -> lex_ok_tok (tNAME u) = true.
Proof. intros H. exact H. Qed.

(* closed tokens by computation, the others from the hypotheses *)
Local Ltac tk := repeat match goal with
  | |- toks_ok (_ :: _) => apply toks_ok_cons
  | |- toks_ok (_ ++ _) => apply toks_ok_app
  | |- toks_ok [] => exact toks_ok_nil
  | |- lex_ok_tok tPLUS = true => vm_compute; reflexivity
  | |- lex_ok_tok tMINUS = true => vm_compute; reflexivity
  | |- lex_ok_tok tTIMES = true => vm_compute; reflexivity
  | |- lex_ok_tok tDIVIDE = true => vm_compute; reflexivity
  | |- lex_ok_tok tPWR = true => vm_compute; reflexivity
  | |- lex_ok_tok tASSIGN = true => vm_compute; reflexivity
  | |- lex_ok_tok tNL = true => vm_compute; reflexivity
  | |- lex_ok_tok tTAB = true => vm_compute; reflexivity
  | |- lex_ok_tok tPROGNAME = true => vm_compute; reflexivity
  | |- lex_ok_tok tVERSION = true => vm_compute; reflexivity
  | |- lex_ok_tok tTARGET = true => vm_compute; reflexivity
  | |- lex_ok_tok tPROGTYPE = true => vm_compute; reflexivity
  | |- lex_ok_tok tCOMMA = true => vm_compute; reflexivity
  | |- lex_ok_tok tLB = true => vm_compute; reflexivity
  | |- lex_ok_tok tRB = true => vm_compute; reflexivity
  | |- lex_ok_tok tLSQ = true => vm_compute; reflexivity
  | |- lex_ok_tok tRSQ = true => vm_compute; reflexivity
  | |- lex_ok_tok tLBRACE = true => vm_compute; reflexivity
  | |- lex_ok_tok tRBRACE = true => vm_compute; reflexivity
  | |- lex_ok_tok tAPPLY = true => vm_compute; reflexivity
  | |- lex_ok_tok tARRAY = true => vm_compute; reflexivity
  | |- lex_ok_tok (tFN _) = true => apply ok_tFN
  | |- lex_ok_tok (tTYPE _) = true => apply ok_tTYPE
  end.

(* decimal digits *)
Lemma is_digit_iff c : is_digit c = true <-> (48 <= c <= 57)%N.
Proof.
  split; [apply is_digit_range|]. intros (H1 & H2).
  unfold is_digit, cmatch, in_ranges, cs_digit. cbn [cneg cranges existsb fst snd]. rewrite xorb_false_l, orb_false_r.
  apply andb_true_iff. split; apply N.leb_le; assumption.
Qed.
Lemma z_digit_char z : is_digit (Z.to_N (48 + z mod 10)) = true.
Proof. apply is_digit_iff. pose proof (Z.mod_pos_bound z 10 ltac:(lia)). lia. Qed.

Lemma digits_fuel_digits f : forall z acc, forallb is_digit acc = true -> forallb is_digit (digits_fuel f z acc) = true.
Proof.
  induction f as [|f IH]; intros z acc H; [exact H|]. cbn [digits_fuel].
  assert (H' : forallb is_digit (Z.to_N (48 + z mod 10) :: acc) = true) by (cbn [forallb]; rewrite z_digit_char, H; reflexivity).
  destruct (Z.ltb z 10); [exact H'|apply IH; exact H'].
Qed.
Lemma digits_fuel_ne f : forall z acc, acc <> [] -> digits_fuel f z acc <> [].
Proof.
  induction f as [|f IH]; intros z acc H; [exact H|]. cbn [digits_fuel].
  destruct (Z.ltb z 10); [discriminate|apply IH; discriminate].
Qed.
Lemma z_digits_ok z : dig_ne (z_digits z) = true.
Proof.
  unfold dig_ne, z_digits. apply andb_true_iff. split.
  - pose proof (digits_fuel_ne (Z.to_nat (Z.log2 z)) (z / 10) [Z.to_N (48 + z mod 10)] ltac:(discriminate)) as H.
    cbn [digits_fuel]. destruct (Z.ltb z 10); [reflexivity|]. destruct (digits_fuel _ _ _); [congruence|reflexivity].
  - apply digits_fuel_digits. reflexivity.
Qed.

Lemma span_dig_stop d c x : forallb is_digit d = true -> is_digit c = false -> span_dig (d ++ c :: x) = (d, c :: x).
Proof.
  induction d as [|a d IH]; intros Hd Hc; cbn [app span_dig].
  - rewrite Hc. reflexivity.
  - cbn [forallb] in Hd. apply andb_true_iff in Hd. destruct Hd as (Ha & Hd). rewrite Ha, (IH Hd Hc). reflexivity.
Qed.

Lemma dec_text_ok m e : float_ok (dec_text m e) = true.
Proof.
  unfold float_ok, dec_text. pose proof (z_digits_ok m) as Hm. unfold dig_ne in Hm. apply andb_true_iff in Hm.
  destruct Hm as (Hne & Hd). apply andb_true_iff. split.
  - unfold real_shape. rewrite (span_dig_stop _ 101%N _ Hd eq_refl). cbn [fst snd]. rewrite Hne. cbn [andb].
    cbn [frac_exp_shape]. change (N.eqb 101 46) with false. cbn iota. cbn [exp_shape]. change (N.eqb 101 101) with true. cbn [orb andb].
    destruct (Z.ltb e 0).
    + change (N.eqb 45 43 || N.eqb 45 45)%bool with true. cbn iota. apply z_digits_ok.
    + pose proof (z_digits_ok e) as He. destruct (z_digits e) as [|s d] eqn:Ee; [discriminate He|].
      assert (Hs : is_digit s = true).
      { unfold dig_ne in He. apply andb_true_iff in He. destruct He as (_ & He). cbn [forallb] in He.
        apply andb_true_iff in He. exact (proj1 He). }
      apply is_digit_iff in Hs. replace (N.eqb s 43 || N.eqb s 45)%bool with false; [exact He|].
      symmetry. apply orb_false_iff. split; apply N.eqb_neq; lia.
  - apply negb_true_iff. rewrite forallb_app. cbn [forallb]. change (is_digit 101) with false.
    rewrite andb_false_r. reflexivity.
Qed.
(* the conditions on a program: names are NAME-shaped, registers are REGREF-shaped, strings have no quote / line end *)
Fixpoint term_names_ok (t:term) : bool :=
  match t with
  | TPar s => name_ok s
  | TReg s => regref_shape s
  | TDec _ _ | TPi | TI => true
  | TAdd a b | TMul a b | TPow a b => (term_names_ok a && term_names_ok b)%bool
  | TNeg a | TInv a | TFn _ a => term_names_ok a
  end.
Definition strtext_ok (s:str) : bool := forallb (cmatch cs_str) s.
(* values written by Serialize.value_val (not arrays, not lists) *)
Definition scalar_ok (tdm:bool) (v:value) : bool :=
  match v with
  | VFlt t | VCpx t | VSym t | VTrf t => term_names_ok t
  | VStr s => if (tdm && is_ptype s)%bool then name_ok s else strtext_ok s
  | VPName s => name_ok s
  | _ => true
  end.
Definition value_ok (tdm:bool) (v:value) : bool :=
  match v with
  | VArr _ _ _ elems => forallb (scalar_ok tdm) elems
  | VList l => forallb (scalar_ok tdm) l
  | _ => scalar_ok tdm v
  end.
(* a variable of the tdm variable block: a string is always written as a string *)
Definition var_ok (tdm:bool) (v:value) : bool :=
  match v with VStr s => strtext_ok s | _ => value_ok tdm v end.
Definition kv_ok (tdm:bool) (kv:str * value) : bool := (name_ok (fst kv) && value_ok tdm (snd kv))%bool.
Definition op_ok (tdm:bool) (o:op) : bool :=
  ((if starts_measure (oname o) then measure_shape (oname o) else name_ok (oname o)) &&
   match oargs o with
   | None => true
   | Some (ps, kws) => (forallb (value_ok tdm) ps && forallb (kv_ok tdm) kws)%bool
   end)%bool.
Definition oname_ok (n:option str) : bool := match n with Some s => name_ok s | None => true end.
Definition names_ok (p:prog) : bool :=
  let tdm := is_tdm (p_type p) in
  (name_ok (p_name p) && float_ok (p_version p) &&
   oname_ok (p_target p) && forallb (kv_ok false) (p_target_opts p) &&
   oname_ok (p_type p) && forallb (kv_ok false) (p_type_opts p) &&
   forallb (op_ok tdm) (p_ops p) &&
   (if tdm then forallb (fun kv => (name_ok (fst kv) && var_ok tdm (snd kv))%bool) (p_vars p) else true))%bool.

Lemma toks_int_expr z : toks_ok (up_expr (int_expr z)).
Proof.
  unfold int_expr. destruct (Z.ltb z 0); cbn [up_expr nk_num]; tk; apply ok_int; apply z_digits_ok.
Qed.

Lemma toks_dec m e : lex_ok_tok (Unparse.mk 10 (dec_text m e)) = true.
Proof. apply ok_float. apply dec_text_ok. Qed.

Lemma toks_term : forall t, term_names_ok t = true -> toks_ok (up_expr (term_expr t)).
Proof.
  induction t as [m e| | |p|s|a b IHa IHb|a b IHa IHb|a b N IHa IHb|a IHa|a IHa|a b IHa IHb|f a IHa] using term_ind_div;
    intros H.
  - cbn [term_expr]. destruct (Z.ltb m 0); cbn [up_expr nk_num]; tk; apply toks_dec.
  - vm_compute. reflexivity.
  - vm_compute. reflexivity.
  - cbn [term_expr up_expr]. tk. apply ok_name. exact H.
  - cbn [term_expr up_expr]. tk. apply ok_reg. exact H.
  - cbn [term_names_ok] in H. apply andb_true_iff in H. destruct H as (Ha & Hb).
    cbn [term_expr up_expr]. tk; auto.
  - cbn [term_names_ok] in H. apply andb_true_iff in H. destruct H as (Ha & Hb).
    cbn [term_expr up_expr]. tk; auto.
  - cbn [term_names_ok] in H. apply andb_true_iff in H. destruct H as (Ha & Hb).
    rewrite (term_expr_mul a b N). cbn [up_expr]. tk; auto.
  - cbn [term_names_ok] in H. cbn [term_expr up_expr]. tk; auto.
  - cbn [term_names_ok] in H. cbn [term_expr up_expr nk_num]. tk; try (vm_compute; reflexivity); auto.
  - cbn [term_names_ok] in H. apply andb_true_iff in H. destruct H as (Ha & Hb).
    cbn [term_expr up_expr]. tk; auto.
  - cbn [term_names_ok] in H. cbn [term_expr up_expr]. tk; auto.
Qed.

Lemma toks_cpx t : term_names_ok t = true -> toks_ok (up_expr (cpx_expr t)).
Proof.
  intros H. unfold cpx_expr. cbn [up_expr nk_num]. tk; [apply toks_term; exact H|vm_compute; reflexivity].
Qed.

Lemma strtext_str_shape s : strtext_ok s = true -> str_shape (34%N :: s ++ [34%N]) = true.
Proof.
  intros H. cbn [str_shape]. rewrite N.eqb_refl. cbn [andb]. rewrite rev_unit. rewrite N.eqb_refl. cbn [andb].
  apply forallb_forall. intros x Hx. unfold strtext_ok in H. rewrite forallb_forall in H. apply H. apply in_rev. exact Hx.
Qed.

Lemma toks_value_val tdm v w : scalar_ok tdm v = true -> value_val tdm v = Some w -> toks_ok (up_val w).
Proof.
  intros S E. destruct v; cbn [value_val] in E; try discriminate; injection E as <-; cbn [scalar_ok] in S; cbn [up_val].
  - apply toks_int_expr.
  - apply toks_term. exact S.
  - apply toks_cpx. exact S.
  - apply toks_term. exact S.
  - apply toks_term. exact S.
  - tk. apply ok_bool.
  - destruct (tdm && is_ptype s)%bool; cbn [up_val up_expr]; tk.
    + apply ok_name. exact S.
    + apply ok_str. apply strtext_str_shape. exact S.
  - cbn [up_expr]. tk. apply ok_name. exact S.
Qed.

Lemma omap_toks {A B} (f:A -> option B) (P:A -> bool) (Q:B -> Prop) :
  (forall x y, P x = true -> f x = Some y -> Q y) ->
  forall l r, forallb P l = true -> omap f l = Some r -> forall y, In y r -> Q y.
Proof.
  intros H. induction l as [|x l IH]; intros r W E y Hy; cbn [omap] in E.
  - injection E as <-. destruct Hy.
  - cbn [forallb] in W. apply andb_true_iff in W. destruct W as (Wx & Wl).
    destruct (f x) as [y0|] eqn:Ex; [|discriminate]. destruct (omap f l) as [ys|] eqn:El; [|discriminate].
    injection E as <-. destruct Hy as [<-|Hy]; [exact (H x y0 Wx Ex)|exact (IH ys Wl eq_refl y Hy)].
Qed.

Lemma toks_vallist tdm l ws : forallb (scalar_ok tdm) l = true -> omap (value_val tdm) l = Some ws ->
  toks_ok (up_vallist ws).
Proof.
  intros S E. apply toks_ok_sep. apply (omap_toks (value_val tdm) (scalar_ok tdm) (fun w => toks_ok (up_val w))) with (l := l); auto.
  intros x y. apply toks_value_val.
Qed.

Lemma scalar_of_value tdm v : match v with VArr _ _ _ _ | VList _ => False | _ => True end ->
  value_ok tdm v = scalar_ok tdm v.
Proof. destruct v; intros H; try reflexivity; destruct H. Qed.

(* the printed value of a keyword argument (after NAME ASSIGN) *)
Definition up_kwval (k:kwval) : list token :=
  match k with KV v => up_val v | KL l => tLSQ :: up_vallist l ++ [tRSQ] end.

Lemma toks_kwval_of tdm v w : value_ok tdm v = true -> kwval_of tdm v = Some w -> toks_ok (up_kwval w).
Proof.
  intros S E.
  assert (G : forall u, scalar_ok tdm u = true -> option_map KV (value_val tdm u) = Some w -> toks_ok (up_kwval w)).
  { intros u Su Eu. destruct (value_val tdm u) as [x|] eqn:Ex; [|discriminate]. injection Eu as <-.
    cbn [up_kwval]. eapply toks_value_val; eassumption. }
  destruct v; cbn [kwval_of value_ok] in *; try (eapply G; [|exact E]; assumption).
  - discriminate E.
  - destruct (omap (value_val tdm) l) as [ws|] eqn:El; [|discriminate]. injection E as <-.
    cbn [up_kwval]. tk. eapply toks_vallist; eassumption.
Qed.

Lemma toks_kwarg x w : name_ok x = true -> toks_ok (up_kwval w) -> toks_ok (up_kwarg (x, w)).
Proof.
  intros Hx Hw. unfold up_kwarg. cbn [fst snd]. tk; [apply ok_name; exact Hx|exact Hw].
Qed.

(* ---- arrays ---- *)
Lemma toks_elem_expr tdm v e : scalar_ok tdm v = true -> elem_expr v = Some e -> toks_ok (up_expr e).
Proof.
  intros S E. destruct v; cbn [elem_expr] in E; try discriminate; injection E as <-; cbn [scalar_ok] in S.
  - apply toks_int_expr.
  - apply toks_term. exact S.
  - apply toks_cpx. exact S.
Qed.

Lemma nat_digits_ok n : lex_ok_tok (tINT (nat_digits n)) = true.
Proof. apply ok_int. apply z_digits_ok. Qed.

Lemma toks_row row : (forall e, In e row -> toks_ok (up_expr e)) -> toks_ok (up_row row).
Proof. intros H. unfold up_row. tk. apply toks_ok_sep. exact H. Qed.

Lemma in_chunks {A} r c : forall (l:list A) row x, In row (chunks r c l) -> In x row -> In x l.
Proof.
  induction r as [|r IH]; intros l row x Hr Hx; [destruct Hr|]. cbn [chunks] in Hr. destruct Hr as [<-|Hr].
  - rewrite <- (firstn_skipn c l). apply in_or_app. left. exact Hx.
  - rewrite <- (firstn_skipn c l). apply in_or_app. right. exact (IH _ row x Hr Hx).
Qed.

Lemma toks_arr_decl tdm x sh ty r c l d : name_ok x = true -> forallb (scalar_ok tdm) l = true ->
  arr_decl x sh ty r c l = Some d -> toks_ok (up_item d).
Proof.
  intros Hx Hl E. unfold arr_decl in E. destruct (omap elem_expr l) as [es|] eqn:Ee; [|discriminate]. injection E as <-.
  assert (Hes : forall e, In e es -> toks_ok (up_expr e)).
  { apply (omap_toks elem_expr (scalar_ok tdm) (fun e => toks_ok (up_expr e))) with (l := l); auto.
    intros v e. apply toks_elem_expr. }
  cbn [up_item up_dname up_arrbody]. tk.
  - apply ok_name. exact Hx.
  - destruct sh; cbn [up_shape up_sep]; tk; apply nat_digits_ok.
  - apply toks_ok_flat_map. intros row Hrow. apply toks_row. intros e He. apply Hes. exact (in_chunks r c es row e Hrow He).
Qed.

Lemma toks_decl_item tdm sh kv d : name_ok (fst kv) = true -> var_ok tdm (snd kv) = true ->
  decl_item sh kv = Some d -> toks_ok (up_item d).
Proof.
  destruct kv as [x v]. cbn [fst snd]. intros Hx Hv E. unfold decl_item in E. cbn [fst snd] in E.
  destruct v; cbn [var_ok value_ok scalar_ok] in Hv; try discriminate E;
    try (eapply toks_arr_decl; eassumption);
    injection E as <-; cbn [up_item up_dname up_val]; tk; try (apply ok_name; exact Hx).
  - apply toks_int_expr.
  - apply toks_term. exact Hv.
  - apply toks_cpx. exact Hv.
  - apply ok_bool.
  - apply ok_str. apply strtext_str_shape. exact Hv.
Qed.

(* ---- arguments, with hoisted arrays ---- *)
Lemma digit_namechar c : is_digit c = true -> is_namechar c = true.
Proof.
  intros H. apply is_digit_range in H. unfold is_namechar, cmatch, in_ranges, cs_namechar.
  cbn [cneg cranges existsb fst snd]. rewrite xorb_false_l. apply orb_true_iff. left.
  apply andb_true_iff. split; apply N.leb_le; lia.
Qed.

Lemma arr_name_ok k : name_ok (arr_name k) = true.
Proof.
  unfold arr_name, nat_digits. pose proof (z_digits_ok (Z.of_nat k)) as H. unfold dig_ne in H.
  apply andb_true_iff in H. destruct H as (_ & H). set (d := z_digits (Z.of_nat k)) in *.
  assert (H1 : name_shape (65%N :: d) = true).
  { cbn [name_shape]. change (is_letter 65) with true. cbn [andb]. apply forallb_forall. intros x Hx.
    rewrite forallb_forall in H. apply digit_namechar. apply H. exact Hx. }
  assert (H2 : mem_word (65%N :: d) reserved_words = false) by (vm_compute; reflexivity).
  assert (H3 : regref_shape (65%N :: d) = false) by reflexivity.
  assert (H4 : measure_shape (65%N :: d) = false) by reflexivity.
  unfold name_ok. rewrite H1, H2, H3, H4. reflexivity.
Qed.

Definition item_ok (d:item) : Prop := toks_ok (up_item d).

Lemma toks_hoist_val tdm v k w k' ds : value_ok tdm v = true -> hoist_val tdm v k = Some (w, k', ds) ->
  toks_ok (up_val w) /\ Forall item_ok ds.
Proof.
  intros S E. unfold hoist_val in E.
  assert (G : scalar_ok tdm v = true ->
              match value_val tdm v with Some w0 => Some (w0, k, @nil item) | None => None end = Some (w, k', ds) ->
              toks_ok (up_val w) /\ Forall item_ok ds).
  { intros Sv. destruct (value_val tdm v) as [w0|] eqn:Ev; [|discriminate]. intros X. injection X as <- <- <-.
    split; [eapply toks_value_val; eassumption|constructor]. }
  destruct v; try (apply G; [exact S|exact E]).
  - destruct (decl_item true (arr_name k, VArr k0 rows cols elems)) as [d|] eqn:Ed; [|discriminate].
    injection E as <- <- <-. split.
    + cbn [up_val up_expr]. tk. apply ok_name. apply arr_name_ok.
    + constructor; [|constructor]. unfold item_ok.
      apply (toks_decl_item tdm true (arr_name k, VArr k0 rows cols elems) d); [apply arr_name_ok|exact S|exact Ed].
  - cbn [value_val] in E. discriminate E.
Qed.

Lemma toks_hoist_pos tdm : forall l k ws k' ds, forallb (value_ok tdm) l = true ->
  hoist_pos tdm l k = Some (ws, k', ds) -> Forall (fun w => toks_ok (up_val w)) ws /\ Forall item_ok ds.
Proof.
  induction l as [|v l IH]; intros k ws k' ds S E; cbn [hoist_pos] in E.
  - injection E as <- <- <-. split; constructor.
  - cbn [forallb] in S. apply andb_true_iff in S. destruct S as (Sv & Sl).
    destruct (hoist_val tdm v k) as [[[w k1] d1]|] eqn:Ev; [|discriminate].
    destruct (hoist_pos tdm l k1) as [[[ws' k2] d2]|] eqn:El; [|discriminate].
    injection E as <- <- <-.
    destruct (toks_hoist_val tdm v k w k1 d1 Sv Ev) as [A B]. destruct (IH k1 ws' k2 d2 Sl El) as [C D].
    split; [constructor; assumption|apply Forall_app; split; assumption].
Qed.

Lemma toks_hoist_kw tdm v k w k' ds : value_ok tdm v = true -> hoist_kw tdm v k = Some (w, k', ds) ->
  toks_ok (up_kwval w) /\ Forall item_ok ds.
Proof.
  intros S E. unfold hoist_kw in E.
  assert (G : match kwval_of tdm v with Some w0 => Some (w0, k, @nil item) | None => None end = Some (w, k', ds) ->
              toks_ok (up_kwval w) /\ Forall item_ok ds).
  { destruct (kwval_of tdm v) as [w0|] eqn:Ev; [|discriminate]. intros X. injection X as <- <- <-.
    split; [eapply toks_kwval_of; eassumption|constructor]. }
  destruct v; try (apply G; exact E).
  destruct (hoist_val tdm (VArr k0 rows cols elems) k) as [[[w0 k1] d]|] eqn:Ev; [|discriminate].
  injection E as <- <- <-. cbn [up_kwval]. eapply toks_hoist_val; eassumption.
Qed.

Lemma toks_hoist_kws tdm : forall l k kws k' ds, forallb (kv_ok tdm) l = true ->
  hoist_kws tdm l k = Some (kws, k', ds) -> Forall (fun kw => toks_ok (up_kwarg kw)) kws /\ Forall item_ok ds.
Proof.
  induction l as [|[x v] l IH]; intros k kws k' ds S E; cbn [hoist_kws] in E.
  - injection E as <- <- <-. split; constructor.
  - cbn [forallb] in S. apply andb_true_iff in S. destruct S as (Sv & Sl).
    unfold kv_ok in Sv. cbn [fst snd] in Sv. apply andb_true_iff in Sv. destruct Sv as (Sx & Sv).
    destruct (hoist_kw tdm v k) as [[[w k1] d1]|] eqn:Ev; [|discriminate].
    destruct (hoist_kws tdm l k1) as [[[ws' k2] d2]|] eqn:El; [|discriminate].
    injection E as <- <- <-.
    destruct (toks_hoist_kw tdm v k w k1 d1 Sv Ev) as [A B]. destruct (IH k1 ws' k2 d2 Sl El) as [C D].
    split; [constructor; [apply toks_kwarg; assumption|assumption]|apply Forall_app; split; assumption].
Qed.

Lemma toks_args ws kws : Forall (fun w => toks_ok (up_val w)) ws -> Forall (fun kw => toks_ok (up_kwarg kw)) kws ->
  toks_ok (up_args (mkargs ws kws)).
Proof.
  intros Hw Hk. unfold up_args. cbn [apos akw]. rewrite Forall_forall in Hw, Hk. tk.
  - apply toks_ok_sep. exact Hw.
  - destruct ws, kws; tk.
  - apply toks_ok_sep. exact Hk.
Qed.

Lemma toks_modes ms : toks_ok (up_sep up_expr (map int_expr ms)).
Proof. apply toks_ok_sep. intros e He. apply in_map_iff in He. destruct He as (z & <- & _). apply toks_int_expr. Qed.

Lemma toks_tOP s : (if starts_measure s then measure_shape s else name_ok s) = true -> lex_ok_tok (tOP s) = true.
Proof. unfold tOP. destruct (starts_measure s); intros H; [apply ok_measure|apply ok_name]; exact H. Qed.

Lemma toks_ser_op tdm o k t k' ds : op_ok tdm o = true -> ser_op tdm o k = Some (t, k', ds) ->
  toks_ok (up_stmt t) /\ Forall item_ok ds.
Proof.
  intros S E. unfold op_ok in S. apply andb_true_iff in S. destruct S as (Sn & Sa). unfold ser_op in E.
  destruct (oargs o) as [[ps kws]|].
  - apply andb_true_iff in Sa. destruct Sa as (Sp & Sk).
    destruct (hoist_pos tdm ps k) as [[[ws k1] d1]|] eqn:Ep; [|discriminate].
    destruct (hoist_kws tdm kws k1) as [[[kw k2] d2]|] eqn:Ek; [|discriminate].
    injection E as <- <- <-.
    destruct (toks_hoist_pos tdm ps k ws k1 d1 Sp Ep) as [A B].
    destruct (toks_hoist_kws tdm kws k1 kw k2 d2 Sk Ek) as [C D].
    split; [|apply Forall_app; split; assumption].
    unfold up_stmt, up_stmt_nonl. cbn [sop sargs smodes up_oargs]. tk.
    + apply toks_tOP. exact Sn.
    + apply toks_args; assumption.
    + apply toks_modes.
  - injection E as <- <- <-. split; [|constructor].
    unfold up_stmt, up_stmt_nonl. cbn [sop sargs smodes up_oargs]. tk.
    + apply toks_tOP. exact Sn.
    + apply toks_modes.
Qed.

Lemma toks_ser_ops tdm : forall ops k ts k' ds, forallb (op_ok tdm) ops = true ->
  ser_ops tdm ops k = Some (ts, k', ds) -> Forall (fun t => toks_ok (up_stmt t)) ts /\ Forall item_ok ds.
Proof.
  induction ops as [|o ops IH]; intros k ts k' ds S E; cbn [ser_ops] in E.
  - injection E as <- <- <-. split; constructor.
  - cbn [forallb] in S. apply andb_true_iff in S. destruct S as (So & Sl).
    destruct (ser_op tdm o k) as [[[t k1] d1]|] eqn:Eo; [|discriminate].
    destruct (ser_ops tdm ops k1) as [[[ts' k2] d2]|] eqn:El; [|discriminate].
    injection E as <- <- <-.
    destruct (toks_ser_op tdm o k t k1 d1 So Eo) as [A B]. destruct (IH k1 ts' k2 d2 Sl El) as [C D].
    split; [constructor; assumption|apply Forall_app; split; assumption].
Qed.

(* ---- metadata ---- *)
Lemma toks_ser_opts opts kws : forallb (kv_ok false) opts = true -> ser_opts opts = Some kws ->
  forall kw, In kw kws -> toks_ok (up_kwarg kw).
Proof.
  unfold ser_opts. apply omap_toks. intros kv y S E. unfold kv_ok in S. apply andb_true_iff in S. destruct S as (Sx & Sv).
  destruct (kwval_of false (snd kv)) as [w|] eqn:Ew; [|discriminate]. injection E as <-.
  apply toks_kwarg; [exact Sx|]. eapply toks_kwval_of; eassumption.
Qed.

Lemma toks_ser_meta nm opts m kw : oname_ok nm = true -> forallb (kv_ok false) opts = true ->
  ser_meta nm opts = Some m -> lex_ok_tok kw = true -> toks_ok (up_meta kw m).
Proof.
  intros Sn So E Hkw. unfold ser_meta in E. destruct nm as [n|]; [|injection E as <-; exact toks_ok_nil].
  cbn [oname_ok] in Sn. destruct opts as [|o opts].
  - injection E as <-. cbn [up_meta up_oargs]. tk; [exact Hkw|apply ok_name; exact Sn].
  - destruct (ser_opts (o :: opts)) as [kws|] eqn:Ek; [|discriminate]. injection E as <-.
    cbn [up_meta up_oargs]. tk; [exact Hkw|apply ok_name; exact Sn|].
    apply toks_args; [constructor|]. apply Forall_forall. exact (toks_ser_opts _ _ So Ek).
Qed.

(* ---- the script ---- *)
Theorem ser_lex_ok p sc : names_ok p = true -> ser_script p = Some sc -> lex_ok_script sc = true.
Proof.
  intros S E. unfold names_ok in S. cbv zeta in S.
  apply andb_true_iff in S; destruct S as (S & Svars). apply andb_true_iff in S; destruct S as (S & Sops).
  apply andb_true_iff in S; destruct S as (S & Styo). apply andb_true_iff in S; destruct S as (S & Sty).
  apply andb_true_iff in S; destruct S as (S & Stgo). apply andb_true_iff in S; destruct S as (S & Stg).
  apply andb_true_iff in S; destruct S as (Sname & Sver).
  unfold ser_script in E.
  destruct (ser_meta (p_target p) (p_target_opts p)) as [tg|] eqn:Etg; [|discriminate].
  destruct (ser_meta (p_type p) (p_type_opts p)) as [ty|] eqn:Ety; [|discriminate].
  destruct (if is_tdm (p_type p) then omap (decl_item false) (p_vars p) else Some []) as [vb|] eqn:Evb; [|discriminate].
  destruct (ser_ops (is_tdm (p_type p)) (p_ops p) 0) as [[[sts k] decls]|] eqn:Eops; [|discriminate].
  injection E as <-. unfold lex_ok_script, up_script. cbn [sc_name sc_version sc_target sc_type sc_includes sc_items].
  change (forallb lex_ok_tok ?l = true) with (toks_ok l).
  destruct (toks_ser_ops _ _ _ _ _ _ Sops Eops) as [Wsts Wdecls].
  cbn [flat_map app]. tk.
  - apply ok_name. exact Sname.
  - apply ok_float. exact Sver.
  - apply (toks_ser_meta _ _ _ _ Stg Stgo Etg). vm_compute. reflexivity.
  - apply (toks_ser_meta _ _ _ _ Sty Styo Ety). vm_compute. reflexivity.
  - unfold up_items. apply toks_ok_flat_map. intros it Hit.
    apply in_app_or in Hit. destruct Hit as [Hit|Hit]; [rewrite Forall_forall in Wdecls; exact (Wdecls it Hit)|].
    apply in_app_or in Hit. destruct Hit as [Hit|Hit].
    + destruct (is_tdm (p_type p)) eqn:T.
      * revert it Hit. eapply (omap_toks (decl_item false) _ (fun d => toks_ok (up_item d))); [|exact Svars|exact Evb].
        intros kv d Hkv Ed. cbn beta in Hkv. apply andb_true_iff in Hkv. destruct Hkv as (A & B).
        exact (toks_decl_item true false kv d A B Ed).
      * injection Evb as <-. destruct Hit.
    + apply in_map_iff in Hit. destruct Hit as (s & <- & Hs). cbn [up_item].
      rewrite Forall_forall in Wsts. exact (Wsts s Hs).
Qed.

(* TEXT ROUND TRIP for serialised programs: the front end reads the rendered text of the serialised script back as
   exactly that script, positions erased (the serialiser writes no positions: RoundtripP.ser_script_erased) *)
Theorem ser_text_roundtrip p sc sc' : wf_prog p -> strings_ok p -> modes_ok p -> names_ok p = true ->
  ser_script p = Some sc -> front lex_g lex_rules (render (up_script sc)) = Ok sc' -> LayoutP.erase_script sc' = sc.
Proof.
  intros W S M Nm E H.
  rewrite (text_roundtrip sc sc' (ser_script_wf p sc W S M E) (ser_lex_ok p sc Nm E) H).
  rewrite <- erase_script_eq. exact (ser_script_erased p sc E).
Qed.

(* ================================================================================================ *)
(* Examples: the hypotheses are satisfiable, and the conclusions computed                            *)
(* ================================================================================================ *)
Section Examples.
Local Open Scope N_scope.
(*  a + 12 NEWLINE TAB "s t" 1.5e-3 2j q0 MeasureX  *)
Definition ex_tokens : list token :=
  [tNAME [97]; tPLUS; tINT [49; 50]; tNL; tTAB; Unparse.mk 12 [34; 115; 32; 116; 34];
   Unparse.mk 10 [49; 46; 53; 101; 45; 51]; Unparse.mk 11 [50; 106]; Unparse.mk 56 [113; 48];
   Unparse.mk 57 [77; 101; 97; 115; 117; 114; 101; 88]].

Example ex_tokens_ok : forallb lex_ok_tok ex_tokens = true /\ tabs_ok ex_tokens = true.
Proof. vm_compute. split; reflexivity. Qed.
Example ex_tokens_renderable : renderable ex_tokens.
Proof. apply lex_ok_renderable; apply ex_tokens_ok. Qed.
Example ex_tokens_text : render ex_tokens =
  [97; 32; 43; 32; 49; 50; 32; 10; 32; 32; 32; 32; 34; 115; 32; 116; 34; 32; 49; 46; 53; 101; 45; 51; 32; 50; 106; 32;
   113; 48; 32; 77; 101; 97; 115; 117; 114; 101; 88; 32].
Proof. reflexivity. Qed.
Example ex_tokens_lex :
  option_map (map tok_view) (lex lex_g lex_rules (render ex_tokens) 400 64) = Some (map tok_view ex_tokens).
Proof. vm_compute. reflexivity. Qed.

(* the conditions matter: a NAME token spelled like a keyword, a register, or a measurement is read back as another kind;
   a MEASURE token with a digit in it is read back as a NAME; two TABs in a row are one skipped SPACE *)
Example ex_bad_names :
  map lex_ok_tok [tNAME [102; 111; 114]; tNAME [113; 55]; tNAME [77; 101; 97; 115; 117; 114; 101]; tNAME [112; 105];
                  Unparse.mk 57 [77; 101; 97; 115; 117; 114; 101; 49]] = [false; false; false; false; false] /\
  option_map (map tkind) (lex lex_g lex_rules (render [tNAME [102; 111; 114]; tNAME [113; 55];
                  tNAME [77; 101; 97; 115; 117; 114; 101]; tNAME [112; 105];
                  Unparse.mk 57 [77; 101; 97; 115; 117; 114; 101; 49]]) 400 64) = Some [7; 56; 57; 15; 58]%nat /\
  tabs_ok [tNL; tTAB; tTAB; tNAME [97]] = false /\
  option_map (map tkind) (lex lex_g lex_rules (render [tNL; tTAB; tTAB; tNAME [97]]) 400 64) = Some [16; 58]%nat.
Proof. vm_compute. repeat split; reflexivity. Qed.

(* the script of UnparseP.ex_script: well formed, lexically fine, and read back from its text by the front end *)
Example ex_script_ok : wf_script UnparseP.ex_script /\ lex_ok_script UnparseP.ex_script = true.
Proof. split; [exact UnparseP.ex_wf|vm_compute; reflexivity]. Qed.
Example ex_script_renderable : renderable (up_script UnparseP.ex_script).
Proof. apply lex_ok_script_renderable. apply ex_script_ok. Qed.
Example ex_script_front : exists sc',
  front lex_g lex_rules (render (up_script UnparseP.ex_script)) = Ok sc' /\
  LayoutP.erase_script sc' = LayoutP.erase_script UnparseP.ex_script.
Proof. eexists. split; [vm_compute; reflexivity|vm_compute; reflexivity]. Qed.
(* UnparseP.ex_script2 declares and uses a register named "q" (no digits): not a REGREF for the lexer *)
Example ex_script2_not_ok : lex_ok_script UnparseP.ex_script2 = false.
Proof. vm_compute. reflexivity. Qed.

(* the program of SerializeP.ex_prog: all hypotheses of ser_text_roundtrip hold, and the conclusion computed *)
Example ex_prog_ok : wf_prog SerializeP.ex_prog /\ strings_ok SerializeP.ex_prog /\ modes_ok SerializeP.ex_prog /\
  names_ok SerializeP.ex_prog = true.
Proof.
  split; [exact SerializeP.ex_wf|]. split; [|split; [|vm_compute; reflexivity]].
  - unfold strings_ok. cbn. repeat (split || constructor || discriminate || intro).
  - unfold modes_ok. cbn. repeat (split || constructor || discriminate || intro).
Qed.
Example ex_prog_text : exists sc sc', ser_script SerializeP.ex_prog = Some sc /\
  front lex_g lex_rules (render (up_script sc)) = Ok sc' /\ LayoutP.erase_script sc' = sc.
Proof. eexists. eexists. split; [vm_compute; reflexivity|]. split; vm_compute; reflexivity. Qed.
End Examples.

(* ================================================================================================ *)
Print Assumptions render_lexspec.
Print Assumptions render_lex.
Print Assumptions whole_alone.
Print Assumptions lex_ok_tok_sound.
Print Assumptions lex_ok_renderable.
Print Assumptions lex_ok_render_lex.
Print Assumptions pscript_mono.
Print Assumptions up_script_tabs_ok.
Print Assumptions lex_ok_script_renderable.
Print Assumptions script_render_lex.
Print Assumptions text_roundtrip.
Print Assumptions text_roundtrip_fuel.
Print Assumptions ser_lex_ok.
Print Assumptions ser_text_roundtrip.
Print Assumptions ex_tokens_renderable.
Print Assumptions ex_script_front.
Print Assumptions ex_prog_text.
