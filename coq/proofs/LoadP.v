(* Properties of the loader model (Eval.v): C02 (denoted program), C04 (parameters), C07 (included programs),
   C15 (tdm p-names). *)
From Coq Require Import List NArith ZArith Bool Arith Lia Permutation Sorted.
Import ListNotations.
From BB Require Import Syntax Values Eval.

Set Implicit Arguments.
Unset Strict Implicit.

(* ------------------------------------------------------------------ *)
(* generic inversion lemmas                                            *)
(* ------------------------------------------------------------------ *)
Lemma bind_ok A B (o:outcome A) (f:A -> outcome B) (b:B) :
  bind o f = Ok b -> exists a, o = Ok a /\ f a = Ok b.
Proof. destruct o; simpl; intros; try discriminate; eauto. Qed.

Ltac binv H :=
  let x := fresh "x" in let E := fresh "E" in
  apply bind_ok in H; destruct H as [x [E H]].

Lemma mapM_Forall2 A B (f:A -> outcome B) l r :
  mapM f l = Ok r -> Forall2 (fun x y => f x = Ok y) l r.
Proof.
  revert r; induction l as [|a l IH]; simpl; intros r H.
  - inversion H; constructor.
  - binv H. binv H. inversion H; subst. constructor; auto.
Qed.

Lemma Forall2_mapM A B (f:A -> outcome B) l r :
  Forall2 (fun x y => f x = Ok y) l r -> mapM f l = Ok r.
Proof. induction 1; simpl; auto. rewrite H, IHForall2. reflexivity. Qed.

Lemma Forall2_imp A B (R1 R2:A -> B -> Prop) :
  (forall a b, R1 a b -> R2 a b) -> forall l l', Forall2 R1 l l' -> Forall2 R2 l l'.
Proof. intros H l l' F. induction F; constructor; auto. Qed.

Lemma Forall2_imp_In A B (R1 R2:A -> B -> Prop) l l' :
  (forall a b, In a l -> R1 a b -> R2 a b) -> Forall2 R1 l l' -> Forall2 R2 l l'.
Proof.
  intros H F. induction F; constructor.
  - apply H; simpl; auto.
  - apply IHF. intros; apply H; simpl; auto.
Qed.

Lemma Forall2_In_l A B (R:A -> B -> Prop) l l' x : Forall2 R l l' -> In x l -> exists y, In y l' /\ R x y.
Proof.
  induction 1; simpl; intros HI; [contradiction|]. destruct HI as [->|HI]; eauto.
  destruct (IHForall2 HI) as [y0 [? ?]]; eauto.
Qed.

Lemma Forall2_In_r A B (R:A -> B -> Prop) l l' y : Forall2 R l l' -> In y l' -> exists x, In x l /\ R x y.
Proof.
  induction 1; simpl; intros HI; [contradiction|]. destruct HI as [->|HI]; eauto.
  destruct (IHForall2 HI) as [x0 [? ?]]; eauto.
Qed.

Lemma Forall2_refl_In A (R:A -> A -> Prop) l : (forall x, In x l -> R x x) -> Forall2 R l l.
Proof. induction l; constructor; simpl in *; auto. Qed.

Lemma mapM_length A B (f:A -> outcome B) l r : mapM f l = Ok r -> length r = length l.
Proof. intro H. apply mapM_Forall2 in H. induction H; simpl; auto. Qed.

Lemma mapM_compose A B C (f:A -> outcome B) (g:B -> outcome C) l r r' :
  mapM f l = Ok r -> mapM g r = Ok r' -> mapM (fun x => do y <- f x; g y) l = Ok r'.
Proof.
  revert r r'; induction l as [|a l IH]; simpl; intros r r' H1 H2.
  - inversion H1; subst. simpl in H2. exact H2.
  - binv H1. binv H1. inversion H1; subst. simpl in H2. binv H2. binv H2. inversion H2; subst.
    rewrite E. simpl. rewrite E1. simpl. rewrite (IH _ _ E0 E2). reflexivity.
Qed.

Lemma mapM_In A B (f:A -> outcome B) l r y :
  mapM f l = Ok r -> In y r -> exists x, In x l /\ f x = Ok y.
Proof.
  intro H. apply mapM_Forall2 in H. induction H; simpl; intros HI; [contradiction|].
  destruct HI as [->|HI]; eauto. destruct (IHForall2 HI) as [x0 [? ?]]; eauto.
Qed.

Lemma mapM_In_l A B (f:A -> outcome B) l r x :
  mapM f l = Ok r -> In x l -> exists y, In y r /\ f x = Ok y.
Proof.
  intro H. apply mapM_Forall2 in H. induction H; simpl; intros HI; [contradiction|].
  destruct HI as [->|HI]; eauto. destruct (IHForall2 HI) as [y0 [? ?]]; eauto.
Qed.

Lemma mapM_nth A B (f:A -> outcome B) l r i x :
  mapM f l = Ok r -> nth_error l i = Some x -> exists y, nth_error r i = Some y /\ f x = Ok y.
Proof.
  intro H. apply mapM_Forall2 in H. revert i. induction H; intros [|i]; simpl; intros HI; try discriminate.
  - inversion HI; subst; eauto.
  - eauto.
Qed.

(* strings *)
Lemma str_eqb_eq a b : str_eqb a b = true <-> a = b.
Proof.
  revert b; induction a as [|x a IH]; destruct b as [|y b]; simpl; split; intro H; try discriminate; auto.
  - apply andb_true_iff in H. destruct H as [H1 H2]. apply N.eqb_eq in H1. apply IH in H2. congruence.
  - inversion H; subst. rewrite N.eqb_refl. simpl. apply IH. reflexivity.
Qed.

Lemma str_eqb_refl a : str_eqb a a = true.
Proof. apply str_eqb_eq; reflexivity. Qed.

Lemma mem_str_In k l : mem_str k l = true <-> In k l.
Proof.
  unfold mem_str. rewrite existsb_exists. split.
  - intros [x [H1 H2]]. apply str_eqb_eq in H2. subst; auto.
  - intro H. exists k. split; auto. apply str_eqb_refl.
Qed.

Lemma mem_str_false k l : mem_str k l = false <-> ~ In k l.
Proof. rewrite <- mem_str_In. destruct (mem_str k l); split; intros; try discriminate; auto. exfalso; auto. Qed.

Lemma lookup_In A k (l:list (str * A)) v : lookup k l = Some v -> In (k, v) l.
Proof.
  induction l as [|[k' v'] l IH]; simpl; intro H; [discriminate|].
  destruct (str_eqb k k') eqn:E.
  - apply str_eqb_eq in E. inversion H; subst. auto.
  - auto.
Qed.

Lemma lookup_None A k (l:list (str * A)) : lookup k l = None <-> ~ In k (map fst l).
Proof.
  induction l as [|[k' v'] l IH]; simpl.
  - tauto.
  - destruct (str_eqb k k') eqn:E.
    + apply str_eqb_eq in E. subst. split; [discriminate|]. intro H; exfalso; auto.
    + rewrite IH. split; intro H; [intros [H1|H1]|]; auto.
      subst. rewrite str_eqb_refl in E. discriminate.
Qed.

Lemma lookup_dict_set_same A k (v:A) l : lookup k (dict_set k v l) = Some v.
Proof.
  induction l as [|[k' v'] l IH]; simpl.
  - rewrite str_eqb_refl; reflexivity.
  - destruct (str_eqb k k') eqn:E; simpl; [rewrite str_eqb_refl; reflexivity|]. rewrite E. exact IH.
Qed.

Lemma In_dict_set A k (v:A) l kv : In kv (dict_set k v l) -> kv = (k, v) \/ In kv l.
Proof.
  induction l as [|[k' v'] l IH]; simpl.
  - intros [H|[]]; auto.
  - destruct (str_eqb k k'); simpl; intros [H|H]; auto. destruct (IH H); auto.
Qed.

Lemma In_dict_del A k (l:list (str * A)) kv : In kv (dict_del k l) -> In kv l.
Proof.
  induction l as [|[k' v'] l IH]; simpl; auto.
  destruct (str_eqb k k'); simpl; auto. intros [H|H]; auto.
Qed.

(* ------------------------------------------------------------------ *)
(* add_new / add_newZ                                                  *)
(* ------------------------------------------------------------------ *)
Lemma add_new_In acc l p : In p (add_new acc l) <-> In p acc \/ In p l.
Proof.
  revert acc; induction l as [|x l IH]; simpl; intro acc.
  - tauto.
  - rewrite IH. destruct (mem_str x acc) eqn:E.
    + apply mem_str_In in E. split; intros [H|H]; auto. destruct H as [->|H]; auto.
    + rewrite in_app_iff. simpl. tauto.
Qed.

Lemma add_new_incl acc l p : In p acc -> In p (add_new acc l).
Proof. intro; apply add_new_In; auto. Qed.

Lemma add_new_NoDup acc l : NoDup acc -> NoDup (add_new acc l).
Proof.
  revert acc; induction l as [|x l IH]; simpl; intros acc H; auto.
  apply IH. destruct (mem_str x acc) eqn:E; auto.
  apply mem_str_false in E.
  apply NoDup_rev in H. rewrite <- (rev_involutive (acc ++ [x])). apply NoDup_rev.
  rewrite rev_app_distr. simpl. constructor; auto. rewrite <- in_rev. exact E.
Qed.

Lemma existsb_Zeqb x l : existsb (Z.eqb x) l = true <-> In x l.
Proof.
  rewrite existsb_exists. split.
  - intros [y [H1 H2]]. apply Z.eqb_eq in H2. subst; auto.
  - intro H. exists x. split; auto. apply Z.eqb_refl.
Qed.

Lemma add_newZ_In acc l p : In p (add_newZ acc l) <-> In p acc \/ In p l.
Proof.
  revert acc; induction l as [|x l IH]; simpl; intro acc.
  - tauto.
  - rewrite IH. destruct (existsb (Z.eqb x) acc) eqn:E.
    + apply existsb_Zeqb in E. split; intros [H|H]; auto. destruct H as [->|H]; auto.
    + rewrite in_app_iff. simpl. tauto.
Qed.

Lemma add_newZ_NoDup acc l : NoDup acc -> NoDup (add_newZ acc l).
Proof.
  revert acc; induction l as [|x l IH]; simpl; intros acc H; auto.
  apply IH. destruct (existsb (Z.eqb x) acc) eqn:E; auto.
  assert (~ In x acc) by (rewrite <- existsb_Zeqb, E; discriminate).
  apply NoDup_rev in H. rewrite <- (rev_involutive (acc ++ [x])). apply NoDup_rev.
  rewrite rev_app_distr. simpl. constructor; auto. rewrite <- in_rev. assumption.
Qed.

(* ------------------------------------------------------------------ *)
(* structure of the loader: inversion of exec_stmt / IFor / IArray     *)
(* ------------------------------------------------------------------ *)
Definition wrap_args (a:option (list value * list (str * value))) : option (list value * list (str * value)) :=
  match a with
  | Some (ps, kws) => Some (map wrap_transform ps, map (fun kv => (fst kv, wrap_transform (snd kv))) kws)
  | None => None
  end.

Definition stmt_pars (t:stmt) : list str :=
  flat_map expr_pars (smodes t) ++ match sargs t with Some x => args_pars x | None => [] end.

Definition kw_go (env:list (str*value)) (pn:list str) :=
  fix go (l:list (str * kwval)) (acc:list (str * value)) : outcome (list (str * value)) :=
    match l with
    | [] => Ok acc
    | (k, KV v) :: l' => do x <- eval_val env pn v; go l' (dict_set k x acc)
    | (k, KL []) :: l' => go l' acc
    | (k, KL vs) :: l' => do xs <- mapM (eval_val env pn) vs; go l' (dict_set k (VList xs) acc)
    end.

Lemma eval_args_eq env pn a :
  eval_args env pn a = do ps <- mapM (eval_val env pn) (apos a); do kws <- kw_go env pn (akw a) []; Ok (ps, kws).
Proof. reflexivity. Qed.

Section Load.
Variable incs : list (str * prog).
Variable tdm : bool.

Lemma exec_stmt_inv s t s' :
  exec_stmt incs s t = Ok s' ->
  exists mvs ms a new,
    mapM (eval (s_env s) (s_pnames s)) (smodes t) = Ok mvs /\
    mapM mode_of mvs = Ok ms /\
    eval_opt_args (s_env s) (s_pnames s) (sargs t) = Ok a /\
    match lookup (sop t) incs with
    | Some inc => expand_include inc (mkop (sop t) (wrap_args a) ms) = Ok new
    | None => new = [mkop (sop t) (wrap_args a) ms]
    end /\
    s' = mkst (s_env s) (add_new (s_pars s) (stmt_pars t)) (s_pnames s) (s_ops s ++ new) (add_newZ (s_modes s) ms).
Proof.
  unfold exec_stmt. intro H. binv H. binv H. binv H.
  exists x, x0, x1.
  destruct (lookup (sop t) incs) eqn:L.
  - binv H. inversion H; subst. exists x2. repeat split; auto.
  - inversion H; subst. eexists; repeat split; eauto.
Qed.

Definition for_vals (s:st) (h:forhdr) : outcome (list value) :=
  match h with
  | HRange a b c =>
      match parse_digits a, parse_digits b, match c with Some c' => parse_digits c' | None => Some 1%Z end with
      | Some a', Some b', Some c' => do zs <- range_values a' b' c'; Ok (map VInt zs)
      | _, _, _ => Unspec
      end
  | HList l => mapM (eval_val (s_env s) (s_pnames s)) l
  end.

Definition set_env (s:st) (x:str) (v:value) : st :=
  mkst (dict_set x v (s_env s)) (s_pars s) (s_pnames s) (s_ops s) (s_modes s).

Definition for_iter (ty:vtype) (x:str) (body:list stmt) :=
  fix iter (vs:list value) (s0:st) : outcome st :=
    match vs with
    | [] => Ok s0
    | v :: vs' =>
        do v' <- cast_loop ty v;
        do s1 <- exec_stmts incs (set_env s0 x v') body;
        iter vs' s1
    end.

Definition hdr_pars (h:forhdr) : list str := match h with HList l => flat_map val_pars l | _ => [] end.

Lemma exec_for_inv s ty x h body s' :
  exec_item incs tdm s (IFor ty x h body) = Ok s' ->
  exists vals s1,
    for_vals s h = Ok vals /\ lookup x (s_env s) = None /\
    for_iter ty x body vals (mkst (s_env s) (add_new (s_pars s) (hdr_pars h)) (s_pnames s) (s_ops s) (s_modes s)) = Ok s1 /\
    s' = mkst (dict_del x (s_env s1)) (s_pars s1) (s_pnames s1) (s_ops s1) (s_modes s1).
Proof.
  unfold exec_item. intro H. binv H.
  destruct (lookup x (s_env s)) eqn:L; [discriminate|].
  binv H. inversion H; subst. exists x0, x1. repeat split; auto.
Qed.

Lemma exec_stmts_ind (P:st -> Prop) body :
  (forall s t s', P s -> In t body -> exec_stmt incs s t = Ok s' -> P s') ->
  forall s s', P s -> exec_stmts incs s body = Ok s' -> P s'.
Proof.
  induction body as [|t body IH]; simpl; intros Hs s s' HP H.
  - inversion H; subst; auto.
  - binv H. eapply IH; [| |exact H]; eauto.
Qed.

Lemma for_iter_ind (P:st -> Prop) ty x body vals :
  (forall s v v', P s -> In v vals -> cast_loop ty v = Ok v' -> P (set_env s x v')) ->
  (forall s t s', P s -> In t body -> exec_stmt incs s t = Ok s' -> P s') ->
  forall s0 s1, P s0 -> for_iter ty x body vals s0 = Ok s1 -> P s1.
Proof.
  induction vals as [|v vals IH]; simpl; intros Hset Hstmt s0 s1 HP H.
  - inversion H; subst; auto.
  - binv H. binv H. eapply IH; [| |  |exact H]; eauto.
    eapply exec_stmts_ind; [exact Hstmt| |exact E0]. eauto.
Qed.

(* arrays *)
Definition arr_elems (s:st) (ty:vtype) (rows:list (list expr)) : outcome (list value) :=
  mapM (fun e => match e with
                 | EPar p => Ok (VSym (TPar p))
                 | _ => do v <- eval (s_env s) (s_pnames s) e; cast_elem ty v
                 end) (concat rows).

Definition pn_after (s:st) (x:str) : list str :=
  if (tdm && is_ptype x)%bool then s_pnames s ++ [x] else s_pnames s.

Definition tmpl_names (p:str) (rn cn:nat) : list str :=
  flat_map (fun i => map (fun j => sub_name p i j) (seq 0 cn)) (seq 0 rn).

Definition row_len (rows:list (list expr)) : nat := match rows with r :: _ => length r | [] => 0 end.

Definition arr_general (s:st) (ty:vtype) (x:str) (shape:option (list str)) (rows:list (list expr)) : outcome st :=
  do elems <- arr_elems s ty rows;
  if negb (all_same_len rows) then Refuse EArrayRagged
  else
    let rn := length rows in
    let cn := row_len rows in
    let shape_ok := match shape with
                    | None => Some true
                    | Some sh => match shape_vals sh with
                                 | Some l => Some (match l with
                                                   | [r; c] => (Z.eqb r (Z.of_nat rn) && Z.eqb c (Z.of_nat cn))%bool
                                                   | _ => false end)
                                 | None => None
                                 end
                    end in
    match shape_ok with
    | Some true =>
        Ok (mkst (dict_set x (VArr ty rn cn elems) (s_env s))
                 (add_new (s_pars s) (flat_map expr_pars (concat rows))) (pn_after s x) (s_ops s) (s_modes s))
    | Some false => Refuse EArrayShape
    | None => Unspec
    end.

Definition arr_template (s:st) (ty:vtype) (x:str) (shape:option (list str)) (p:str) : outcome st :=
  if mem_str p (s_pars s) then Unspec else
  match shape with
  | None => Refuse EArrayNoShape
  | Some sh =>
      match shape_vals sh with
      | Some [r; c] =>
          if (Z.leb r 64 && Z.leb c 64)%bool then
            let rn := Z.to_nat r in let cn := Z.to_nat c in
            let names := tmpl_names p rn cn in
            Ok (mkst (dict_set x (VArr ty rn cn (map (fun nm => VSym (TPar nm)) names)) (s_env s))
                     (add_new (remove_first p (s_pars s)) names) (pn_after s x) (s_ops s) (s_modes s))
          else Unspec
      | _ => Unspec
      end
  end.

Lemma exec_array_cases s ty x shape rows l c :
  exec_item incs tdm s (IArray ty (DName x) shape (ARows rows) l c) =
  match rows with
  | [] => Refuse EArrayEmpty
  | [[EPar p]] => arr_template s ty x shape p
  | _ => arr_general s ty x shape rows
  end.
Proof. reflexivity. Qed.

Inductive arr_result (s:st) (ty:vtype) (x:str) (shape:option (list str)) (rows:list (list expr)) (s':st) : Prop :=
| AR_template p sh r c :
    rows = [[EPar p]] -> ~ In p (s_pars s) -> shape = Some sh -> shape_vals sh = Some [r; c] ->
    (r <= 64)%Z -> (c <= 64)%Z ->
    s' = mkst (dict_set x (VArr ty (Z.to_nat r) (Z.to_nat c)
                             (map (fun nm => VSym (TPar nm)) (tmpl_names p (Z.to_nat r) (Z.to_nat c)))) (s_env s))
              (add_new (remove_first p (s_pars s)) (tmpl_names p (Z.to_nat r) (Z.to_nat c)))
              (pn_after s x) (s_ops s) (s_modes s) ->
    arr_result s ty x shape rows s'
| AR_general elems :
    (forall p, rows <> [[EPar p]]) -> rows <> [] ->
    arr_elems s ty rows = Ok elems ->
    all_same_len rows = true ->
    s' = mkst (dict_set x (VArr ty (length rows) (row_len rows) elems) (s_env s))
              (add_new (s_pars s) (flat_map expr_pars (concat rows))) (pn_after s x) (s_ops s) (s_modes s) ->
    arr_result s ty x shape rows s'.

Lemma arr_general_inv s ty x shape rows s' :
  (forall p, rows <> [[EPar p]]) -> rows <> [] ->
  arr_general s ty x shape rows = Ok s' -> arr_result s ty x shape rows s'.
Proof.
  intros Hn Hne H. unfold arr_general in H. binv H.
  destruct (all_same_len rows) eqn:A; simpl in H; [|discriminate].
  eapply AR_general; eauto. cbv zeta in H.
  destruct shape as [sh|].
  - destruct (shape_vals sh) as [l|]; [|discriminate].
    match type of H with (if ?b then _ else _) = _ => destruct b end; [|discriminate].
    inversion H; reflexivity.
  - inversion H; reflexivity.
Qed.

Lemma arr_template_inv s ty x shape p s' :
  arr_template s ty x shape p = Ok s' -> arr_result s ty x shape [[EPar p]] s'.
Proof.
  unfold arr_template. intro H.
  destruct (mem_str p (s_pars s)) eqn:M; [discriminate|]. apply mem_str_false in M.
  destruct shape as [sh|]; [|discriminate].
  destruct (shape_vals sh) as [[|r [|c [|]]]|] eqn:SV; try discriminate.
  destruct (Z.leb r 64 && Z.leb c 64)%bool eqn:B; [|discriminate].
  apply andb_true_iff in B. destruct B as [B1 B2]. apply Z.leb_le in B1. apply Z.leb_le in B2.
  inversion H. eapply AR_template; eauto.
Qed.

Lemma exec_array_inv s ty n shape body l c s' :
  exec_item incs tdm s (IArray ty n shape body l c) = Ok s' ->
  exists x rows, n = DName x /\ body = ARows rows /\ arr_result s ty x shape rows s'.
Proof.
  intro H. destruct n as [x|x l0 c0|x l0 c0]; try discriminate.
  destruct body as [rows|q]; [|discriminate].
  exists x, rows. split; [reflexivity|]. split; [reflexivity|].
  rewrite exec_array_cases in H.
  destruct rows as [|r rs]; [discriminate|].
  destruct r as [|e r]; [apply arr_general_inv; auto; intros; discriminate|].
  destruct e; try (apply arr_general_inv; auto; intros; discriminate).
  destruct r as [|e' r]; [|apply arr_general_inv; auto; intros; discriminate].
  destruct rs as [|r' rs]; [|apply arr_general_inv; auto; intros; discriminate].
  apply arr_template_inv; auto.
Qed.

(* ================================================================== *)
(* C02.2  operations are only appended                                 *)
(* ================================================================== *)
Lemma exec_stmt_append s t s' :
  exec_stmt incs s t = Ok s' -> exists new, s_ops s' = s_ops s ++ new.
Proof.
  intro H. apply exec_stmt_inv in H. destruct H as (mvs & ms & a & new & _ & _ & _ & _ & ->).
  exists new; reflexivity.
Qed.

Lemma append_trans (a:list op) b c n1 n2 : b = a ++ n1 -> c = b ++ n2 -> c = a ++ (n1 ++ n2).
Proof. intros -> ->. rewrite app_assoc. reflexivity. Qed.

Lemma exec_stmts_append s body s' :
  exec_stmts incs s body = Ok s' -> exists new, s_ops s' = s_ops s ++ new.
Proof.
  intro H. eapply exec_stmts_ind with (P := fun s1 => exists new, s_ops s1 = s_ops s ++ new); [| |exact H].
  - intros s1 t s2 [n1 H1] _ H2. apply exec_stmt_append in H2. destruct H2 as [n2 H2].
    exists (n1 ++ n2). eapply append_trans; eauto.
  - exists []. rewrite app_nil_r. reflexivity.
Qed.

Theorem ops_append_only s it s' :
  exec_item incs tdm s it = Ok s' -> exists new, s_ops s' = s_ops s ++ new.
Proof.
  destruct it as [ty n init l c|ty n shape body l c|t|ty x h body]; intro H.
  - unfold exec_item in H. binv H. binv H. binv H. inversion H; subst. exists []. simpl. rewrite app_nil_r. reflexivity.
  - apply exec_array_inv in H. destruct H as (x & rows & _ & _ & R).
    exists []. rewrite app_nil_r. destruct R; subst; reflexivity.
  - apply exec_stmt_append in H. exact H.
  - apply exec_for_inv in H. destruct H as (vals & s1 & _ & _ & H & ->). simpl.
    eapply for_iter_ind with (P := fun s1 => exists new, s_ops s1 = s_ops s ++ new); [| | |exact H].
    + intros s2 v v' HP _ _. exact HP.
    + intros s2 t s3 [n1 H1] _ H2. apply exec_stmt_append in H2. destruct H2 as [n2 H2].
      exists (n1 ++ n2). eapply append_trans; eauto.
    + exists []. simpl. rewrite app_nil_r. reflexivity.
Qed.

Theorem ops_append_only_items s items s' :
  exec_items incs tdm s items = Ok s' -> exists new, s_ops s' = s_ops s ++ new.
Proof.
  revert s; induction items as [|it items IH]; simpl; intros s H.
  - inversion H; subst. exists []. rewrite app_nil_r. reflexivity.
  - binv H. apply ops_append_only in E. destruct E as [n1 E]. apply IH in H. destruct H as [n2 H].
    exists (n1 ++ n2). eapply append_trans; eauto.
Qed.

(* exactly one operation per executed plain statement, with the written gate name and the written modes in order *)
Theorem exec_stmt_plain s t s' :
  lookup (sop t) incs = None -> exec_stmt incs s t = Ok s' ->
  exists ms a,
    mapM (fun e => do v <- eval (s_env s) (s_pnames s) e; mode_of v) (smodes t) = Ok ms /\
    eval_opt_args (s_env s) (s_pnames s) (sargs t) = Ok a /\
    s_ops s' = s_ops s ++ [mkop (sop t) (wrap_args a) ms] /\
    length ms = length (smodes t) /\
    s_env s' = s_env s /\ s_pnames s' = s_pnames s /\
    s_pars s' = add_new (s_pars s) (stmt_pars t) /\ s_modes s' = add_newZ (s_modes s) ms.
Proof.
  intros L H. apply exec_stmt_inv in H. destruct H as (mvs & ms & a & new & H1 & H2 & H3 & H4 & ->).
  rewrite L in H4. subst new. exists ms, a. simpl. repeat split; auto.
  - eapply mapM_compose; eauto.
  - rewrite (mapM_length H2), (mapM_length H1). reflexivity.
Qed.
End Load.

(* ================================================================== *)
(* C02.1  metadata as written                                          *)
(* ================================================================== *)
Lemma meta_opts_fst a r : meta_opts a = Ok r -> fst r = option_map fst a.
Proof.
  destruct a as [[nm [args|]]|]; simpl; intro H.
  - binv H. inversion H; reflexivity.
  - inversion H; reflexivity.
  - inversion H; reflexivity.
Qed.

(* options are the written option arguments evaluated in the empty environment *)
Lemma meta_opts_empty_env nm args r :
  meta_opts (Some (nm, Some args)) = Ok r ->
  exists ps kws, eval_args [] [] args = Ok (ps, kws) /\ r = (Some nm, kws).
Proof. simpl. intro H. binv H. destruct x as [ps kws]. inversion H. eauto. Qed.

Theorem meta_as_written incs sc p :
  denote incs sc = Ok p ->
  p_name p = sc_name sc /\ p_version p = sc_version sc /\
  p_target p = option_map fst (sc_target sc) /\ p_type p = option_map fst (sc_type sc) /\
  meta_opts (sc_target sc) = Ok (p_target p, p_target_opts p) /\
  meta_opts (sc_type sc) = Ok (p_type p, p_type_opts p).
Proof.
  unfold denote. intro H. binv H. binv H. binv H. inversion H; subst; simpl.
  repeat split; auto.
  - apply meta_opts_fst; auto.
  - apply meta_opts_fst; auto.
  - rewrite E. destruct x; reflexivity.
  - rewrite E0. destruct x0; reflexivity.
Qed.

Lemma denote_inv incs sc p :
  denote incs sc = Ok p ->
  exists s, exec_items incs (is_tdm (p_type p)) (mkst [] [] [] [] []) (sc_items sc) = Ok s /\
            p_ops p = s_ops s /\ p_modes p = s_modes s /\ p_params p = s_pars s /\ p_vars p = s_env s.
Proof.
  unfold denote. intro H. binv H. binv H. binv H. inversion H; subst; simpl. eauto 10.
Qed.

(* ================================================================== *)
(* C04.6  instantiate                                                   *)
(* ================================================================== *)
Theorem inst_closed sg p q : instantiate sg p = Ok q -> p_params q = [].
Proof.
  unfold instantiate. destruct (p_params p); [discriminate|].
  intro H. binv H. binv H. inversion H; reflexivity.
Qed.

Theorem inst_not_template sg p : p_params p = [] -> instantiate sg p = Refuse ENotTemplate.
Proof. unfold instantiate; intros ->; reflexivity. Qed.

Lemma instantiate_inv sg p q :
  instantiate sg p = Ok q ->
  p_params p <> [] /\
  mapM (inst_op sg) (p_ops p) = Ok (p_ops q) /\
  mapM (fun kv => do x <- inst_elem sg (snd kv); Ok (fst kv, x)) (p_vars p) = Ok (p_vars q) /\
  p_name q = p_name p /\ p_version q = p_version p /\ p_target q = p_target p /\
  p_target_opts q = p_target_opts p /\ p_type q = p_type p /\ p_type_opts q = p_type_opts p /\
  p_modes q = p_modes p /\ p_params q = [].
Proof.
  unfold instantiate. destruct (p_params p) eqn:P; [discriminate|].
  intro H. binv H. binv H. inversion H; subst; simpl.
  repeat split; auto. discriminate.
Qed.

(* instantiation descends into keyword lists and arrays: induction on values through their element lists *)
Definition value_children (v:value) : list value :=
  match v with VArr _ _ _ es => es | VList es => es | _ => [] end.

Fixpoint value_ind_nested (P:value -> Prop) (H:forall v, Forall P (value_children v) -> P v) (v:value) : P v :=
  H v (match v as v0 return Forall P (value_children v0) with
       | VArr _ _ _ es =>
           (fix go (l:list value) : Forall P l :=
              match l with
              | [] => @Forall_nil _ P
              | x :: l' => @Forall_cons _ P x l' (@value_ind_nested P H x) (go l')
              end) es
       | VList es =>
           (fix go (l:list value) : Forall P l :=
              match l with
              | [] => @Forall_nil _ P
              | x :: l' => @Forall_cons _ P x l' (@value_ind_nested P H x) (go l')
              end) es
       | _ => @Forall_nil _ P
       end).

(* the inner fix of inst_value is mapM (inst_value sg) *)
Lemma inst_value_list sg l :
  (fix go (l:list value) : outcome (list value) :=
     match l with
     | [] => Ok []
     | x :: l' => do y <- inst_value sg x; do ys <- go l'; Ok (y :: ys)
     end) l = mapM (inst_value sg) l.
Proof. induction l as [|x l IH]; [reflexivity|]. cbn [mapM]. rewrite <- IH. reflexivity. Qed.

Lemma inst_value_VList sg l : inst_value sg (VList l) = do l' <- mapM (inst_value sg) l; Ok (VList l').
Proof. rewrite <- inst_value_list. reflexivity. Qed.

Lemma inst_value_VArr sg k r c es :
  inst_value sg (VArr k r c es) = do es' <- mapM (inst_value sg) es; Ok (VArr k r c es').
Proof. rewrite <- inst_value_list. reflexivity. Qed.

Lemma inst_elem_eq sg v : inst_elem sg v = inst_value sg v.
Proof. reflexivity. Qed.

(* a relation on symbolic leaves lifted through keyword lists and arrays; every other value is unchanged
   (in particular register transforms VTrf and numbers) *)
Definition is_leaf (v:value) : Prop :=
  match v with VSym _ | VList _ | VArr _ _ _ _ => False | _ => True end.

Inductive lift_rel (S:term -> value -> Prop) : value -> value -> Prop :=
| LR_sym t v' : S t v' -> lift_rel S (VSym t) v'
| LR_list l l' : Forall2 (lift_rel S) l l' -> lift_rel S (VList l) (VList l')
| LR_arr k r c es es' : Forall2 (lift_rel S) es es' -> lift_rel S (VArr k r c es) (VArr k r c es')
| LR_leaf v : is_leaf v -> lift_rel S v v.

Lemma lift_rel_impl (S1 S2:term -> value -> Prop) :
  (forall t v', S1 t v' -> S2 t v') -> forall v v', lift_rel S1 v v' -> lift_rel S2 v v'.
Proof.
  intro HS. apply (@value_ind_nested (fun v => forall v', lift_rel S1 v v' -> lift_rel S2 v v')).
  intros v IH v' H. rewrite Forall_forall in IH. inversion H; subst; simpl in IH.
  - apply LR_sym; auto.
  - apply LR_list. eapply Forall2_imp_In; [|eassumption]. intros a b Ha Hab. apply IH; auto.
  - apply LR_arr. eapply Forall2_imp_In; [|eassumption]. intros a b Ha Hab. apply IH; auto.
  - apply LR_leaf; auto.
Qed.

Lemma mem_str_lookup A p (sg:list (str * A)) :
  mem_str p (map fst sg) = true -> exists u, lookup p sg = Some u /\ In (p, u) sg.
Proof.
  intro H. apply mem_str_In in H. destruct (lookup p sg) as [u|] eqn:L.
  - exists u; split; auto. apply lookup_In; auto.
  - apply lookup_None in L. contradiction.
Qed.

Lemma all_in_app a b keys : all_in (a ++ b) keys = (all_in a keys && all_in b keys)%bool.
Proof. unfold all_in. apply forallb_app. Qed.

Lemma subst_term_closed sg t :
  (forall k u, In (k, u) sg -> term_pars u = []) ->
  all_in (term_pars t) (map fst sg) = true -> term_pars (subst_term sg t) = [].
Proof.
  intro Hsg. induction t; simpl; intro H; auto;
    try (rewrite all_in_app in H; apply andb_true_iff in H; destruct H as [H1 H2];
         rewrite (IHt1 H1), (IHt2 H2); reflexivity).
  apply andb_true_iff in H. destruct H as [H _]. apply mem_str_lookup in H. destruct H as [u [L I]].
  rewrite L. eauto.
Qed.

(* substitutions whose values are numeric (contain no parameter): the case of a top-level instantiation *)
Definition closed_sg (sg:list (str * term)) : bool :=
  forallb (fun kv => match term_pars (snd kv) with [] => true | _ => false end) sg.

Lemma closed_sg_spec sg : closed_sg sg = true <-> (forall k u, In (k, u) sg -> term_pars u = []).
Proof.
  unfold closed_sg. rewrite forallb_forall. split.
  - intros H k u Hin. specialize (H _ Hin). simpl in H. destruct (term_pars u); [reflexivity|discriminate].
  - intros H [k u] Hin. simpl. rewrite (H _ _ Hin). reflexivity.
Qed.

Lemma close_kind_cases t :
  (term_pars t = [] /\ close_kind t = VFlt t) \/ (term_pars t <> [] /\ close_kind t = VSym t).
Proof. unfold close_kind. destruct (term_pars t); [left; auto|right; split; [discriminate|reflexivity]]. Qed.

Lemma close_kind_nopars t : term_pars t = [] -> close_kind t = VFlt t.
Proof. unfold close_kind. intros ->. reflexivity. Qed.

(* binding every parameter of t to numeric values yields a number *)
Lemma close_kind_closed sg t :
  (forall k u, In (k, u) sg -> term_pars u = []) ->
  all_in (term_pars t) (map fst sg) = true -> close_kind (subst_term sg t) = VFlt (subst_term sg t).
Proof. intros Hsg H. apply close_kind_nopars. apply subst_term_closed; auto. Qed.

Lemma close_kind_closed_sg sg t :
  closed_sg sg = true ->
  all_in (term_pars t) (map fst sg) = true -> close_kind (subst_term sg t) = VFlt (subst_term sg t).
Proof. intro Hsg. apply close_kind_closed. apply closed_sg_spec; exact Hsg. Qed.

(* simultaneous substitution composes: binding the parameters of an inner template to (possibly symbolic) values
   sg1 and then binding the outer parameters by sg2 equals binding the inner parameters directly to the values
   already bound by sg2.  (Sequential replacement, as sympy's subs would do, differs when a value of sg1 mentions
   a parameter that is also a key of sg1.) *)
Lemma lookup_map_snd A B (f:A -> B) p (sg:list (str * A)) :
  lookup p (map (fun kv => (fst kv, f (snd kv))) sg) = option_map f (lookup p sg).
Proof.
  induction sg as [|[k u] sg IH]; simpl; [reflexivity|].
  destruct (str_eqb p k); [reflexivity|exact IH].
Qed.

Theorem subst_term_compose sg1 sg2 t :
  all_in (term_pars t) (map fst sg1) = true ->
  subst_term sg2 (subst_term sg1 t) = subst_term (map (fun kv => (fst kv, subst_term sg2 (snd kv))) sg1) t.
Proof.
  induction t; simpl; intro H; auto;
    try (rewrite all_in_app in H; apply andb_true_iff in H; destruct H as [H1 H2];
         rewrite (IHt1 H1), (IHt2 H2); reflexivity);
    try (rewrite (IHt H); reflexivity).
  apply andb_true_iff in H. destruct H as [H _]. apply mem_str_lookup in H. destruct H as [u [L I]].
  rewrite lookup_map_snd, L. reflexivity.
Qed.

(* what instantiation does to one argument value: every symbolic leaf VSym t, at any depth, becomes the value
   obtained by substitution, provided all its parameters have a value: a number when no parameter is left, still
   symbolic when the values themselves mention parameters (close_kind) *)
Definition inst_rel (sg:list (str * term)) : value -> value -> Prop :=
  lift_rel (fun t v' => all_in (term_pars t) (map fst sg) = true /\ v' = close_kind (subst_term sg t)).

(* the same with numeric values: every symbolic leaf becomes the number obtained by substitution *)
Definition inst_rel_num (sg:list (str * term)) : value -> value -> Prop :=
  lift_rel (fun t v' => all_in (term_pars t) (map fst sg) = true /\ v' = VFlt (subst_term sg t)).

Lemma inst_rel_num_iff sg v v' :
  (forall k u, In (k, u) sg -> term_pars u = []) -> (inst_rel sg v v' <-> inst_rel_num sg v v').
Proof.
  intro Hsg. split; apply lift_rel_impl; intros t w [H1 H2]; split; auto.
  - rewrite H2. apply close_kind_closed; auto.
  - rewrite H2. symmetry. apply close_kind_closed; auto.
Qed.

Lemma inst_value_rel sg v v' : inst_value sg v = Ok v' <-> inst_rel sg v v'.
Proof.
  revert v v'. apply (@value_ind_nested (fun v => forall v', inst_value sg v = Ok v' <-> inst_rel sg v v')).
  intros v IH v'. rewrite Forall_forall in IH.
  destruct v; simpl in IH;
    try (simpl; split; intro H; [inversion H; subst; apply LR_leaf; exact I|inversion H; subst; reflexivity]).
  - (* VSym *) simpl. destruct (all_in (term_pars t) (map fst sg)) eqn:A; split; intro H.
    + inversion H; subst. apply LR_sym; auto.
    + inversion H; subst; [|contradiction].
      match goal with HS : _ /\ _ = close_kind _ |- _ => destruct HS as [_ ->] end. reflexivity.
    + discriminate.
    + inversion H; subst; [|contradiction]. destruct H1; congruence.
  - (* VArr *) rewrite inst_value_VArr. split; intro H.
    + binv H. inversion H; subst. apply LR_arr. apply mapM_Forall2 in E.
      eapply Forall2_imp_In; [|exact E]. intros a b Ha Hab. apply IH; auto.
    + inversion H; subst; [|contradiction].
      erewrite Forall2_mapM; [reflexivity|].
      eapply Forall2_imp_In; [|eassumption]. intros a b Ha Hab. apply IH; auto.
  - (* VList *) rewrite inst_value_VList. split; intro H.
    + binv H. inversion H; subst. apply LR_list. apply mapM_Forall2 in E.
      eapply Forall2_imp_In; [|exact E]. intros a b Ha Hab. apply IH; auto.
    + inversion H; subst; [|contradiction].
      erewrite Forall2_mapM; [reflexivity|].
      eapply Forall2_imp_In; [|eassumption]. intros a b Ha Hab. apply IH; auto.
Qed.

(* instantiation with numeric values: the relation at its former strength *)
Theorem inst_value_rel_num sg v v' :
  (forall k u, In (k, u) sg -> term_pars u = []) -> (inst_value sg v = Ok v' <-> inst_rel_num sg v v').
Proof. intro Hsg. rewrite inst_value_rel. apply inst_rel_num_iff; exact Hsg. Qed.

(* nested includes: instantiating with (possibly symbolic) values sg1 and then instantiating the result with sg2
   is one instantiation with the values of sg1 already bound by sg2 *)
Lemma subst_term_nopars sg t : term_pars t = [] -> subst_term sg t = t.
Proof.
  induction t; simpl; intro H; try discriminate; auto;
    try (apply app_eq_nil in H; destruct H as [Ha Hb]; rewrite (IHt1 Ha), (IHt2 Hb); reflexivity);
    try (rewrite (IHt H); reflexivity).
Qed.

Lemma mapM_compose_In A B C (f:A -> outcome B) (g:B -> outcome C) (h:A -> outcome C) l : forall r r',
  (forall a b c, In a l -> f a = Ok b -> g b = Ok c -> h a = Ok c) ->
  mapM f l = Ok r -> mapM g r = Ok r' -> mapM h l = Ok r'.
Proof.
  induction l as [|a l IH]; simpl; intros r r' Hh H1 H2.
  - inversion H1; subst. simpl in H2. exact H2.
  - binv H1. binv H1. inversion H1; subst. simpl in H2. binv H2. binv H2. inversion H2; subst.
    rewrite (Hh a x x1 (or_introl eq_refl) E E1). simpl.
    rewrite (IH x0 x2); [reflexivity| |exact E0|exact E2].
    intros a0 b0 c0 Ha0. apply Hh. right. exact Ha0.
Qed.

Theorem inst_value_compose sg1 sg2 v : forall v1 v2,
  inst_value sg1 v = Ok v1 -> inst_value sg2 v1 = Ok v2 ->
  inst_value (map (fun kv => (fst kv, subst_term sg2 (snd kv))) sg1) v = Ok v2.
Proof.
  revert v.
  apply (@value_ind_nested (fun v => forall v1 v2, inst_value sg1 v = Ok v1 -> inst_value sg2 v1 = Ok v2 ->
           inst_value (map (fun kv => (fst kv, subst_term sg2 (snd kv))) sg1) v = Ok v2)).
  intros v IH v1 v2 H1 H2. rewrite Forall_forall in IH.
  destruct v; simpl in IH;
    try (simpl in H1; inversion H1; subst v1; simpl in H2; simpl; exact H2).
  - (* VSym *) simpl in H1. destruct (all_in (term_pars t) (map fst sg1)) eqn:A; [|discriminate].
    inversion H1; subst v1. simpl.
    assert (M: map fst (map (fun kv : str * term => (fst kv, subst_term sg2 (snd kv))) sg1) = map fst sg1).
    { rewrite map_map. apply map_ext. reflexivity. }
    rewrite M, A. rewrite <- (subst_term_compose sg2 A).
    destruct (close_kind_cases (subst_term sg1 t)) as [[C K]|[C K]]; rewrite K in H2; simpl in H2.
    + inversion H2; subst v2. rewrite (subst_term_nopars sg2 C), K. reflexivity.
    + destruct (all_in (term_pars (subst_term sg1 t)) (map fst sg2)); [exact H2|discriminate].
  - (* VArr *) rewrite inst_value_VArr in H1. binv H1. inversion H1; subst v1.
    rewrite inst_value_VArr in H2. binv H2. inversion H2; subst v2.
    rewrite inst_value_VArr. rewrite (mapM_compose_In (h:=inst_value _) (fun a b c Ha => IH a Ha b c) E E0). reflexivity.
  - (* VList *) rewrite inst_value_VList in H1. binv H1. inversion H1; subst v1.
    rewrite inst_value_VList in H2. binv H2. inversion H2; subst v2.
    rewrite inst_value_VList. rewrite (mapM_compose_In (h:=inst_value _) (fun a b c Ha => IH a Ha b c) E E0). reflexivity.
Qed.

Definition inst_op_rel (R:value -> value -> Prop) (o o':op) : Prop :=
  oname o' = oname o /\ omodes o' = omodes o /\
  match oargs o with
  | None => oargs o' = None
  | Some (ps, kws) =>
      exists ps' kws', oargs o' = Some (ps', kws') /\ Forall2 R ps ps' /\
                       Forall2 (fun kv kv' => fst kv' = fst kv /\ R (snd kv) (snd kv')) kws kws'
  end.

Lemma inst_op_ok sg o o' : inst_op sg o = Ok o' -> inst_op_rel (inst_rel sg) o o'.
Proof.
  unfold inst_op, inst_op_rel. destruct (oargs o) as [[ps kws]|] eqn:A; intro H.
  - binv H. binv H. inversion H; subst; simpl. repeat split; auto.
    exists x, x0. repeat split; auto.
    + apply mapM_Forall2 in E. eapply Forall2_imp; [|exact E]. intros a b Hab. apply inst_value_rel; auto.
    + apply mapM_Forall2 in E0. eapply Forall2_imp; [|exact E0]. intros a b Hab. cbv beta in Hab.
      binv Hab. inversion Hab; subst; simpl. split; auto. apply inst_value_rel; auto.
  - inversion H; subst. rewrite A. auto.
Qed.

(* the relation once the substituted values are parameter-free: a symbolic leaf, at any depth, becomes a closed number *)
Definition inst_rel_closed (sg:list (str * term)) : value -> value -> Prop :=
  lift_rel (fun t v' => v' = VFlt (subst_term sg t) /\ term_pars (subst_term sg t) = []).

Lemma inst_rel_to_closed sg v v' :
  (forall k u, In (k, u) sg -> term_pars u = []) -> inst_rel sg v v' -> inst_rel_closed sg v v'.
Proof.
  intro Hsg. apply lift_rel_impl. intros t w [H1 H2]. split.
  - rewrite H2. apply close_kind_closed; auto.
  - apply subst_term_closed; auto.
Qed.

Lemma inst_op_rel_impl (R1 R2:value -> value -> Prop) o o' :
  (forall a b, R1 a b -> R2 a b) -> inst_op_rel R1 o o' -> inst_op_rel R2 o o'.
Proof.
  intros HR (H1 & H2 & H3). repeat split; auto.
  destruct (oargs o) as [[ps kws]|]; auto.
  destruct H3 as (ps' & kws' & A & F1 & F2). exists ps', kws'. repeat split; auto.
  - eapply Forall2_imp; [|exact F1]; auto.
  - eapply Forall2_imp; [|exact F2]. simpl. intros a b [? ?]; auto.
Qed.

Theorem inst_ops_rel sg p q :
  instantiate sg p = Ok q -> Forall2 (inst_op_rel (inst_rel sg)) (p_ops p) (p_ops q).
Proof.
  intro H. apply instantiate_inv in H. destruct H as (_ & H & _).
  apply mapM_Forall2 in H. eapply Forall2_imp; [|exact H]. intros; apply inst_op_ok; auto.
Qed.

(* the variables of the program are instantiated in the same way (arrays element by element) *)
Theorem inst_vars_rel sg p q :
  instantiate sg p = Ok q ->
  Forall2 (fun kv kv' => fst kv' = fst kv /\ inst_rel sg (snd kv) (snd kv')) (p_vars p) (p_vars q).
Proof.
  intro H. apply instantiate_inv in H. destruct H as (_ & _ & H & _).
  apply mapM_Forall2 in H. eapply Forall2_imp; [|exact H]. intros a b Hab. cbv beta in Hab.
  rewrite inst_elem_eq in Hab. binv Hab. inversion Hab; subst; simpl. split; auto. apply inst_value_rel; auto.
Qed.

(* with numeric values the two theorems above hold at their former strength (every symbolic leaf becomes a number) *)
Theorem inst_ops_rel_num sg p q :
  (forall k u, In (k, u) sg -> term_pars u = []) ->
  instantiate sg p = Ok q -> Forall2 (inst_op_rel (inst_rel_num sg)) (p_ops p) (p_ops q).
Proof.
  intros Hsg H. apply inst_ops_rel in H. eapply Forall2_imp; [|exact H].
  intros a b. apply inst_op_rel_impl. intros x y Hxy. apply (inst_rel_num_iff x y Hsg). exact Hxy.
Qed.

Theorem inst_vars_rel_num sg p q :
  (forall k u, In (k, u) sg -> term_pars u = []) ->
  instantiate sg p = Ok q ->
  Forall2 (fun kv kv' => fst kv' = fst kv /\ inst_rel_num sg (snd kv) (snd kv')) (p_vars p) (p_vars q).
Proof.
  intros Hsg H. apply inst_vars_rel in H. eapply Forall2_imp; [|exact H].
  intros a b [Hk Hr]. split; [exact Hk|]. apply (inst_rel_num_iff _ _ Hsg). exact Hr.
Qed.

(* instantiation with parameter-free values leaves no parameter in any (formerly symbolic) argument, at any depth
   of a keyword list or an array *)
Theorem inst_args_closed sg p q :
  (forall k u, In (k, u) sg -> term_pars u = []) ->
  instantiate sg p = Ok q -> Forall2 (inst_op_rel (inst_rel_closed sg)) (p_ops p) (p_ops q).
Proof.
  intros Hsg H. apply inst_ops_rel in H. eapply Forall2_imp; [|exact H].
  intros a b. apply inst_op_rel_impl. intros; apply inst_rel_to_closed; auto.
Qed.

(* parameters of a value: those inside its numbers (real and complex values) and, when [sym], those of its
   symbolic leaves and register transforms.
     value_pars = every parameter;  num_pars = parameters inside numbers (the evaluator never puts a parameter
     there, a value mentioning a parameter is symbolic: see num_pars_invariant);
     value_pars_nt = parameters outside register transforms *)
Fixpoint vpars (sym:bool) (v:value) : list str :=
  match v with
  | VFlt t | VCpx t => term_pars t
  | VSym t | VTrf t => if sym then term_pars t else []
  | VArr _ _ _ es => flat_map (vpars sym) es
  | VList es => flat_map (vpars sym) es
  | _ => []
  end.
Notation value_pars := (vpars true).
Notation num_pars := (vpars false).

Definition opars (sym:bool) (o:op) : list str :=
  match oargs o with
  | Some (ps, kws) => flat_map (vpars sym) ps ++ flat_map (fun kv => vpars sym (snd kv)) kws
  | None => []
  end.
Notation op_pars := (opars true).
Notation op_num_pars := (opars false).

Fixpoint value_pars_nt (v:value) : list str :=
  match v with
  | VFlt t | VCpx t | VSym t => term_pars t
  | VArr _ _ _ es => flat_map value_pars_nt es
  | VList es => flat_map value_pars_nt es
  | _ => []
  end.

Definition value_pars_free (v:value) : Prop := value_pars_nt v = [].

Definition op_pars_nt (o:op) : list str :=
  match oargs o with
  | Some (ps, kws) => flat_map value_pars_nt ps ++ flat_map (fun kv => value_pars_nt (snd kv)) kws
  | None => []
  end.

Lemma no_In_nil A (l:list A) : (forall x, ~ In x l) -> l = [].
Proof. destruct l; auto. intro H. exfalso. apply (H a). left; reflexivity. Qed.

(* after instantiation with parameter-free values, a parameter outside a register transform can only be one that
   was already inside a number *)
Lemma inst_rel_closed_pars sg v v' :
  inst_rel_closed sg v v' -> forall p, In p (value_pars_nt v') -> In p (num_pars v).
Proof.
  revert v v'.
  apply (@value_ind_nested (fun v => forall v', inst_rel_closed sg v v' ->
                                      forall p, In p (value_pars_nt v') -> In p (num_pars v))).
  intros v IH v' H p Hp. rewrite Forall_forall in IH. inversion H; subst; simpl in IH.
  - destruct H0 as [-> H0]. simpl in Hp. rewrite H0 in Hp. contradiction.
  - simpl in Hp |- *. apply in_flat_map in Hp. destruct Hp as (y & Hy & Hp).
    destruct (Forall2_In_r H0 Hy) as (x & Hx & Hxy). apply in_flat_map. exists x. split; auto. eapply IH; eauto.
  - simpl in Hp |- *. apply in_flat_map in Hp. destruct Hp as (y & Hy & Hp).
    destruct (Forall2_In_r H0 Hy) as (x & Hx & Hxy). apply in_flat_map. exists x. split; auto. eapply IH; eauto.
  - destruct v'; simpl in *; auto; contradiction.
Qed.

Theorem inst_value_pars_free sg v v' :
  (forall k u, In (k, u) sg -> term_pars u = []) ->
  inst_value sg v = Ok v' -> num_pars v = [] -> value_pars_free v'.
Proof.
  intros Hsg H Hn. apply no_In_nil. intros p Hp.
  apply inst_value_rel in H. apply (inst_rel_to_closed Hsg) in H.
  apply (inst_rel_closed_pars H) in Hp. rewrite Hn in Hp. contradiction.
Qed.

Lemma inst_op_rel_closed_pars sg o o' :
  inst_op_rel (inst_rel_closed sg) o o' -> forall p, In p (op_pars_nt o') -> In p (op_num_pars o).
Proof.
  intros (_ & _ & H) p Hp. unfold op_pars_nt in Hp. unfold opars.
  destruct (oargs o) as [[ps kws]|].
  - destruct H as (ps' & kws' & A & F1 & F2). rewrite A in Hp.
    apply in_app_or in Hp. apply in_or_app. destruct Hp as [Hp|Hp]; [left|right].
    + apply in_flat_map in Hp. destruct Hp as (y & Hy & Hp).
      destruct (Forall2_In_r F1 Hy) as (x & Hx & Hxy). apply in_flat_map. exists x. split; auto.
      eapply inst_rel_closed_pars; eauto.
    + apply in_flat_map in Hp. destruct Hp as (y & Hy & Hp).
      destruct (Forall2_In_r F2 Hy) as (x & Hx & _ & Hxy). apply in_flat_map. exists x. split; auto.
      eapply inst_rel_closed_pars; eauto.
  - rewrite H in Hp. contradiction.
Qed.

(* the operations and variables of an instantiated program mention no parameter outside register transforms *)
Theorem inst_ops_pars_free sg p q :
  (forall k u, In (k, u) sg -> term_pars u = []) ->
  instantiate sg p = Ok q ->
  (forall o, In o (p_ops p) -> op_num_pars o = []) ->
  forall o', In o' (p_ops q) -> op_pars_nt o' = [].
Proof.
  intros Hsg H Hn o' Ho'. apply no_In_nil. intros x Hx.
  pose proof (inst_args_closed Hsg H) as F.
  destruct (Forall2_In_r F Ho') as (o & Ho & R).
  apply (inst_op_rel_closed_pars R) in Hx. rewrite (Hn _ Ho) in Hx. contradiction.
Qed.

Theorem inst_vars_pars_free sg p q :
  (forall k u, In (k, u) sg -> term_pars u = []) ->
  instantiate sg p = Ok q ->
  (forall x v, In (x, v) (p_vars p) -> num_pars v = []) ->
  forall x v', In (x, v') (p_vars q) -> value_pars_free v'.
Proof.
  intros Hsg H Hn x v' Hin. apply no_In_nil. intros y Hy.
  pose proof (inst_vars_rel H) as F.
  destruct (Forall2_In_r F Hin) as ([x0 v] & Hv & Hk & R). simpl in Hk, R. subst x0.
  apply (inst_rel_to_closed Hsg) in R. apply (inst_rel_closed_pars R) in Hy.
  rewrite (Hn _ _ Hv) in Hy. contradiction.
Qed.

(* refusals: every step either succeeds or is refused with the one class *)
Definition ok_or A (c:errclass) (o:outcome A) : Prop := (exists a, o = Ok a) \/ o = Refuse c.

Lemma mapM_ok_or_In A B (f:A -> outcome B) c l : (forall x, In x l -> ok_or c (f x)) -> ok_or c (mapM f l).
Proof.
  induction l as [|a l IH]; simpl; intro Hf.
  - left; eauto.
  - destruct (Hf a (or_introl eq_refl)) as [[b ->]| ->]; simpl; [|right; reflexivity].
    destruct IH as [[bs ->]| ->]; simpl; [auto|left; eauto|right; reflexivity].
Qed.

Lemma mapM_ok_or A B (f:A -> outcome B) c l : (forall x, ok_or c (f x)) -> ok_or c (mapM f l).
Proof. intro Hf. apply mapM_ok_or_In. auto. Qed.

Lemma mapM_refuse A B (f:A -> outcome B) c l x :
  (forall x, ok_or c (f x)) -> In x l -> f x = Refuse c -> mapM f l = Refuse c.
Proof.
  intros Hf HI Hx. induction l as [|a l IH]; simpl in *; [contradiction|].
  destruct HI as [->|HI].
  - rewrite Hx. reflexivity.
  - destruct (Hf a) as [[b ->]| ->]; simpl; [|reflexivity]. rewrite (IH HI). reflexivity.
Qed.

Lemma inst_value_ok_or sg v : ok_or EMissingParam (inst_value sg v).
Proof.
  revert v. apply (@value_ind_nested (fun v => ok_or EMissingParam (inst_value sg v))).
  intros v IH. rewrite Forall_forall in IH.
  destruct v; simpl in IH; try (left; simpl; eauto; fail).
  - simpl. destruct (all_in (term_pars t) (map fst sg)); [left; eauto|right; reflexivity].
  - rewrite inst_value_VArr. destruct (mapM_ok_or_In IH) as [[b ->]| ->]; simpl; [left; eauto|right; reflexivity].
  - rewrite inst_value_VList. destruct (mapM_ok_or_In IH) as [[b ->]| ->]; simpl; [left; eauto|right; reflexivity].
Qed.

Lemma inst_kw_ok_or sg (kv:str * value) :
  ok_or EMissingParam (do x <- inst_value sg (snd kv); Ok (fst kv, x)).
Proof. destruct (inst_value_ok_or sg (snd kv)) as [[b ->]| ->]; simpl; [left; eauto|right; reflexivity]. Qed.

Lemma inst_op_ok_or sg o : ok_or EMissingParam (inst_op sg o).
Proof.
  unfold inst_op. destruct (oargs o) as [[ps kws]|]; [|left; eauto].
  destruct (mapM_ok_or ps (inst_value_ok_or sg)) as [[ps' ->]| ->]; simpl; [|right; reflexivity].
  destruct (mapM_ok_or kws (inst_kw_ok_or sg)) as [[kws' ->]| ->]; simpl; [left; eauto|right; reflexivity].
Qed.

(* the symbolic leaf VSym t occurs in a value (at any depth of a keyword list or an array) *)
Inductive sym_in (t:term) : value -> Prop :=
| SI_here : sym_in t (VSym t)
| SI_list l v : In v l -> sym_in t v -> sym_in t (VList l)
| SI_arr k r c es v : In v es -> sym_in t v -> sym_in t (VArr k r c es).

Lemma inst_value_missing sg t p v :
  sym_in t v -> In p (term_pars t) -> lookup p sg = None -> inst_value sg v = Refuse EMissingParam.
Proof.
  intros Hs HI L. induction Hs as [|l v Hv Hs IH|k r c es v Hv Hs IH].
  - simpl. destruct (all_in (term_pars t) (map fst sg)) eqn:A; [|reflexivity].
    unfold all_in in A. rewrite forallb_forall in A. apply A in HI. apply mem_str_In in HI.
    apply lookup_None in L. contradiction.
  - rewrite inst_value_VList. rewrite (mapM_refuse (inst_value_ok_or sg) Hv IH). reflexivity.
  - rewrite inst_value_VArr. rewrite (mapM_refuse (inst_value_ok_or sg) Hv IH). reflexivity.
Qed.

Theorem inst_op_missing sg o ps kws t p :
  In p (term_pars t) -> lookup p sg = None ->
  oargs o = Some (ps, kws) ->
  ((exists v, In v ps /\ sym_in t v) \/ exists k v, In (k, v) kws /\ sym_in t v) ->
  inst_op sg o = Refuse EMissingParam.
Proof.
  intros HI L A Hin. unfold inst_op. rewrite A.
  destruct Hin as [(v & Hin & Hs)|(k & v & Hin & Hs)].
  - rewrite (mapM_refuse (inst_value_ok_or sg) Hin (inst_value_missing Hs HI L)). reflexivity.
  - destruct (mapM_ok_or ps (inst_value_ok_or sg)) as [[ps' ->]| ->]; simpl; [|reflexivity].
    rewrite (mapM_refuse (inst_kw_ok_or sg) Hin); [reflexivity|].
    cbv beta. cbn [snd fst]. rewrite (inst_value_missing Hs HI L). reflexivity.
Qed.

(* a symbolic argument (or a symbolic element of a keyword list or of an array argument) mentioning a parameter
   without a value: the instantiation is refused *)
Theorem inst_missing_refused sg prog o ps kws t p :
  p_params prog <> [] ->
  In o (p_ops prog) -> oargs o = Some (ps, kws) ->
  ((exists v, In v ps /\ sym_in t v) \/ exists k v, In (k, v) kws /\ sym_in t v) ->
  In p (term_pars t) -> lookup p sg = None ->
  instantiate sg prog = Refuse EMissingParam.
Proof.
  intros Hp Ho A Hin HI L. unfold instantiate. destruct (p_params prog); [congruence|].
  rewrite (mapM_refuse (inst_op_ok_or sg) Ho (inst_op_missing HI L A Hin)). reflexivity.
Qed.

(* ================================================================== *)
(* C04.7  instantiation is substitution of values                       *)
(* ================================================================== *)
Section Den.
Variable K : Type.
Variables (kadd kmul kpow : K -> K -> K) (kneg kinv : K -> K) (kfn : fn -> K -> K) (kdec : Z -> Z -> K) (kpi ki : K).
Variable rho_reg : str -> K.

Fixpoint tden (rho_par:str -> K) (t:term) : K :=
  match t with
  | TDec m e => kdec m e
  | TPi => kpi
  | TI => ki
  | TPar p => rho_par p
  | TReg r => rho_reg r
  | TAdd a b => kadd (tden rho_par a) (tden rho_par b)
  | TMul a b => kmul (tden rho_par a) (tden rho_par b)
  | TNeg a => kneg (tden rho_par a)
  | TInv a => kinv (tden rho_par a)
  | TPow a b => kpow (tden rho_par a) (tden rho_par b)
  | TFn f a => kfn f (tden rho_par a)
  end.

Theorem subst_term_den rho_par sg t :
  tden rho_par (subst_term sg t) =
  tden (fun p => match lookup p sg with Some u => tden rho_par u | None => rho_par p end) t.
Proof.
  induction t; simpl; try congruence.
  destruct (lookup s sg); reflexivity.
Qed.

(* a term without parameters does not depend on the parameter valuation *)
Lemma tden_closed rho1 rho2 t : term_pars t = [] -> tden rho1 t = tden rho2 t.
Proof.
  induction t; simpl; intro H; try discriminate; auto;
    try (apply app_eq_nil in H; destruct H; rewrite IHt1, IHt2; auto);
    try (rewrite IHt; auto).
Qed.
End Den.

(* ================================================================== *)
(* C07.8  refused applications of an included program                   *)
(* ================================================================== *)
Theorem expand_arity_refused inc o :
  length (sortZ (p_modes inc)) <> length (omodes o) -> expand_include inc o = Refuse EIncludeArity.
Proof. intro H. unfold expand_include. apply Nat.eqb_neq in H. rewrite H. reflexivity. Qed.

Lemma expand_include_arity_ok inc o :
  length (sortZ (p_modes inc)) = length (omodes o) ->
  expand_include inc o =
  do body <-
      match oargs o with
      | Some (_, kws) =>
          match p_params inc with
          | [] => Refuse EIncludeKw
          | _ =>
              if same_set (p_params inc) (map fst kws) then
                do sg <- mapM (fun kv => match value_term (snd kv) with
                                        | Some t => Ok (fst kv, t)
                                        | None => Unspec end) kws;
                do q <- instantiate sg inc; Ok (p_ops q)
              else Refuse EIncludeKw
          end
      | None => match p_params inc with [] => Ok (p_ops inc) | _ => Refuse EIncludeMissing end
      end;
    mapM (fun b => do ms' <- mapM (fun m => match lookupZ m (combine (sortZ (p_modes inc)) (omodes o)) with
                                            | Some m' => Ok m' | None => Unspec end) (omodes b);
                   Ok (mkop (oname b) (oargs b) ms')) body.
Proof. intro H. unfold expand_include. apply Nat.eqb_eq in H. rewrite H. reflexivity. Qed.

(* arguments given to a program without parameters *)
Theorem expand_kw_refused_noparams inc o ps kws :
  length (sortZ (p_modes inc)) = length (omodes o) ->
  oargs o = Some (ps, kws) -> p_params inc = [] -> expand_include inc o = Refuse EIncludeKw.
Proof. intros H A P. rewrite expand_include_arity_ok; auto. rewrite A, P. reflexivity. Qed.

(* keyword names differ from the parameters *)
Theorem expand_kw_refused_names inc o ps kws :
  length (sortZ (p_modes inc)) = length (omodes o) ->
  oargs o = Some (ps, kws) -> same_set (p_params inc) (map fst kws) = false ->
  expand_include inc o = Refuse EIncludeKw.
Proof.
  intros H A P. rewrite expand_include_arity_ok; auto. rewrite A, P.
  destruct (p_params inc); reflexivity.
Qed.

(* no arguments given to a template *)
Theorem expand_missing_refused inc o :
  length (sortZ (p_modes inc)) = length (omodes o) ->
  oargs o = None -> p_params inc <> [] -> expand_include inc o = Refuse EIncludeMissing.
Proof.
  intros H A P. rewrite expand_include_arity_ok; auto. rewrite A.
  destruct (p_params inc); [congruence|reflexivity].
Qed.

Lemma all_in_spec l keys : all_in l keys = true <-> (forall p, In p l -> In p keys).
Proof.
  unfold all_in. rewrite forallb_forall. split; intros H p HI.
  - apply mem_str_In; auto.
  - apply mem_str_In; auto.
Qed.

Lemma same_set_spec a b : same_set a b = true <-> (forall p, In p a <-> In p b).
Proof.
  unfold same_set. rewrite andb_true_iff, !all_in_spec. split.
  - intros [H1 H2] p; split; auto.
  - intro H; split; intros p; apply H.
Qed.

(* ================================================================== *)
(* C07.9  sortZ: modes in increasing order; expansion is a renaming     *)
(* ================================================================== *)
Lemma sortZ_insert_perm x l : Permutation (sortZ_insert x l) (x :: l).
Proof.
  induction l as [|y l IH]; simpl; auto.
  destruct (Z.leb x y); auto.
  eapply perm_trans; [apply perm_skip; exact IH|apply perm_swap].
Qed.

Theorem sortZ_perm l : Permutation (sortZ l) l.
Proof.
  induction l as [|x l IH]; simpl; auto.
  eapply perm_trans; [apply sortZ_insert_perm|]. apply perm_skip; auto.
Qed.

Lemma sortZ_insert_sorted x l : Sorted Z.le l -> Sorted Z.le (sortZ_insert x l).
Proof.
  induction l as [|y l IH]; simpl; intro H.
  - repeat constructor.
  - destruct (Z.leb x y) eqn:E.
    + apply Z.leb_le in E. constructor; auto.
    + apply Z.leb_gt in E. inversion H; subst. constructor; auto.
      destruct l as [|z l]; simpl.
      * constructor; lia.
      * destruct (Z.leb x z); constructor; try lia. inversion H3; auto.
Qed.

Theorem sortZ_sorted l : Sorted Z.le (sortZ l).
Proof. induction l as [|x l IH]; simpl; [constructor|]. apply sortZ_insert_sorted; auto. Qed.

Lemma sortZ_length l : length (sortZ l) = length l.
Proof. apply Permutation_length, sortZ_perm. Qed.

Lemma sortZ_In l m : In m (sortZ l) <-> In m l.
Proof.
  split; apply Permutation_in; [apply sortZ_perm|apply Permutation_sym, sortZ_perm].
Qed.

Definition rename (mm:list (Z * Z)) (m:Z) : Z := match lookupZ m mm with Some m' => m' | None => m end.

Lemma lookupZ_In k l v : lookupZ k l = Some v -> In (k, v) l.
Proof.
  induction l as [|[k' v'] l IH]; simpl; intro H; [discriminate|].
  destruct (Z.eqb k k') eqn:E.
  - apply Z.eqb_eq in E. inversion H; subst; auto.
  - auto.
Qed.

Lemma lookupZ_combine_some k ks vs :
  length ks = length vs -> In k ks -> exists v, lookupZ k (combine ks vs) = Some v.
Proof.
  revert vs; induction ks as [|k' ks IH]; intros [|v vs]; simpl; intros HL HI; try contradiction; try discriminate.
  destruct (Z.eqb k k') eqn:E; eauto.
  destruct HI as [->|HI]; [rewrite Z.eqb_refl in E; discriminate|]. apply IH; auto.
Qed.

Lemma lookupZ_combine_nodup ks vs i k v :
  NoDup ks -> nth_error ks i = Some k -> nth_error vs i = Some v -> lookupZ k (combine ks vs) = Some v.
Proof.
  revert vs i; induction ks as [|k' ks IH]; intros [|v' vs] [|i]; simpl; intros ND H1 H2; try discriminate.
  - inversion H1; inversion H2; subst. rewrite Z.eqb_refl. reflexivity.
  - inversion ND; subst. destruct (Z.eqb k k') eqn:E.
    + apply Z.eqb_eq in E. subst. apply nth_error_In in H1. contradiction.
    + eapply IH; eauto.
Qed.

Lemma mapM_rename mm l :
  (forall m, In m l -> exists v, lookupZ m mm = Some v) ->
  mapM (fun m => match lookupZ m mm with Some m' => Ok m' | None => Unspec end) l = Ok (map (rename mm) l).
Proof.
  induction l as [|m l IH]; simpl; intro H; auto.
  destruct (H m (or_introl eq_refl)) as [v L]. unfold rename at 1. rewrite L. simpl.
  rewrite IH; auto.
Qed.

Lemma mapM_map_In A B (f:A -> outcome B) (g:A -> B) l :
  (forall x, In x l -> f x = Ok (g x)) -> mapM f l = Ok (map g l).
Proof.
  induction l as [|a l IH]; simpl; intro H; auto.
  rewrite (H a (or_introl eq_refl)). simpl. rewrite IH; auto.
Qed.

Theorem expand_is_rename inc o :
  oargs o = None -> p_params inc = [] ->
  length (sortZ (p_modes inc)) = length (omodes o) ->
  (forall b m, In b (p_ops inc) -> In m (omodes b) -> In m (p_modes inc)) ->
  exists body,
    expand_include inc o = Ok body /\ length body = length (p_ops inc) /\
    forall i b, nth_error (p_ops inc) i = Some b ->
      exists b', nth_error body i = Some b' /\ oname b' = oname b /\ oargs b' = oargs b /\
                 omodes b' = map (rename (combine (sortZ (p_modes inc)) (omodes o))) (omodes b).
Proof.
  intros A P HL Hm. rewrite expand_include_arity_ok; auto. rewrite A, P. simpl.
  set (mm := combine (sortZ (p_modes inc)) (omodes o)).
  exists (map (fun b => mkop (oname b) (oargs b) (map (rename mm) (omodes b))) (p_ops inc)).
  split; [|split].
  - apply mapM_map_In. intros b Hb. rewrite mapM_rename; [reflexivity|].
    intros m Hmb. apply lookupZ_combine_some; auto. apply sortZ_In. eauto.
  - apply map_length.
  - intros i b Hi. eexists. split; [apply map_nth_error; exact Hi|]. simpl. auto.
Qed.

(* general shape of a successful expansion: the source operations are those of the included program (instantiated
   when it is a template: same names and modes), each with its modes looked up in the renaming *)
Lemma expand_include_inv inc o body :
  expand_include inc o = Ok body ->
  length (sortZ (p_modes inc)) = length (omodes o) /\
  exists src,
    Forall2 (fun b s => oname s = oname b /\ omodes s = omodes b) (p_ops inc) src /\
    Forall2 (fun s b' => oname b' = oname s /\ oargs b' = oargs s /\
                         Forall2 (fun m m' => lookupZ m (combine (sortZ (p_modes inc)) (omodes o)) = Some m')
                                 (omodes s) (omodes b')) src body.
Proof.
  intro H.
  assert (HL: length (sortZ (p_modes inc)) = length (omodes o)).
  { destruct (Nat.eq_dec (length (sortZ (p_modes inc))) (length (omodes o))) as [e|n]; auto.
    rewrite (expand_arity_refused n) in H. discriminate. }
  split; auto. rewrite expand_include_arity_ok in H; auto. binv H. exists x. split.
  - destruct (oargs o) as [[ps kws]|].
    + destruct (p_params inc) eqn:P; [discriminate|].
      match type of E with context[same_set ?a ?b] => destruct (same_set a b) end; [|discriminate].
      binv E. binv E. inversion E; subst. apply inst_ops_rel in E1.
      eapply Forall2_imp; [|exact E1]. intros a b (H1 & H2 & _). auto.
    + destruct (p_params inc); [|discriminate]. inversion E; subst.
      apply Forall2_refl_In. auto.
  - apply mapM_Forall2 in H. eapply Forall2_imp; [|exact H]. intros a b Hab. simpl in Hab.
    binv Hab. inversion Hab; subst; simpl. repeat split; auto.
    apply mapM_Forall2 in E0. eapply Forall2_imp; [|exact E0]. intros m m' Hm. simpl in Hm.
    destruct (lookupZ m (combine (sortZ (p_modes inc)) (omodes o))); [inversion Hm; reflexivity|discriminate].
Qed.

(* ================================================================== *)
(* C15.11  p-type arrays are passed by name under tdm                   *)
(* ================================================================== *)
Theorem pname_by_name incs s ty x shape rows l c s' :
  is_ptype x = true ->
  exec_item incs true s (IArray ty (DName x) shape (ARows rows) l c) = Ok s' ->
  In x (s_pnames s') /\ exists k r cc elems, lookup x (s_env s') = Some (VArr k r cc elems).
Proof.
  intros Hp H. apply exec_array_inv in H. destruct H as (x0 & rows0 & Hx & Hr & R).
  inversion Hx; inversion Hr; subst x0 rows0.
  destruct R; subst s'; simpl;
    (split; [unfold pn_after; simpl; rewrite Hp; apply in_or_app; right; simpl; auto
            |do 4 eexists; apply lookup_dict_set_same]).
Qed.

(* ... and only then *)
Theorem pname_only_tdm_ptype incs tdm s ty x shape rows l c s' :
  (tdm && is_ptype x)%bool = false ->
  exec_item incs tdm s (IArray ty (DName x) shape (ARows rows) l c) = Ok s' -> s_pnames s' = s_pnames s.
Proof.
  intros Hp H. apply exec_array_inv in H. destruct H as (x0 & rows0 & Hx & Hr & R).
  inversion Hx; inversion Hr; subst x0 rows0.
  destruct R; subst s'; simpl; unfold pn_after; rewrite Hp; reflexivity.
Qed.

Theorem pname_eval env pn x k r c elems l0 c0 :
  mem_str x pn = true -> lookup x env = Some (VArr k r c elems) -> eval env pn (EVar x l0 c0) = Ok (VPName x).
Proof. intros M L. simpl. rewrite L, M. reflexivity. Qed.

Theorem non_pname_by_value env pn x v l0 c0 :
  mem_str x pn = false -> lookup x env = Some v -> eval env pn (EVar x l0 c0) = Ok v.
Proof. intros M L. simpl. rewrite L, M. reflexivity. Qed.

Lemma remove_first_In x l p : In p (remove_first x l) -> In p l.
Proof.
  induction l as [|y l IH]; simpl; auto.
  destruct (str_eqb x y); simpl; auto. intros [H|H]; auto.
Qed.

Lemma tmpl_names_In q rn cn p : In p (tmpl_names q rn cn) -> exists i j, p = sub_name q i j.
Proof.
  unfold tmpl_names. rewrite in_flat_map. intros [i [_ H]]. rewrite in_map_iff in H.
  destruct H as [j [H _]]. eauto.
Qed.

(* declaring an array registers only the syntactic {} parameters (or the generated names of an array template):
   the array's own name is never registered as a parameter because it is a p-name *)
Theorem pnames_not_params incs tdm s ty x shape rows l c s' :
  exec_item incs tdm s (IArray ty (DName x) shape (ARows rows) l c) = Ok s' ->
  forall p, In p (s_pars s') ->
    In p (s_pars s) \/ In p (flat_map expr_pars (concat rows)) \/
    exists q i j, rows = [[EPar q]] /\ p = sub_name q i j.
Proof.
  intros H p Hp. apply exec_array_inv in H. destruct H as (x0 & rows0 & Hx & Hr & R).
  inversion Hx; inversion Hr; subst x0 rows0.
  destruct R; subst s'; simpl in Hp; apply add_new_In in Hp; destruct Hp as [Hp|Hp]; auto.
  - left. eapply remove_first_In; eauto.
  - right; right. apply tmpl_names_In in Hp. destruct Hp as (i & j & ->). eauto.
Qed.

(* ================================================================== *)
(* C02.3  operations in script order (no loops, no includes)            *)
(* ================================================================== *)
Fixpoint stmts_of (items:list item) : list stmt :=
  match items with
  | [] => []
  | IStmt t :: r => t :: stmts_of r
  | _ :: r => stmts_of r
  end.

Definition simple_item (it:item) : Prop := match it with IFor _ _ _ _ => False | _ => True end.

Lemma exec_decl_ops_same incs tdm s it s' :
  match it with IScalar _ _ _ _ _ | IArray _ _ _ _ _ _ => True | _ => False end ->
  exec_item incs tdm s it = Ok s' -> s_ops s' = s_ops s /\ s_modes s' = s_modes s.
Proof.
  destruct it as [ty n init l c|ty n shape body l c|t|ty x h body]; intros Hk H; try contradiction.
  - unfold exec_item in H. binv H. binv H. binv H. inversion H; subst. auto.
  - apply exec_array_inv in H. destruct H as (x & rows & _ & _ & R). destruct R; subst; auto.
Qed.

Theorem ops_in_order tdm items : forall s s',
  (forall it, In it items -> simple_item it) ->
  exec_items [] tdm s items = Ok s' ->
  exists new, s_ops s' = s_ops s ++ new /\
              map oname new = map sop (stmts_of items) /\
              Forall2 (fun o t => length (omodes o) = length (smodes t)) new (stmts_of items) /\
              length (s_ops s') = length (s_ops s) + length (stmts_of items).
Proof.
  induction items as [|it items IH]; simpl; intros s s' Hs H.
  - inversion H; subst. exists []. rewrite app_nil_r. repeat split; auto.
  - binv H. assert (Hs': forall it, In it items -> simple_item it) by auto.
    destruct (IH _ _ Hs' H) as (n2 & A2 & B2 & F2 & C2).
    destruct it as [ty n init l c|ty n shape body l c|t|ty y h body].
    + apply exec_decl_ops_same in E; simpl; auto. destruct E as [E _]. rewrite E in *. exists n2. auto.
    + apply exec_decl_ops_same in E; simpl; auto. destruct E as [E _]. rewrite E in *. exists n2. auto.
    + simpl in E. apply exec_stmt_plain in E; [|reflexivity].
      destruct E as (ms & a & _ & _ & E & L & _). rewrite E in *.
      exists (mkop (sop t) (wrap_args a) ms :: n2). repeat split.
      * rewrite A2, <- app_assoc. reflexivity.
      * simpl. rewrite B2; reflexivity.
      * simpl. constructor; auto.
      * rewrite C2, app_length. simpl. lia.
    + exfalso. apply (Hs (IFor ty y h body)). auto.
Qed.

(* ================================================================== *)
(* C02.4  the modes of a program are exactly the modes its operations act on *)
(* ================================================================== *)
Definition ModesInv (ops:list op) (modes:list Z) : Prop :=
  (forall m, In m modes <-> exists o, In o ops /\ In m (omodes o)) /\ NoDup modes.
Definition st_modes_ok (s:st) : Prop := ModesInv (s_ops s) (s_modes s).
Definition prog_modes_ok (p:prog) : Prop := ModesInv (p_ops p) (p_modes p).

(* the body of an application uses exactly the modes of the call *)
Lemma expand_modes inc o body :
  prog_modes_ok inc -> expand_include inc o = Ok body ->
  forall m, In m (omodes o) <-> exists b', In b' body /\ In m (omodes b').
Proof.
  intros [Hinc ND] H m. apply expand_include_inv in H. destruct H as (HL & src & F1 & F2).
  set (ks := sortZ (p_modes inc)) in *.
  split.
  - intro Hm. apply In_nth_error in Hm. destruct Hm as [i Hi].
    assert (Hk: exists k, nth_error ks i = Some k).
    { destruct (nth_error ks i) eqn:N; eauto. apply nth_error_None in N.
      assert (i < length (omodes o)) by (apply nth_error_Some; congruence). lia. }
    destruct Hk as [k Hk].
    assert (NDk: NoDup ks) by (eapply Permutation_NoDup; [apply Permutation_sym, sortZ_perm|exact ND]).
    pose proof (lookupZ_combine_nodup NDk Hk Hi) as Lk.
    assert (Hkin: In k (p_modes inc)) by (apply sortZ_In; eapply nth_error_In; eauto).
    apply Hinc in Hkin. destruct Hkin as (b & Hb & Hkb).
    destruct (Forall2_In_l F1 Hb) as (sb & Hsb & _ & Hms).
    destruct (Forall2_In_l F2 Hsb) as (b' & Hb' & _ & _ & Fm).
    rewrite Hms in Fm. destruct (Forall2_In_l Fm Hkb) as (m' & Hm' & Lm').
    exists b'. split; auto. congruence.
  - intros (b' & Hb' & Hm).
    destruct (Forall2_In_r F2 Hb') as (sb & _ & _ & _ & Fm).
    destruct (Forall2_In_r Fm Hm) as (k & _ & Lk).
    apply lookupZ_In in Lk. eapply in_combine_r; eauto.
Qed.

Section Modes.
Variable incs : list (str * prog).
Variable tdm : bool.
Hypothesis incs_ok : forall nm inc, lookup nm incs = Some inc -> prog_modes_ok inc.

Lemma exec_stmt_modes s t s' : st_modes_ok s -> exec_stmt incs s t = Ok s' -> st_modes_ok s'.
Proof.
  intros [Hs ND] H. apply exec_stmt_inv in H. destruct H as (mvs & ms & a & new & _ & _ & _ & Hn & ->).
  assert (Hnew: forall m, In m ms <-> exists o, In o new /\ In m (omodes o)).
  { destruct (lookup (sop t) incs) as [inc|] eqn:L.
    - intro m. apply (expand_modes (incs_ok L) Hn).
    - subst new. intro m. split.
      + intro; eexists; split; [left; reflexivity|]; auto.
      + intros (o & [<-|[]] & Hm). exact Hm. }
  split; simpl.
  - intro m. rewrite add_newZ_In, Hs, Hnew. split.
    + intros [(o & Ho & Hm)|(o & Ho & Hm)]; exists o; rewrite in_app_iff; auto.
    + intros (o & Ho & Hm). apply in_app_iff in Ho. destruct Ho; eauto.
  - apply add_newZ_NoDup; auto.
Qed.

Theorem exec_item_modes s it s' : st_modes_ok s -> exec_item incs tdm s it = Ok s' -> st_modes_ok s'.
Proof.
  intros Hs H. destruct it as [ty n init l c|ty n shape body l c|t|ty x h body].
  - apply exec_decl_ops_same in H; simpl; auto. destruct H as [H1 H2]. unfold st_modes_ok. rewrite H1, H2. exact Hs.
  - apply exec_decl_ops_same in H; simpl; auto. destruct H as [H1 H2]. unfold st_modes_ok. rewrite H1, H2. exact Hs.
  - eapply exec_stmt_modes; eauto.
  - apply exec_for_inv in H. destruct H as (vals & s1 & _ & _ & H & ->).
    change (st_modes_ok s1).
    eapply for_iter_ind with (P := st_modes_ok); [| | |exact H].
    + intros s2 v v' HP _ _. exact HP.
    + intros s2 t s3 HP _ H2. eapply exec_stmt_modes; eauto.
    + exact Hs.
Qed.

Theorem exec_items_modes items : forall s s',
  st_modes_ok s -> exec_items incs tdm s items = Ok s' -> st_modes_ok s'.
Proof.
  induction items as [|it items IH]; simpl; intros s s' Hs H.
  - inversion H; subst; auto.
  - binv H. eapply IH; [|exact H]. eapply exec_item_modes; eauto.
Qed.
End Modes.

Lemma modes_init : st_modes_ok (mkst [] [] [] [] []).
Proof. split; simpl; [|constructor]. intro m; split; [contradiction|]. intros (o & [] & _). Qed.

(* with included programs that satisfy the property *)
Theorem modes_union_incs incs sc p :
  (forall nm inc, lookup nm incs = Some inc -> prog_modes_ok inc) ->
  denote incs sc = Ok p ->
  (forall m, In m (p_modes p) <-> exists o, In o (p_ops p) /\ In m (omodes o)) /\ NoDup (p_modes p).
Proof.
  intros Hi H. apply denote_inv in H. destruct H as (s & H & -> & -> & _).
  eapply exec_items_modes; eauto. apply modes_init.
Qed.

Theorem modes_union sc p :
  denote [] sc = Ok p ->
  (forall m, In m (p_modes p) <-> exists o, In o (p_ops p) /\ In m (omodes o)) /\ NoDup (p_modes p).
Proof. apply modes_union_incs. intros nm inc H. discriminate. Qed.

(* ================================================================== *)
(* C07.10  an application does not depend on the loading history        *)
(* ================================================================== *)
Theorem exec_stmt_history_independent incs s1 s2 t s1' :
  s_env s1 = s_env s2 -> s_pnames s1 = s_pnames s2 ->
  exec_stmt incs s1 t = Ok s1' ->
  exists new s2', s_ops s1' = s_ops s1 ++ new /\ exec_stmt incs s2 t = Ok s2' /\ s_ops s2' = s_ops s2 ++ new.
Proof.
  intros He Hp H. apply exec_stmt_inv in H. destruct H as (mvs & ms & a & new & H1 & H2 & H3 & H4 & ->).
  exists new. unfold exec_stmt. rewrite <- He, <- Hp, H1. simpl. rewrite H2. simpl. rewrite H3. simpl.
  fold (wrap_args a).
  destruct (lookup (sop t) incs) as [inc|].
  - rewrite H4. simpl. eexists. repeat split.
  - subst new. eexists. repeat split.
Qed.

(* expand_include is a function of the included program and the call alone (it is a Coq function of these two
   arguments); in particular equal calls expand equally *)
Theorem expand_independent_of_history inc o1 o2 :
  oname o1 = oname o2 -> oargs o1 = oargs o2 -> omodes o1 = omodes o2 ->
  expand_include inc o1 = expand_include inc o2.
Proof. destruct o1, o2; simpl; intros; subst; reflexivity. Qed.

(* ================================================================== *)
(* C04.5  every parameter occurring in the program is a registered parameter *)
(* ================================================================== *)
Definition term_closed_in (ps:list str) (t:term) : Prop := forall p, In p (term_pars t) -> In p ps.
Definition value_closed_in (ps:list str) (v:value) : Prop := forall p, In p (value_pars v) -> In p ps.
Definition op_closed_in (ps:list str) (o:op) : Prop := forall p, In p (op_pars o) -> In p ps.
Definition env_closed_in (ps:list str) (env:list (str * value)) : Prop :=
  forall x v, In (x, v) env -> value_closed_in ps v.
Definition st_closed (s:st) : Prop :=
  env_closed_in (s_pars s) (s_env s) /\ (forall o, In o (s_ops s) -> op_closed_in (s_pars s) o).

Ltac binv_as H x :=
  let E := fresh "E" in apply bind_ok in H; destruct H as [x [E H]].

Lemma mkint_pars z v : mkint z = Ok v -> forall sym, vpars sym v = [].
Proof. unfold mkint. destruct (int64_ok z); intro H; inversion H; reflexivity. Qed.

Definition cpx_body (neg1:bool) (s1:str) : option term :=
  match parse_real_prefix s1 with
  | Some (m1, e1, r1) =>
      let m1' := if neg1 then (- m1)%Z else m1 in
      match r1 with
      | [c] => if is_j c then Some (TAdd (TDec 0 0) (TMul (TDec m1' e1) TI)) else None
      | sg :: r2 =>
          let sign2 := if N.eqb sg 43 then Some false else if N.eqb sg 45 then Some true else None in
          match sign2, parse_real_prefix r2 with
          | Some neg2, Some (m2, e2, [c]) =>
              if is_j c then Some (TAdd (TDec m1' e1) (TMul (TDec (if neg2 then (- m2)%Z else m2) e2) TI)) else None
          | _, _ => None
          end
      | [] => None
      end
  | None => None
  end.

Lemma parse_complex_eq s :
  parse_complex s =
  let '(neg1, s1) := match s with 43%N :: r => (false, r) | 45%N :: r => (true, r) | _ => (false, s) end in
  cpx_body neg1 s1.
Proof. reflexivity. Qed.

Lemma let_pair A B C (M:A * B) (f:A -> B -> C) : (let '(a, b) := M in f a b) = f (fst M) (snd M).
Proof. destruct M; reflexivity. Qed.

Lemma cpx_body_pars neg1 s1 t : cpx_body neg1 s1 = Some t -> term_pars t = [].
Proof.
  unfold cpx_body.
  destruct (parse_real_prefix s1) as [[[m1 e1] r1]|]; [|discriminate].
  destruct r1 as [|c r2]; [discriminate|].
  destruct r2 as [|c2 r3].
  - destruct (is_j c); intro H; inversion H; reflexivity.
  - cbv zeta.
    destruct (N.eqb c 43); [|destruct (N.eqb c 45); [|discriminate]];
      (destruct (parse_real_prefix (c2 :: r3)) as [[[m2 e2] r4]|]; [|discriminate];
       destruct r4 as [|c4 [|]]; try discriminate;
       destruct (is_j c4); intro H; inversion H; reflexivity).
Qed.

Lemma parse_complex_pars s t : parse_complex s = Some t -> term_pars t = [].
Proof. rewrite parse_complex_eq, let_pair. apply cpx_body_pars. Qed.

Lemma num_value_pars sym k text v : num_value k text = Ok v -> vpars sym v = [].
Proof.
  destruct k; simpl.
  - destruct (parse_digits text); [intro H; apply (mkint_pars H)|discriminate].
  - unfold parse_float. destruct (parse_real_prefix text) as [[[m e] r]|]; [|discriminate].
    destruct r; [|discriminate]. intro H; inversion H; reflexivity.
  - destruct (parse_complex text) eqn:P; [|discriminate]. intro H; inversion H; subst. simpl.
    eapply parse_complex_pars; eauto.
  - intro H; inversion H; reflexivity.
Qed.

Ltac arith_fin H Hp :=
  simpl in H; try discriminate;
  try (rewrite (mkint_pars H) in Hp; contradiction);
  inversion H; subst; simpl in Hp; simpl;
  try contradiction; try (apply in_app_or in Hp); tauto.

Lemma v_neg_pars sym a v p : v_neg a = Ok v -> In p (vpars sym v) -> In p (vpars sym a).
Proof. intros H Hp. destruct sym; destruct a; arith_fin H Hp. Qed.

Lemma v_add_pars sym sub a b v p :
  v_add sub a b = Ok v -> In p (vpars sym v) -> In p (vpars sym a) \/ In p (vpars sym b).
Proof. intros H Hp. destruct sym; destruct sub; destruct a, b; arith_fin H Hp. Qed.

Lemma v_mul_pars sym a b v p :
  v_mul a b = Ok v -> In p (vpars sym v) -> In p (vpars sym a) \/ In p (vpars sym b).
Proof. intros H Hp. destruct sym; destruct a, b; arith_fin H Hp. Qed.

Lemma v_div_pars sym a b v p :
  v_div a b = Ok v -> In p (vpars sym v) -> In p (vpars sym a) \/ In p (vpars sym b).
Proof. intros H Hp. destruct sym; destruct b as [[| |]| | | | | | | | |]; destruct a; arith_fin H Hp. Qed.

Lemma v_pow_pars sym a b v p :
  v_pow a b = Ok v -> In p (vpars sym v) -> In p (vpars sym a) \/ In p (vpars sym b).
Proof.
  intros H Hp. destruct a as [x| | | | | | | | |], b as [y| | | | | | | | |]; try (destruct sym; arith_fin H Hp).
  simpl in H. destruct (Z.leb 0 y).
  - destruct (Z.leb y 4096); [|discriminate]. rewrite (mkint_pars H) in Hp. contradiction.
  - destruct (Z.eqb x 0); [discriminate|]. inversion H; subst. simpl in Hp. contradiction.
Qed.

Lemma v_fn_pars sym f a v p : v_fn f a = Ok v -> In p (vpars sym v) -> In p (vpars sym a).
Proof. intros H Hp. destruct sym; destruct a; arith_fin H Hp. Qed.

Lemma cast_scalar_pars sym ty v v' p : cast_scalar ty v = Ok v' -> In p (vpars sym v') -> In p (vpars sym v).
Proof. intros H Hp. destruct sym; destruct ty, v; arith_fin H Hp. Qed.

Lemma cast_elem_pars sym ty v v' p : cast_elem ty v = Ok v' -> In p (vpars sym v') -> In p (vpars sym v).
Proof. intros H Hp. destruct sym; destruct ty, v; arith_fin H Hp. Qed.

Lemma cast_loop_pars sym ty v v' p : cast_loop ty v = Ok v' -> In p (vpars sym v') -> In p (vpars sym v).
Proof.
  intros H Hp. destruct ty, v; try (destruct sym; arith_fin H Hp).
  - (* VTInt, VFlt *) simpl in H. destruct t; try discriminate.
    destruct (dec_int m e); [|destruct (dec_nonint m e); discriminate].
    rewrite (mkint_pars H) in Hp. contradiction.
  - (* VTBool, VInt *) simpl in H. destruct z as [|[q|q|]|q]; try discriminate; inversion H; subst; contradiction.
Qed.

Lemma wrap_transform_pars sym v : vpars sym (wrap_transform v) = vpars sym v.
Proof. destruct v; simpl; auto. destruct (has_reg t); reflexivity. Qed.

(* [Qin sym ps p]: p is one of the registered parameters ps when every parameter is counted (sym = true);
   impossible when only parameters inside numbers are counted (sym = false: there is none at all) *)
Definition Qin (sym:bool) (ps:list str) (p:str) : Prop := if sym then In p ps else False.

Lemma Qin_mono sym ps ps' p : (forall q, In q ps -> In q ps') -> Qin sym ps p -> Qin sym ps' p.
Proof. destruct sym; simpl; auto. Qed.

Lemma Qin_intro sym ps p : sym = true -> In p ps -> Qin sym ps p.
Proof. intros ->; auto. Qed.

Section EvalPars.
Variable env : list (str * value).
Variable pn : list str.
Variable sym : bool.
Variable Q : str -> Prop.
Hypothesis env_ok : forall x w, In (x, w) env -> forall p, In p (vpars sym w) -> Q p.

(* evaluation introduces only parameters written in the expression or already present in the environment; the
   written parameters end up in symbolic values only (with sym = false nothing is assumed about them) *)
Lemma eval_pars e : forall v,
  (sym = true -> forall p, In p (expr_pars e) -> Q p) -> eval env pn e = Ok v -> forall p, In p (vpars sym v) -> Q p.
Proof.
  induction e as [k text|x l c|text|x l c ie IH|q|a IH|neg a IH|a IHa b IHb|dv a IHa b IHb|sub a IHa b IHb|f a IH];
    intros v He H p Hp; simpl in H.
  - rewrite (num_value_pars sym H) in Hp. contradiction.
  - destruct (lookup x env) as [w|] eqn:L; [|discriminate]. apply lookup_In in L.
    destruct (mem_str x pn).
    + destruct w; try discriminate. inversion H; subst. contradiction.
    + inversion H; subst. eauto.
  - inversion H; subst. simpl in Hp. destruct sym; contradiction.
  - binv_as H iv. destruct (lookup x env) as [w|] eqn:L; [|discriminate]. apply lookup_In in L.
    destruct w; try discriminate. destruct iv as [z| | | | | | | | |]; try discriminate.
    destruct (Z.ltb z 0); [discriminate|].
    destruct (nth_error elems (Z.to_nat z)) eqn:N; [|discriminate]. inversion H; subst.
    apply nth_error_In in N. eapply env_ok; [exact L|]. simpl. apply in_flat_map. eauto.
  - inversion H; subst. simpl in Hp. destruct sym; [|contradiction]. destruct Hp as [<-|[]]. apply He; simpl; auto.
  - eapply IH; eauto.
  - simpl in He. destruct neg.
    + binv_as H w. eapply IH; eauto. eapply v_neg_pars; eauto.
    + eapply IH; eauto.
  - simpl in He. binv_as H va. binv_as H vb.
    destruct (v_pow_pars H Hp); [eapply IHa|eapply IHb]; eauto; intros Hs q Hq; apply (He Hs); apply in_or_app; auto.
  - simpl in He. destruct dv; binv_as H va; binv_as H vb.
    + destruct (v_div_pars H Hp); [eapply IHa|eapply IHb]; eauto; intros Hs q Hq; apply (He Hs); apply in_or_app; auto.
    + destruct (v_mul_pars H Hp); [eapply IHa|eapply IHb]; eauto; intros Hs q Hq; apply (He Hs); apply in_or_app; auto.
  - simpl in He. binv_as H va. binv_as H vb.
    destruct (v_add_pars H Hp); [eapply IHa|eapply IHb]; eauto; intros Hs q Hq; apply (He Hs); apply in_or_app; auto.
  - simpl in He. binv_as H va. eapply IH; eauto. eapply v_fn_pars; eauto.
Qed.

Lemma eval_val_pars w v :
  (sym = true -> forall p, In p (val_pars w) -> Q p) -> eval_val env pn w = Ok v ->
  forall p, In p (vpars sym v) -> Q p.
Proof.
  destruct w; simpl; intros Hw H p Hp.
  - eapply eval_pars; eauto.
  - inversion H; subst. contradiction.
  - inversion H; subst. contradiction.
Qed.

Lemma mapM_eval_val_pars ws vs :
  (sym = true -> forall p, In p (flat_map val_pars ws) -> Q p) -> mapM (eval_val env pn) ws = Ok vs ->
  forall p, In p (flat_map (vpars sym) vs) -> Q p.
Proof.
  intros Hw H p Hp. apply in_flat_map in Hp. destruct Hp as (v & Hv & Hp).
  destruct (mapM_In H Hv) as (w & Hw' & E). eapply eval_val_pars; [|exact E|exact Hp].
  intros Hs q Hq. apply (Hw Hs). apply in_flat_map. eauto.
Qed.

Lemma kw_go_nil acc : kw_go env pn [] acc = Ok acc.
Proof. reflexivity. Qed.
Lemma kw_go_kv k v l acc :
  kw_go env pn ((k, KV v) :: l) acc = do x <- eval_val env pn v; kw_go env pn l (dict_set k x acc).
Proof. reflexivity. Qed.
Lemma kw_go_kl_nil k l acc : kw_go env pn ((k, KL []) :: l) acc = kw_go env pn l acc.
Proof. reflexivity. Qed.
Lemma kw_go_kl_cons k v0 vs l acc :
  kw_go env pn ((k, KL (v0 :: vs)) :: l) acc =
  do xs <- mapM (eval_val env pn) (v0 :: vs); kw_go env pn l (dict_set k (VList xs) acc).
Proof. reflexivity. Qed.

Lemma kw_go_pars l : forall acc r,
  (sym = true -> forall p, In p (flat_map (fun kv => kwval_pars (snd kv)) l) -> Q p) ->
  (forall k v, In (k, v) acc -> forall p, In p (vpars sym v) -> Q p) ->
  kw_go env pn l acc = Ok r ->
  forall k v, In (k, v) r -> forall p, In p (vpars sym v) -> Q p.
Proof.
  induction l as [|[k0 [w|[|w0 ws]]] l IH]; intros acc r Hl Hacc H.
  - rewrite kw_go_nil in H. inversion H; subst. exact Hacc.
  - rewrite kw_go_kv in H. binv_as H xv. eapply IH; [| |exact H].
    + intros Hs p Hp. apply (Hl Hs). simpl. apply in_or_app; auto.
    + intros k v Hin p Hp. apply In_dict_set in Hin. destruct Hin as [Hin|Hin]; [|eauto].
      inversion Hin; subst. eapply eval_val_pars; [|exact E|exact Hp].
      intros Hs q Hq. apply (Hl Hs). simpl. apply in_or_app; auto.
  - rewrite kw_go_kl_nil in H. eapply IH; [| |exact H]; auto.
  - rewrite kw_go_kl_cons in H. binv_as H xs. eapply IH; [| |exact H].
    + intros Hs p Hp. apply (Hl Hs). simpl. apply in_or_app; right. exact Hp.
    + intros k v Hin p Hp. apply In_dict_set in Hin. destruct Hin as [Hin|Hin]; [|eauto].
      inversion Hin; subst. simpl in Hp. eapply mapM_eval_val_pars; [|exact E|exact Hp].
      intros Hs q Hq. apply (Hl Hs). cbn [flat_map snd kwval_pars]. apply in_or_app; left. exact Hq.
Qed.

Lemma eval_args_pars a ps kws :
  (sym = true -> forall p, In p (args_pars a) -> Q p) -> eval_args env pn a = Ok (ps, kws) ->
  (forall p, In p (flat_map (vpars sym) ps) -> Q p) /\
  (forall k v, In (k, v) kws -> forall p, In p (vpars sym v) -> Q p).
Proof.
  intros Ha H. rewrite eval_args_eq in H. binv_as H ps'. binv_as H kws'. inversion H; subst.
  unfold args_pars in Ha. split.
  - eapply mapM_eval_val_pars; [|exact E]. intros Hs q Hq; apply (Ha Hs); apply in_or_app; auto.
  - eapply kw_go_pars; [| |exact E0].
    + intros Hs q Hq; apply (Ha Hs); apply in_or_app; auto.
    + intros k v [].
Qed.

Lemma eval_opt_args_pars a r :
  (sym = true -> forall p, In p (match a with Some x => args_pars x | None => [] end) -> Q p) ->
  eval_opt_args env pn a = Ok r ->
  forall nm ms p, In p (opars sym (mkop nm (wrap_args r) ms)) -> Q p.
Proof.
  intros Ha H nm ms p Hp. destruct a as [a|]; simpl in H.
  - binv_as H r'. inversion H; subst. destruct r' as [ps kws].
    destruct (eval_args_pars Ha E) as [H1 H2].
    unfold opars in Hp. simpl in Hp. apply in_app_or in Hp. destruct Hp as [Hp|Hp].
    + apply in_flat_map in Hp. destruct Hp as (v & Hv & Hp). apply in_map_iff in Hv.
      destruct Hv as (v0 & <- & Hv0). rewrite wrap_transform_pars in Hp.
      apply H1. apply in_flat_map. eauto.
    + apply in_flat_map in Hp. destruct Hp as (kv & Hv & Hp). apply in_map_iff in Hv.
      destruct Hv as ([k0 v0] & <- & Hv0). simpl in Hp. rewrite wrap_transform_pars in Hp. eauto.
  - inversion H; subst. contradiction.
Qed.
End EvalPars.

(* the state invariant, for both ways of counting: st_closed_g true is st_closed (every parameter occurring in the
   environment or in an operation is registered); st_closed_g false says that no number contains a parameter *)
Definition st_closed_g (sym:bool) (s:st) : Prop :=
  (forall x v, In (x, v) (s_env s) -> forall p, In p (vpars sym v) -> Qin sym (s_pars s) p) /\
  (forall o, In o (s_ops s) -> forall p, In p (opars sym o) -> Qin sym (s_pars s) p).

Lemma st_closed_g_true s : st_closed_g true s <-> st_closed s.
Proof. reflexivity. Qed.

Lemma st_closed_mono sym s s' :
  st_closed_g sym s -> s_env s' = s_env s -> s_ops s' = s_ops s -> (forall p, In p (s_pars s) -> In p (s_pars s')) ->
  st_closed_g sym s'.
Proof.
  intros [H1 H2] He Ho Hp. split.
  - rewrite He. intros x v Hx p Hq. eapply Qin_mono; [exact Hp|]. eapply H1; eauto.
  - rewrite Ho. intros o Hin p Hq. eapply Qin_mono; [exact Hp|]. eapply H2; eauto.
Qed.

Ltac qmono := eapply Qin_mono; [intros ? ?; apply add_new_incl; eassumption|].

Section Closed.
Variable incs : list (str * prog).
Variable tdm : bool.
Variable sym : bool.

Lemma exec_stmt_closed s t s' :
  lookup (sop t) incs = None -> st_closed_g sym s -> exec_stmt incs s t = Ok s' ->
  st_closed_g sym s' /\ (forall p, In p (s_pars s) -> In p (s_pars s')).
Proof.
  intros L [H1 H2] H. apply exec_stmt_inv in H.
  destruct H as (mvs & ms & a & new & _ & _ & Ha & Hn & ->). rewrite L in Hn. subst new. simpl.
  split; [|intros; apply add_new_incl; auto]. split; simpl.
  - intros x v Hx p Hp. qmono. eapply H1; eauto.
  - intros o Ho. apply in_app_iff in Ho. destruct Ho as [Ho|[<-|[]]].
    + intros p Hp. qmono. eapply H2; eauto.
    + intros p Hp.
      eapply (eval_opt_args_pars (Q:=Qin sym (add_new (s_pars s) (stmt_pars t)))); [| |exact Ha|exact Hp].
      * intros x w Hx q Hq. qmono. eapply H1; eauto.
      * intros Hs q Hq. apply Qin_intro; auto. apply add_new_In. right. unfold stmt_pars. apply in_or_app; auto.
Qed.

Lemma remove_first_keeps x l p : In p l -> p <> x -> In p (remove_first x l).
Proof.
  induction l as [|y l IH]; simpl; auto. intros [->|H] Hne.
  - destruct (str_eqb x p) eqn:E; [apply str_eqb_eq in E; congruence|simpl; auto].
  - destruct (str_eqb x y); simpl; auto.
Qed.

Lemma remove_first_notin x l : ~ In x l -> remove_first x l = l.
Proof.
  induction l as [|y l IH]; simpl; intro H; auto.
  destruct (str_eqb x y) eqn:E; [apply str_eqb_eq in E; subst; exfalso; auto|]. rewrite IH; auto.
Qed.

Lemma arr_elem_pars s ty e v (Q:str -> Prop) :
  (forall x w, In (x, w) (s_env s) -> forall p, In p (vpars sym w) -> Q p) ->
  (sym = true -> forall p, In p (expr_pars e) -> Q p) ->
  match e with
  | EPar p => Ok (VSym (TPar p))
  | _ => do v <- eval (s_env s) (s_pnames s) e; cast_elem ty v
  end = Ok v ->
  forall p, In p (vpars sym v) -> Q p.
Proof.
  intros Henv He H p Hp.
  assert (G: (exists q, e = EPar q) \/ (do v <- eval (s_env s) (s_pnames s) e; cast_elem ty v) = Ok v).
  { destruct e; eauto. }
  destruct G as [[q ->]|G].
  - inversion H; subst. simpl in Hp. destruct sym; [|contradiction]. destruct Hp as [<-|[]]. apply He; simpl; auto.
  - binv_as G w. eapply eval_pars; [exact Henv|exact He|exact E|]. eapply cast_elem_pars; eauto.
Qed.

(* an array template {p} is only specified when p is not yet a registered parameter (otherwise the outcome is
   Unspec): the generated names p_i_j are added and no registered parameter is removed, so the invariant survives
   without any condition on the template (generated names that collide with registered parameters are simply not
   added twice) *)
Lemma exec_item_closed_g s it s' :
  (forall t, it = IStmt t -> lookup (sop t) incs = None) ->
  (forall ty x h body t, it = IFor ty x h body -> In t body -> lookup (sop t) incs = None) ->
  st_closed_g sym s -> exec_item incs tdm s it = Ok s' -> st_closed_g sym s'.
Proof.
  intros Hst Hfor Hs H. destruct it as [ty n init l c|ty n shape body l c|t|ty x h body].
  - unfold exec_item in H. binv_as H x. binv_as H v. binv_as H v'. inversion H; subst. clear H.
    destruct Hs as [H1 H2]. split; simpl.
    + intros y w Hy p Hp. apply In_dict_set in Hy. destruct Hy as [Hy|Hy].
      * inversion Hy; subst.
        eapply (eval_val_pars (Q:=Qin sym (add_new (s_pars s) (val_pars init)))); [| |exact E0|].
        -- intros z u Hz q Hq. qmono. eapply H1; eauto.
        -- intros Hsym q Hq. apply Qin_intro; auto. apply add_new_In; auto.
        -- eapply cast_scalar_pars; eauto.
      * qmono. eapply H1; eauto.
    + intros o Ho p Hp. qmono. eapply H2; eauto.
  - apply exec_array_inv in H. destruct H as (x & rows & -> & -> & R). destruct Hs as [H1 H2].
    destruct R as [p sh r cc Hrows Hnin Hsh Hsv Hr Hc ->|elems Hnt Hne Hel Hlen ->].
    + subst rows.
      set (names := tmpl_names p (Z.to_nat r) (Z.to_nat cc)).
      assert (Hkeep: forall q, Qin sym (s_pars s) q -> Qin sym (add_new (remove_first p (s_pars s)) names) q).
      { intros q. apply Qin_mono. intros q0 Hq. apply add_new_incl. rewrite remove_first_notin; auto. }
      split; simpl.
      * intros y w Hy q Hq. apply In_dict_set in Hy. destruct Hy as [Hy|Hy].
        -- inversion Hy; subst. simpl in Hq. apply in_flat_map in Hq. destruct Hq as (v & Hv & Hq).
           apply in_map_iff in Hv. destruct Hv as (nm & <- & Hnm). simpl in Hq.
           destruct sym; [|contradiction]. destruct Hq as [<-|[]].
           simpl. apply add_new_In. auto.
        -- apply Hkeep. eapply H1; eauto.
      * intros o Ho q Hq. apply Hkeep. eapply H2; eauto.
    + split; simpl.
      * intros y w Hy q Hq. apply In_dict_set in Hy. destruct Hy as [Hy|Hy].
        -- inversion Hy; subst. simpl in Hq. apply in_flat_map in Hq. destruct Hq as (v & Hv & Hq).
           unfold arr_elems in Hel. destruct (mapM_In Hel Hv) as (e & He & Ev).
           eapply (arr_elem_pars (Q:=Qin sym (add_new (s_pars s) (flat_map expr_pars (concat rows)))));
             [| |exact Ev|exact Hq].
           ++ intros z u Hz q0 Hq0. qmono. eapply H1; eauto.
           ++ intros Hsym q0 Hq0. apply Qin_intro; auto. apply add_new_In. right. apply in_flat_map. eauto.
        -- qmono. eapply H1; eauto.
      * intros o Ho q Hq. qmono. eapply H2; eauto.
  - simpl in H. eapply exec_stmt_closed; eauto.
  - apply exec_for_inv in H. destruct H as (vals & s1 & Hv & _ & H & ->).
    set (pars0 := add_new (s_pars s) (hdr_pars h)) in *.
    assert (Hvals: forall v, In v vals -> forall p, In p (vpars sym v) -> Qin sym pars0 p).
    { intros v Hin p Hp. destruct h as [a b c|l]; simpl in Hv.
      - destruct (parse_digits a); [|discriminate]. destruct (parse_digits b); [|discriminate].
        destruct (match c with Some c' => parse_digits c' | None => Some 1%Z end); [|discriminate].
        binv_as Hv zs. inversion Hv; subst. apply in_map_iff in Hin. destruct Hin as (zz & <- & _). contradiction.
      - eapply (mapM_eval_val_pars (Q:=Qin sym pars0)); [| |exact Hv|].
        + intros y w Hy q Hq. unfold pars0. qmono. destruct Hs as [H1 _]. eapply H1; eauto.
        + intros Hsym q Hq. apply Qin_intro; auto. apply add_new_In; auto.
        + apply in_flat_map. eauto. }
    assert (G: st_closed_g sym s1 /\ forall p, In p pars0 -> In p (s_pars s1)).
    { eapply for_iter_ind with (P := fun s2 => st_closed_g sym s2 /\ forall p, In p pars0 -> In p (s_pars s2));
        [| | |exact H].
      - intros s2 v v' [[C1 C2] Cp] Hin Hc. split; [|exact Cp]. split; simpl.
        + intros y w Hy q Hq. apply In_dict_set in Hy. destruct Hy as [Hy|Hy].
          * inversion Hy; subst. eapply Qin_mono; [exact Cp|]. eapply Hvals; eauto. eapply cast_loop_pars; eauto.
          * eapply C1; eauto.
        + exact C2.
      - intros s2 t s3 [C Cp] Hin Hex. destruct (exec_stmt_closed (Hfor _ _ _ _ _ eq_refl Hin) C Hex) as [C' Hm].
        split; auto.
      - split; [|auto]. eapply st_closed_mono; [exact Hs| | |]; simpl; auto.
        intros; apply add_new_incl; auto. }
    destruct G as [[C1 C2] _]. split; simpl; auto.
    intros y w Hy. apply In_dict_del in Hy. eapply C1; eauto.
Qed.
End Closed.

Theorem exec_item_closed incs tdm s it s' :
  (forall t, it = IStmt t -> lookup (sop t) incs = None) ->
  (forall ty x h body t, it = IFor ty x h body -> In t body -> lookup (sop t) incs = None) ->
  st_closed s -> exec_item incs tdm s it = Ok s' -> st_closed s'.
Proof. exact (@exec_item_closed_g incs tdm true s it s'). Qed.

Lemma exec_items_closed_g tdm sym items : forall s s',
  st_closed_g sym s -> exec_items [] tdm s items = Ok s' -> st_closed_g sym s'.
Proof.
  induction items as [|it items IH]; simpl; intros s s' Hs H.
  - inversion H; subst; auto.
  - binv_as H s1. eapply IH; [|exact H].
    eapply exec_item_closed_g; [| |exact Hs|exact E]; reflexivity.
Qed.

Theorem exec_items_closed tdm items : forall s s',
  st_closed s -> exec_items [] tdm s items = Ok s' -> st_closed s'.
Proof. exact (@exec_items_closed_g tdm true items). Qed.

Lemma st_closed_g_init sym : st_closed_g sym (mkst [] [] [] [] []).
Proof. split; simpl; [intros x v []|intros o []]. Qed.

(* every parameter occurring in an operation or in a variable of a loaded program is one of its parameters
   (no condition on the script: the earlier counterexample, a registered scalar parameter re-used as an array
   template, is Unspec in the model) *)
Theorem pars_invariant sc p :
  denote [] sc = Ok p ->
  (forall o, In o (p_ops p) -> op_closed_in (p_params p) o) /\ env_closed_in (p_params p) (p_vars p).
Proof.
  intro H. apply denote_inv in H. destruct H as (s & H & -> & _ & -> & ->).
  apply exec_items_closed in H; auto.
  - destruct H; split; auto.
  - apply (st_closed_g_init true).
Qed.

(* parameters are only ever inside symbolic values and register transforms: no number of a loaded program
   contains a parameter *)
Theorem num_pars_invariant sc p :
  denote [] sc = Ok p ->
  (forall o, In o (p_ops p) -> op_num_pars o = []) /\ (forall x v, In (x, v) (p_vars p) -> num_pars v = []).
Proof.
  intro H. apply denote_inv in H. destruct H as (s & H & -> & _ & _ & ->).
  apply (@exec_items_closed_g _ false) in H; [|apply st_closed_g_init].
  destruct H as [H1 H2]. split.
  - intros o Ho. apply no_In_nil. intros q Hq. exact (H2 _ Ho _ Hq).
  - intros x v Hx. apply no_In_nil. intros q Hq. exact (H1 _ _ Hx _ Hq).
Qed.

(* a loaded template instantiated with parameter-free values: no parameter is left in its operations or variables
   outside register transforms *)
Theorem inst_denoted_pars_free sc p sg q :
  denote [] sc = Ok p ->
  (forall k u, In (k, u) sg -> term_pars u = []) ->
  instantiate sg p = Ok q ->
  (forall o, In o (p_ops q) -> op_pars_nt o = []) /\ (forall x v, In (x, v) (p_vars q) -> value_pars_free v).
Proof.
  intros Hd Hsg Hi. destruct (num_pars_invariant Hd) as [N1 N2]. split.
  - eapply inst_ops_pars_free; eauto.
  - eapply inst_vars_pars_free; eauto.
Qed.

(* registered parameters are never removed *)
Theorem pars_monotone incs tdm s it s' :
  exec_item incs tdm s it = Ok s' -> forall p, In p (s_pars s) -> In p (s_pars s').
Proof.
  intros H p Hp. destruct it as [ty n init l c|ty n shape body l c|t|ty x h body].
  - unfold exec_item in H. binv_as H x. binv_as H v. binv_as H v'. inversion H; subst. simpl.
    apply add_new_incl; auto.
  - apply exec_array_inv in H. destruct H as (x & rows & _ & _ & R).
    destruct R as [q sh r cc Hrows Hnin Hsh Hsv Hr Hc ->|elems Hnt Hne Hel Hlen ->]; simpl.
    + apply add_new_incl. rewrite remove_first_notin; auto.
    + apply add_new_incl; auto.
  - simpl in H. apply exec_stmt_inv in H. destruct H as (mvs & ms & a & new & _ & _ & _ & _ & ->). simpl.
    apply add_new_incl; auto.
  - apply exec_for_inv in H. destruct H as (vals & s1 & _ & _ & H & ->). simpl.
    eapply for_iter_ind with (P := fun s2 => In p (s_pars s2)); [| | |exact H].
    + intros s2 v v' HP _ _. exact HP.
    + intros s2 t s3 HP _ H2. apply exec_stmt_inv in H2.
      destruct H2 as (mvs & ms & a & new & _ & _ & _ & _ & ->). simpl. apply add_new_incl; auto.
    + simpl. apply add_new_incl; auto.
Qed.

(* ================================================================== *)
(* Examples (vm_compute)                                                *)
(* ================================================================== *)
Section Examples.
Local Open Scope N_scope.

(* name a / version 1 / "Op | [1, 0]" *)
Example ex_plain :
  denote [] (mkscript [97] [49] None None []
               [IStmt (mkstmt [79;112] None [ENum NKInt [49]; ENum NKInt [48]])])
  = Ok (mkprog [97] [49] None [] None [] [mkop [79;112] None [1%Z;0%Z]] [1%Z;0%Z] [] []).
Proof. vm_compute. reflexivity. Qed.

(* included program s with modes (3,1) (first use order), called twice: the modes in increasing order 1,3 are
   renamed to the call's modes; the second call yields the same operations on its own modes *)
Definition ex_inc : prog :=
  mkprog [115] [49] None [] None [] [mkop [65] None [3%Z]; mkop [66] None [1%Z;3%Z]] [3%Z;1%Z] [] [].

Example ex_include :
  denote [([115], ex_inc)]
         (mkscript [97] [49] None None []
            [IStmt (mkstmt [115] None [ENum NKInt [55]; ENum NKInt [53]]);
             IStmt (mkstmt [115] None [ENum NKInt [50]; ENum NKInt [52]])])
  = Ok (mkprog [97] [49] None [] None []
          [mkop [65] None [5%Z]; mkop [66] None [7%Z;5%Z]; mkop [65] None [4%Z]; mkop [66] None [2%Z;4%Z]]
          [7%Z;5%Z;2%Z;4%Z] [] []).
Proof. vm_compute. reflexivity. Qed.

(* tdm: the p-type array p0 is passed by name; without the tdm type it is passed by value *)
Definition ex_p0_items : list item :=
  [IArray VTFloat (DName [112;48]) None (ARows [[ENum NKInt [49]]]) 0 0;
   IStmt (mkstmt [79;112] (Some (mkargs [VE (EVar [112;48] 0 0)] [])) [ENum NKInt [48]])].

Example ex_tdm_by_name :
  exists p, denote [] (mkscript [97] [49] None (Some ([116;100;109], None)) [] ex_p0_items) = Ok p /\
            p_ops p = [mkop [79;112] (Some ([VPName [112;48]], [])) [0%Z]] /\ p_params p = [].
Proof. eexists. vm_compute. repeat split. Qed.

Example ex_not_tdm_by_value :
  exists p, denote [] (mkscript [97] [49] None None [] ex_p0_items) = Ok p /\
            p_ops p = [mkop [79;112] (Some ([VArr VTFloat 1 1 [VFlt (TDec 1 0)]], [])) [0%Z]].
Proof. eexists. vm_compute. repeat split. Qed.

(* the earlier counterexample to pars_invariant, float x = {p} ; float array A[1,1] = {p} (p would be replaced
   by p_0_0 in the parameters while x keeps {p}), is outside the specification: a name already registered as a
   scalar parameter cannot be an array template *)
Example ex_template_unregisters :
  denote [] (mkscript [97] [49] None None []
               [IScalar VTFloat (DName [120]) (VE (EPar [112])) 0 0;
                IArray VTFloat (DName [65]) (Some [[49];[49]]) (ARows [[EPar [112]]]) 0 0]) = Unspec.
Proof. vm_compute. reflexivity. Qed.

(* an array template whose parameter is fresh: the generated names are registered (in row-major order) *)
Example ex_template_fresh :
  exists p, denote [] (mkscript [97] [49] None None []
                         [IScalar VTFloat (DName [120]) (VE (EPar [113])) 0 0;
                          IArray VTFloat (DName [65]) (Some [[49];[50]]) (ARows [[EPar [112]]]) 0 0]) = Ok p /\
            p_params p = [[113]; [112;95;48;95;48]; [112;95;48;95;49]] /\
            lookup [65] (p_vars p) = Some (VArr VTFloat 1 2 [VSym (TPar [112;95;48;95;48]); VSym (TPar [112;95;48;95;49])]).
Proof. eexists. vm_compute. repeat split. Qed.

(* instantiation substitutes into symbolic (VSym) arguments only: a register transform keeps its parameter *)
Example ex_transform_not_instantiated :
  expand_include
    (mkprog [115] [49] None [] None []
       [mkop [71] (Some ([VTrf (TMul (TPar [112]) (TReg [113;48])); VSym (TPar [112])], [])) [0%Z]] [0%Z] [[112]] [])
    (mkop [115] (Some ([], [([112], VInt 2)])) [4%Z])
  = Ok [mkop [71] (Some ([VTrf (TMul (TPar [112]) (TReg [113;48])); VFlt (TDec 2 0)], [])) [4%Z]].
Proof. vm_compute. reflexivity. Qed.
(* instantiation descends into keyword lists and array arguments; the register transform is still left as it is *)
Example ex_nested_instantiated :
  expand_include
    (mkprog [115] [49] None [] None []
       [mkop [71] (Some ([VArr VTFloat 1 2 [VSym (TPar [112]); VFlt (TDec 1 0)];
                          VTrf (TMul (TPar [112]) (TReg [113;48]))],
                         [([107], VList [VSym (TPar [112]); VInt 3])])) [0%Z]] [0%Z] [[112]] [])
    (mkop [115] (Some ([], [([112], VInt 2)])) [4%Z])
  = Ok [mkop [71] (Some ([VArr VTFloat 1 2 [VFlt (TDec 2 0); VFlt (TDec 1 0)];
                          VTrf (TMul (TPar [112]) (TReg [113;48]))],
                         [([107], VList [VFlt (TDec 2 0); VInt 3])])) [4%Z]].
Proof. vm_compute. reflexivity. Qed.
(* nested includes: the values passed to an included template may be symbolic (parameters of the calling template);
   the result then stays symbolic, and a sum of a parameter and a number is substituted as a whole *)
Example ex_symbolic_include :
  expand_include
    (mkprog [115] [49] None [] None []
       [mkop [71] (Some ([VSym (TAdd (TPar [112]) (TPar [114])); VSym (TPar [114])], [])) [0%Z]] [0%Z] [[112];[114]] [])
    (mkop [115] (Some ([], [([112], VSym (TPar [113])); ([114], VInt 2)])) [4%Z])
  = Ok [mkop [71] (Some ([VSym (TAdd (TPar [113]) (TDec 2 0)); VFlt (TDec 2 0)], [])) [4%Z]].
Proof. vm_compute. reflexivity. Qed.
End Examples.

(* ================================================================== *)
Print Assumptions meta_as_written.
Print Assumptions ops_append_only.
Print Assumptions ops_append_only_items.
Print Assumptions exec_stmt_plain.
Print Assumptions ops_in_order.
Print Assumptions exec_item_modes.
Print Assumptions modes_union.
Print Assumptions modes_union_incs.
Print Assumptions expand_modes.
Print Assumptions exec_item_closed.
Print Assumptions exec_items_closed.
Print Assumptions pars_invariant.
Print Assumptions num_pars_invariant.
Print Assumptions pars_monotone.
Print Assumptions inst_denoted_pars_free.
Print Assumptions inst_closed.
Print Assumptions inst_not_template.
Print Assumptions inst_ops_rel.
Print Assumptions inst_args_closed.
Print Assumptions inst_value_list.
Print Assumptions inst_value_rel.
Print Assumptions inst_value_rel_num.
Print Assumptions subst_term_compose.
Print Assumptions inst_value_compose.
Print Assumptions close_kind_closed.
Print Assumptions close_kind_closed_sg.
Print Assumptions inst_vars_rel.
Print Assumptions inst_ops_rel_num.
Print Assumptions inst_vars_rel_num.
Print Assumptions inst_value_pars_free.
Print Assumptions inst_ops_pars_free.
Print Assumptions inst_vars_pars_free.
Print Assumptions inst_op_missing.
Print Assumptions inst_missing_refused.
Print Assumptions subst_term_den.
Print Assumptions tden_closed.
Print Assumptions expand_arity_refused.
Print Assumptions expand_kw_refused_noparams.
Print Assumptions expand_kw_refused_names.
Print Assumptions expand_missing_refused.
Print Assumptions same_set_spec.
Print Assumptions sortZ_perm.
Print Assumptions sortZ_sorted.
Print Assumptions expand_is_rename.
Print Assumptions expand_include_inv.
Print Assumptions exec_stmt_history_independent.
Print Assumptions expand_independent_of_history.
Print Assumptions pname_by_name.
Print Assumptions pname_only_tdm_ptype.
Print Assumptions pname_eval.
Print Assumptions non_pname_by_value.
Print Assumptions pnames_not_params.
Print Assumptions ex_plain.
Print Assumptions ex_include.
Print Assumptions ex_template_unregisters.
Print Assumptions ex_template_fresh.
Print Assumptions ex_nested_instantiated.
Print Assumptions ex_symbolic_include.
